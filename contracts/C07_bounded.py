"""C07 (O2Jam .ojn reading) - bounded stand-in.

Runs the REAL `O2JMapSet.read(bytes)` / `O2JMapSet.read_file(path)` on well-formed OJN byte strings and compares
with an independent exact interpreter `den_ojn` written from the format description (DESIGN appendix B):

  header  300 bytes little-endian, layout `HEADER_FMT`
  body    per difficulty d, package_count[d] packages `int32 measure; int16 channel; int16 count; count x 4 bytes`
          event i of count sits at measure + i/count
          channel 1     float32 bpm (0 = no event)
          channel 2..8  column 0..6: int16 value (0 = none); uint8 volume<<4|pan; uint8 type (0 hit, 2 head, 3 tail)
          channel 0     measure fraction - EXCLUDED by the property's domain;  9..22 ignored
  time    a measure lasts 240000/bpm ms; time 0 is measure 0 at the header bpm; a tempo event applies from its
          position on

Clause ids (`what`).  `<cls>` is `single_tempo` when the difficulty has no tempo event or exactly one event at
measure position 0, `multi_tempo` otherwise (the header tempo plus at least one change after the start, or several
events) - so the part of the reader that handles one tempo stays separately visible:

  read_raises_<cls>        read() raised (cls = multi_tempo when ANY difficulty of the file is multi_tempo)
  three_maps               the map set does not hold exactly three maps
  hit_column_count         per column, number of hits differs from the note channels' hits
  hold_column_count        per column, number of long notes differs from the head/tail pairs
  note_time_<cls>          a hit / long-note head is not at the integrated ms position
  hold_end_<cls>           a long note's end (offset + length) is not at the integrated ms position of ITS tail
  tempo_point_bpm          tempo values (header tempo + channel-1 events) differ
  tempo_point_time         a tempo change is not at the integrated ms position
  header_text / header_bpm / header_level / header_counts / header_other   header fields not decoded as laid out

Input dimensions of the generators (besides the package contents): difficulties with 0 packages / tempo packages only /
packages without any event / hits only / long notes only (any of the three, also in the middle); slot counts from a pool
and random 1..400, packages with 0 slots; first note measure up to 999; file order measure-major, tempo packages
anywhere, channel-major; a second package for an already used (measure, channel) (tempo channel; hit-only columns);
a long note whose tail sits at the position of its head (two packages of one measure); header counters (event / note /
measure count) as derived or as arbitrary numbers (real files count differently); header text fields with non-ASCII
bytes or bytes after the NUL (only 'reads without raising' and the other clauses apply to them); cover and bitmap blobs
after the packages; entry points read(bytes), read on an instance, read_file(str), read_file(pathlib.Path); every numeric
header field over the full range of its declared type (negative / top bit set, extremes, byte boundaries, 0: HEADER_RANGE_SETS
in the small family, 35% of the random headers); slot counts up to 32767, first note measure up to 1000000.
File-system state and stale state (ojn_reads_do_not_interfere): read_file from ONE path that is overwritten by a longer /
shorter other file between the reads; the first result edited through public operations before its bytes are read again.

Clauses of `ojn_reads_do_not_interfere` (two files read one after the other in one process):
  earlier_result_changed_by_later_read    the map set returned for the first file differs after the second read
  same_bytes_read_differently_again       reading the first file once more gives a different map set
  (the second file's result is compared with the interpreter under the clause ids above)

Not asserted (the property is silent): volume / pan nibbles, the order of rows inside the lists, whether the header
tempo is repeated as a tempo point when an event sits at position 0, text fields that are not plain NUL-padded ASCII.
"""
from __future__ import annotations

import itertools
import os
import struct
import tempfile
import traceback
import warnings
from bisect import bisect_left
from math import gcd
from fractions import Fraction

from pyvc.dsl import bounded
from pyvc.bounded import replayer

# ----------------------------------------------------------------------------------------------- format (A5)

HEADER_FMT = "<i4sfif4h3i3i3i3ihh20sii64s32s32s32si3i3ii"
assert struct.calcsize(HEADER_FMT) == 300
SLOT_COUNTS = [1, 2, 3, 4, 8, 16, 192]
FIXTURES = ["/repo/rsc/maps/o2jam/o2ma178.ojn", "/repo/rsc/maps/o2jam/o2ma120.ojn"]
TEXT_FIELDS = [("title", "title"), ("artist", "artist"), ("noter", "creator"), ("ojm_file", "ojm_file"), ("signature", "signature")]


def _f32(x):
    return struct.unpack("<f", struct.pack("<f", x))[0]


def parse_ojn(b):
    """bytes -> (header dict of raw decoded fields, [3 x [(measure, channel, count, raw event bytes)]], end offset)."""
    u = struct.unpack(HEADER_FMT, b[:300])
    h = dict(
        songid=u[0], signature=u[1], encode_version=u[2], genre=u[3], bpm=u[4], level=list(u[5:9]),
        event_count=list(u[9:12]), note_count=list(u[12:15]), measure_count=list(u[15:18]), package_count=list(u[18:21]),
        old_encode_version=u[21], old_songid=u[22], old_genre=u[23], bmp_size=u[24], old_file_version=u[25],
        title=u[26], artist=u[27], noter=u[28], ojm_file=u[29], cover_size=u[30], time=list(u[31:34]),
        note_offset=list(u[34:37]), cover_offset=u[37],
    )
    pos = 300
    diffs = []
    for d in range(3):
        pk = []
        for _ in range(h["package_count"][d]):
            measure, channel, count = struct.unpack_from("<ihh", b, pos)
            pos += 8
            raw = b[pos:pos + 4 * count]
            if len(raw) != 4 * count:
                raise ValueError("truncated package")
            pos += 4 * count
            pk.append((measure, channel, count, raw))
        diffs.append(pk)
    return h, diffs, pos


def _text(raw):
    """char[n] as text: the bytes before the first NUL, when the field is plain NUL-padded ASCII; else None."""
    i = raw.find(b"\x00")
    head, tail = (raw, b"") if i < 0 else (raw[:i], raw[i:])
    if tail.strip(b"\x00") or any(c >= 128 for c in head):
        return None
    return head.decode("ascii")


def den_ojn(b):
    """The denotation of an OJN file: header fields + per difficulty hits / holds / tempo points in exact ms."""
    h, diffs, end = parse_ojn(b)
    hb = Fraction(h["bpm"])
    maps = []
    for pk in diffs:
        tempo_ev = []  # (position, bpm float)
        cols = {c: [] for c in range(7)}  # column -> [(position, type)] in file order
        flags = set()
        for measure, channel, count, raw in pk:
            for i in range(count):
                pos = Fraction(measure) + Fraction(i, count)
                ev = raw[4 * i:4 * i + 4]
                if channel == 1:
                    v = struct.unpack("<f", ev)[0]
                    if v != 0:
                        tempo_ev.append((pos, v))
                        if not v > 0:
                            flags.add("nonpositive_bpm")
                elif 2 <= channel <= 8:
                    value, _vp, typ = struct.unpack("<hBB", ev)
                    if value != 0:
                        cols[channel - 2].append((pos, typ))
                elif channel == 0:
                    flags.add("measure_fraction")
        if hb <= 0:
            flags.add("nonpositive_bpm")
        tempo_ev.sort(key=lambda e: e[0])  # stable
        # integrate: breakpoints (position, time at position, tempo from there on)
        bp_pos, bp_t, bp_bpm = [Fraction(0)], [Fraction(0)], [hb]
        tempo = []
        if "nonpositive_bpm" not in flags:
            for pos, v in tempo_ev:
                t = bp_t[-1] + (pos - bp_pos[-1]) * 240000 / bp_bpm[-1]
                bp_pos.append(pos), bp_t.append(t), bp_bpm.append(Fraction(v))
                tempo.append((t, v))

        def T(p):
            # all tempo events strictly before p (events AT p give the same value)
            k = bisect_left(bp_pos, p, lo=1) - 1
            return bp_t[k] + (p - bp_pos[k]) * 240000 / bp_bpm[k]

        hits, holds, span = [], [], 0
        last_note = None
        for c in range(7):
            evs = sorted(cols[c], key=lambda e: e[0])  # stable: position order, file order on ties
            open_head = None
            for pos, typ in evs:
                last_note = pos if last_note is None else max(last_note, pos)
                if typ == 0:
                    hits.append((c, T(pos)))
                    if open_head is not None:
                        flags.add("hit_inside_long_note")
                elif typ == 2:
                    if open_head is not None:
                        flags.add("head_while_open")
                    open_head = pos
                elif typ == 3:
                    if open_head is None:
                        flags.add("tail_without_head")
                    else:
                        holds.append((c, T(open_head), T(pos) - T(open_head)))
                        span += int(pos) != int(open_head)
                        open_head = None
                else:
                    flags.add("other_note_type")
            if open_head is not None:
                flags.add("unclosed_head")
        single = len(tempo_ev) == 0 or (len(tempo_ev) == 1 and tempo_ev[0][0] == 0)
        maps.append(dict(
            hits=hits, holds=holds, tempo=tempo, tempo_events=len(tempo_ev), flags=sorted(flags),
            cls="single_tempo" if single else "multi_tempo", holds_across_measures=span,
            tempo_after_last_note=sum(1 for p, _ in tempo_ev if last_note is None or p > last_note),
            tempo_at_zero=any(p == 0 for p, _ in tempo_ev),
        ))
    return dict(header=h, maps=maps, end=end)


# ----------------------------------------------------------------------------------------------- builder

def build_ojn(spec):
    """spec (JSON-able) -> bytes.  spec = {header: {...}, diffs: 3 x [[measure, channel, count, [[slot, ev], ...]], ...]}
    ev = bpm (channel 1) or [value, volume, pan, type] (other channels).  Counts / offsets are derived, consistent."""
    hd = spec["header"]
    bodies, ev_count, note_count, measure_count, pkg_count = [], [], [], [], []
    for pk in spec["diffs"]:
        out = bytearray()
        ne = nn = 0
        for measure, channel, count, evs in pk:
            slots = [b"\x00\x00\x00\x00"] * count
            for slot, ev in evs:
                assert 0 <= slot < count and slots[slot] == b"\x00\x00\x00\x00"
                if channel == 1:
                    slots[slot] = struct.pack("<f", ev)
                else:
                    value, volume, pan, typ = ev
                    slots[slot] = struct.pack("<hBB", value, (volume << 4) | pan, typ)
                    nn += 2 <= channel <= 8
                ne += 1
            out += struct.pack("<ihh", measure, channel, count) + b"".join(slots)
        bodies.append(bytes(out))
        ev_count.append(ne), note_count.append(nn), pkg_count.append(len(pk))
        measure_count.append(max((p[0] for p in pk), default=-1) + 1)
    note_offset = [300, 300 + len(bodies[0]), 300 + len(bodies[0]) + len(bodies[1])]
    cover_offset = note_offset[2] + len(bodies[2])
    cover = bytes.fromhex(hd.get("cover", ""))
    bmp = bytes.fromhex(hd.get("bmp", ""))  # thumbnail blob after the cover, as in the bundled files
    # header counters: derived from the packages unless the spec states them (real files count differently)
    ev_count, note_count, measure_count = hd.get("event_count", ev_count), hd.get("note_count", note_count), hd.get("measure_count", measure_count)

    def text(key):  # "<key>_hex" = raw bytes of the field (non-ASCII / bytes after the NUL)
        return bytes.fromhex(hd[key + "_hex"]) if key + "_hex" in hd else hd[key].encode("ascii")

    head = struct.pack(
        HEADER_FMT, hd["songid"], hd.get("signature", "ojn").encode("ascii"), hd["encode_version"], hd["genre"], hd["bpm"],
        *hd["level"], *ev_count, *note_count, *measure_count, *pkg_count, hd["old_encode_version"], hd["old_songid"],
        bytes.fromhex(hd["old_genre"]), hd["bmp_size"], hd["old_file_version"], text("title"),
        text("artist"), text("noter"), text("ojm_file"), len(cover),
        *hd["time"], *note_offset, cover_offset,
    )
    assert len(head) == 300
    return head + b"".join(bodies) + cover + bmp


def _selfcheck(spec, b):
    """generator <-> interpreter framing agreement (a disagreement is a checker error, not a reamber failure)."""
    h, diffs, end = parse_ojn(b)
    assert h["note_offset"][0] == 300 and h["cover_offset"] == end and len(b) == end + h["cover_size"] + len(spec["header"].get("bmp", "")) // 2, "offsets"
    for d in range(3):
        assert len(diffs[d]) == len(spec["diffs"][d])
        for (m, ch, n, raw), (m2, ch2, n2, evs) in zip(diffs[d], spec["diffs"][d]):
            assert (m, ch, n) == (m2, ch2, n2) and sum(raw[4 * i:4 * i + 4] != b"\0\0\0\0" for i in range(n)) == len(evs)
    assert h["bpm"] == spec["header"]["bpm"]
    if "title_hex" in spec["header"]:
        assert h["title"].rstrip(b"\0") == bytes.fromhex(spec["header"]["title_hex"]).rstrip(b"\0")
    else:
        assert _text(h["title"]) == spec["header"]["title"]


PLAIN_HEADER = dict(
    songid=1, encode_version=_f32(2.9), genre=2, bpm=120.0, level=[1, 2, 3, 0], old_encode_version=29, old_songid=1,
    old_genre="00" * 20, bmp_size=0, old_file_version=0, title="t", artist="a", noter="n", ojm_file="o2ma1.ojm",
    time=[1, 1, 1], cover="",
)


# value sets for the numeric header fields: top bit set (negative), the extremes of each type, byte-boundary values
HEADER_RANGE_SETS = [
    dict(songid=-2, encode_version=-1.5, genre=-1, level=[-1, -2, -3, -4], old_encode_version=-29, old_songid=-25536,
         old_genre=bytes(range(1, 21)).hex(), bmp_size=-19256, old_file_version=-1, time=[-121, -123, -125],
         event_count=[-1, -2, -3], note_count=[-4, -5, -6], measure_count=[-7, -8, -9]),
    dict(songid=2 ** 31 - 1, encode_version=0.0, genre=-(2 ** 31), level=[32767, -32768, 0, 1], old_encode_version=32767,
         old_songid=-32768, old_genre="ff" * 20, bmp_size=2 ** 31 - 1, old_file_version=-(2 ** 31), time=[2 ** 31 - 1, 0, -(2 ** 31)],
         event_count=[2 ** 31 - 1, -(2 ** 31), 0], note_count=[0, 1, 2], measure_count=[3, 4, 5]),
    dict(songid=-(2 ** 31), encode_version=_f32(3.4028234663852886e38), genre=2 ** 31 - 1, level=[-32768, 32767, 255, 256],
         old_encode_version=-32768, old_songid=32767, old_genre="80" * 20, bmp_size=-(2 ** 31), old_file_version=2 ** 31 - 1,
         time=[0x8000, 0xFFFF, 0x10000]),
    dict(songid=0x8000, encode_version=_f32(-1e-30), genre=0xFFFF, level=[128, -128, 127, -129], old_encode_version=-1,
         old_songid=-1, bmp_size=0xFFFF, old_file_version=0x10000, time=[-0x8000, -0x8001, -1]),
    dict(songid=0, encode_version=0.0, genre=0, level=[0, 0, 0, 0], old_encode_version=0, old_songid=0, bmp_size=0, old_file_version=0,
         time=[0, 0, 0]),
]


def _pos_pkgs(channel, events):
    """packages of one channel holding `events` = [(rational measure position, ev)]: one package per measure, with the
    smallest slot count that hits every position of that measure."""
    by_measure = {}
    for pos, ev in events:
        pos = Fraction(pos)
        m = pos.numerator // pos.denominator
        by_measure.setdefault(int(m), []).append((pos - m, ev))
    out = []
    for m, evs in sorted(by_measure.items()):
        count = 1
        for fr, _ in evs:
            count = count * fr.denominator // gcd(count, fr.denominator)
        out.append([m, channel, count, sorted([int(fr * count), ev] for fr, ev in evs)])
    return out


# ----------------------------------------------------------------------------------------------- random generator

BPM_POOL = [60.0, 90.0, 120.0, 130.0, 150.0, 177.5, 200.0, 240.0, 333.25, 0.75, 1000.0]
SLOT_POOL = [5, 6, 7, 12, 24, 32, 48, 64, 96, 384]  # besides SLOT_COUNTS
DIFF_KINDS = ["empty", "tempo_only", "blank_packages", "hits_only", "holds_only", "full"]
VIAS = ["read", "read", "read", "read", "read_file_str", "read_file_path", "instance_read"]
RAW_TEXTS = [  # header text fields that are not plain NUL-padded ASCII (the text clauses are silent on them; reading must still work)
    "노래 제목".encode("cp949"), "曲名\u301c\u3000".encode("shift_jis"), b"caf\xe9 \xdf", b"abc\x00\xdf\x00xyz", b"\xff\xfe\x80\x81",
    "été".encode("utf-8"), b"tab\there\x00junk",
]


def _rand_text(rng, size):
    n = rng.choice([0, 1, rng.randrange(0, size + 1), rng.randrange(0, size + 1), size])
    return "".join(rng.choice("abcXYZ 019!-_.()'#") for _ in range(n))


def _rand_bpm(rng):
    return rng.choice(BPM_POOL) if rng.random() < 0.7 else _f32(rng.uniform(30, 480))


def _rand_count(rng, at_least=1):
    r = rng.random()
    if r < 0.7:
        pool = SLOT_COUNTS
    elif r < 0.9:
        pool = SLOT_POOL
    elif r < 0.995:
        pool = [rng.randint(1, 400)]
    else:
        pool = [1000, 4096, 32767]  # up to the largest slot count the int16 field can carry
    pool = [c for c in pool if c >= at_least]
    return rng.choice(pool) if pool else 192 * ((at_least + 191) // 192)


def _rand_header(rng):
    sid = rng.randrange(1, 30000)
    hd = dict(
        songid=sid, encode_version=_f32(rng.choice([2.9, 2.5, 1.0])), genre=rng.randrange(0, 11), bpm=_rand_bpm(rng),
        level=[rng.randrange(0, 200) for _ in range(3)] + [rng.choice([0, 0, 7])], old_encode_version=rng.choice([29, 25, 0]),
        old_songid=sid & 0x7FFF, old_genre=bytes(rng.choice([0, 0, 0, 1, 65, 255]) for _ in range(20)).hex(),
        bmp_size=rng.choice([0, 19256, rng.randrange(0, 1 << 20)]), old_file_version=rng.choice([0, 1]),
        title=_rand_text(rng, 64), artist=_rand_text(rng, 32), noter=_rand_text(rng, 32), ojm_file=f"o2ma{sid}.ojm",
        time=[rng.randrange(0, 600) for _ in range(3)], cover=bytes(rng.randrange(256) for _ in range(rng.choice([0, 0, 5, 64]))).hex(),
    )
    if rng.random() < 0.25:
        # the counters of real files are not the number of non-empty slots (o2ma178: 602 events where 624 slots are set):
        # they are header fields to decode, nothing the packages have to agree with
        for key in ("event_count", "note_count", "measure_count"):
            if rng.random() < 0.7:
                hd[key] = [rng.choice([0, 1, rng.randrange(0, 2000), 2 ** 31 - 1, -1]) for _ in range(3)]
    if rng.random() < 0.2:
        for key in ("title", "artist", "noter", "ojm_file"):
            if rng.random() < 0.5:
                hd[key + "_hex"] = rng.choice(RAW_TEXTS).hex()
    if rng.random() < 0.15:
        n = rng.choice([1, 16, 200])
        hd["bmp"] = bytes(rng.randrange(256) for _ in range(n)).hex()
        hd["bmp_size"] = n
    if rng.random() < 0.35:
        # FULL VALUE RANGE of every numeric header field per its declared type (signed little-endian int32 / int16, float32):
        # top bit set (negative), the extremes, 0 - the fields are decoded as laid out, whatever they hold
        def i32():
            return rng.choice([0, 1, -1, -2, 2 ** 31 - 1, -(2 ** 31), 0x7FFF, 0x8000, 0xFFFF, 0x10000, -0x8000, -0x8001,
                               rng.randrange(-(2 ** 31), 2 ** 31), rng.randrange(-70000, 70000)])

        def i16():
            return rng.choice([0, 1, -1, -2, 32767, -32768, 127, 128, 255, 256, -128, -129, -25536, rng.randrange(-32768, 32768)])

        def f32():
            return _f32(rng.choice([0.0, -0.0, 1.0, -1.5, 2.9, -2.9, 1e-30, -1e30, 3.4028234663852886e38, 1.401298464324817e-45,
                                    rng.uniform(-1000, 1000)]))

        fields = [("songid", i32), ("genre", i32), ("old_encode_version", i16), ("old_songid", i16), ("bmp_size", i32),
                  ("old_file_version", i32), ("encode_version", f32)]
        every = rng.random() < 0.4
        for key, draw in fields:
            if key == "bmp_size" and "bmp" in hd:
                continue  # a file that carries a bitmap blob states its size
            if every or rng.random() < 0.4:
                hd[key] = draw()
        if every or rng.random() < 0.4:
            hd["level"] = [i16() for _ in range(4)]
        if every or rng.random() < 0.4:
            hd["time"] = [i32() for _ in range(3)]
        for key in ("event_count", "note_count", "measure_count"):
            if every or rng.random() < 0.3:
                hd[key] = [i32() for _ in range(3)]
        if every or rng.random() < 0.4:
            hd["old_genre"] = bytes(rng.choice([0, 1, 127, 128, 255, rng.randrange(256)]) for _ in range(20)).hex()
        hd["full_range"] = True  # marker only (counted in the evidence); build_ojn does not read it
    elif rng.random() < 0.3:
        # (14) EVERY header field non-zero, non-empty and different from every other field of the file (per-difficulty fields different
        # per difficulty), so that a field decoded from a sibling's bytes shows: 26 different numbers, 4 different texts, float fields apart
        v = rng.sample(range(2, 30000), 26)
        hd.update(songid=v[0], genre=v[1], old_encode_version=v[2], old_songid=v[3], bmp_size=v[4], old_file_version=v[5], level=v[6:10], time=v[10:13],
                  event_count=v[13:16], note_count=v[16:19], measure_count=v[19:22], encode_version=_f32(rng.choice([2.5, 1.75, 3.25])),
                  old_genre=bytes(rng.sample(range(1, 256), 20)).hex(), cover=bytes(rng.randrange(1, 256) for _ in range(rng.choice([3, 5, 64]))).hex())
        hd.pop("bmp", None)
        names = rng.sample(["Alpha title", "Beta artist", "Gamma noter", "Delta x", "Epsilon 5", "Zeta (z)"], 3)
        hd.update(title=names[0], artist=names[1], noter=names[2], ojm_file=f"o2ma{v[22]}.ojm")
        for key in ("title", "artist", "noter", "ojm_file"):
            hd.pop(key + "_hex", None)
        while hd["bpm"] == hd["encode_version"]:
            hd["bpm"] = _rand_bpm(rng)
        hd["all_distinct"] = True  # marker only
    return hd


def _rand_diff(rng, single, max_pkgs=40, kind="full"):
    """kind: empty = no package at all; tempo_only = tempo-channel packages only; blank_packages = packages none of whose
    slots is set (and packages with 0 slots); hits_only / holds_only = no long notes / nothing but long notes; full."""
    if kind == "empty":
        return []
    if kind == "blank_packages":
        return [[m, rng.choice([1, 2, 5, 8, 9, 22]), rng.choice([0, 0, 1, 4, 192]), []] for m in sorted(rng.randrange(0, 8) for _ in range(rng.randint(1, 5)))]
    n_pk = rng.randint(1, max_pkgs)
    s0 = rng.choice([0, 0, 0, 0, 0, 0, 1, 1, 2, 2, 5, 5, 100, 999] + ([32767, 65536, 1000000] if rng.random() < 0.15 else []))  # first measure with notes
    L = rng.randint(1, 12)  # measures with notes: s0 .. s0+L-1
    pk = []
    # tempo events
    if single:
        k = rng.choice([0, 0, 1])
        tm = {0: 1} if k else {}
    else:
        k = rng.randint(1, 6)
        tm = {}
        for _ in range(k):
            m = rng.randrange(s0 + L, s0 + L + 4) if rng.random() < 0.25 else rng.randrange(0, s0 + L + 1)
            tm[m] = tm.get(m, 0) + 1
    if kind == "tempo_only" and not tm:
        tm = {rng.choice([0, 0, 3]): 1}
    used_pos = set()
    for m, ne in sorted(tm.items()):
        count = 1 if single else _rand_count(rng, ne)
        slots = sorted(rng.sample(range(count), ne))
        if not single and rng.random() < 0.5 and ne == 1:
            slots = [0]
        used_pos |= {Fraction(m) + Fraction(sl, count) for sl in slots}
        pk.append([m, 1, count, [[sl, _rand_bpm(rng)] for sl in slots]])
    if not single and tm and rng.random() < 0.15:
        # a second tempo package for a measure that has one already, with another slot count (no two events on one position)
        m = rng.choice(sorted(tm))
        count = rng.choice([2, 3, 4, 6, 8, 16])
        evs = [[sl, _rand_bpm(rng)] for sl in range(count) if rng.random() < 0.4 and Fraction(m) + Fraction(sl, count) not in used_pos]
        pk.append([m, 1, count, evs])
    if kind == "tempo_only":
        rng.shuffle(pk)
        return pk
    budget = max(0, n_pk - len(pk))
    # autoplay packages (ignored channels) - part of real files, must not disturb framing
    if budget > 1 and rng.random() < 0.3:
        for _ in range(rng.randint(1, min(3, budget - 1))):
            count = rng.choice(SLOT_COUNTS[:6])
            evs = [[sl, [rng.randrange(1, 1000), rng.randrange(16), rng.randrange(16), rng.choice([0, 4])]] for sl in range(count) if rng.random() < 0.5]
            pk.append([rng.randrange(0, s0 + L), rng.randrange(9, 23), count, evs])
            budget -= 1
    cand = [(m, ch) for m in range(s0, s0 + L) for ch in range(2, 9)]
    chosen = rng.sample(cand, min(budget, len(cand)))
    zero_ln_ch = rng.randrange(2, 9) if rng.random() < 0.06 else None  # a column that holds only one zero-length long note

    def value():
        return rng.choice([1, rng.randrange(1, 1000), 32767, -1, -32768, -rng.randrange(1, 1000)])

    for ch in range(2, 9):
        if ch == zero_ln_ch:
            # head and tail on one position: two packages of the same measure and channel, the head's first
            m, slot_h, count_h = rng.randrange(s0, s0 + L), *rng.choice([(0, 1), (0, 4), (1, 2), (2, 4), (8, 16)])
            count_t = count_h * rng.choice([1, 2, 3])
            pk.append([m, ch, count_h, [[slot_h, [value(), rng.randrange(16), rng.randrange(16), 2]]]])
            pk.append([m, ch, count_t, [[slot_h * (count_t // count_h), [value(), rng.randrange(16), rng.randrange(16), 3]]]])
            continue
        ms = sorted(m for m, c in chosen if c == ch)
        pkgs, seq = [], []
        for m in ms:
            count = _rand_count(rng)
            if count >= 100:
                slots = sorted(rng.sample(range(count), rng.randint(0, 5)))
            elif count > 16:
                slots = sorted(rng.sample(range(count), rng.randint(0, 10)))
            else:
                slots = [sl for sl in range(count) if rng.random() < 0.6]
            p = [m, ch, count, []]
            pkgs.append(p)
            seq += [(p, sl) for sl in slots]
        open_head = False
        p_head = {"hits_only": 0.0, "holds_only": 1.0}.get(kind, rng.choice([0.2, 0.5, 0.8]))
        if kind == "holds_only" and len(seq) % 2:
            seq.pop()
        all_hits = kind != "holds_only" and rng.random() < 0.1
        for j, (p, sl) in enumerate(seq):
            if open_head:
                typ, open_head = 3, False
            elif not all_hits and j + 1 < len(seq) and rng.random() < p_head:
                typ, open_head = 2, True
            else:
                typ = 0
            p[3].append([sl, [value(), rng.randrange(16), rng.randrange(16), typ]])
        if (all_hits or kind == "hits_only") and pkgs and rng.random() < 0.5:
            # a hit-only column: a second package for a measure that has one already, hits on positions not yet taken
            p0 = rng.choice(pkgs)
            taken = {Fraction(sl, p0[2]) for sl, _ in p0[3]}
            count = rng.choice([c for c in (2, 3, 4, 6, 8, 16) if c != p0[2]])
            evs = [[sl, [value(), rng.randrange(16), rng.randrange(16), 0]] for sl in range(count) if rng.random() < 0.5 and Fraction(sl, count) not in taken]
            pkgs.insert(pkgs.index(p0) + rng.choice([0, 1]), [p0[0], ch, count, evs])
        pk += pkgs
    if not single and rng.random() < 0.25:
        # (17) a tempo event EXACTLY on the position of a note (often the first / the last note of the difficulty), in a package of its own
        notes = [(q[0], sl, q[2]) for q in pk if 2 <= q[1] <= 8 for sl, _ in q[3]]
        if notes:
            by_pos = sorted(notes, key=lambda x: Fraction(x[0]) + Fraction(x[1], x[2]))
            m, sl, count = rng.choice([by_pos[0], by_pos[0], by_pos[-1], rng.choice(by_pos)])
            if Fraction(m) + Fraction(sl, count) not in used_pos:
                used_pos.add(Fraction(m) + Fraction(sl, count))
                pk.append([m, 1, count, [[sl, _rand_bpm(rng)]]])
    if rng.random() < 0.1:
        pk.append([rng.randrange(0, s0 + L + 2), rng.choice([1, 2, 8, 15]), 0, []])  # a package with 0 slots
    order = rng.random()
    if order < 0.1:
        # channel-major: all packages of one channel, then the next channel (each channel in measure order)
        chans = sorted({p[1] for p in pk})
        rng.shuffle(chans)
        pk = [p for ch in chans for p in sorted((q for q in pk if q[1] == ch), key=lambda q: q[0])]
        return pk
    # file order: non-decreasing measure, channels of one measure in any order (packages of one (measure, channel) keep their order)
    keys = {}
    for p in pk:
        keys.setdefault((p[0], p[1]), rng.random())
    pk.sort(key=lambda p: (p[0], keys[(p[0], p[1])]))
    if order < 0.4:
        # the format does not order packages of different channels: put the tempo-channel packages anywhere in the
        # file (note packages stay in time order: long-note pairing needs that)
        tempo = [p for p in pk if p[1] == 1]
        rest = [p for p in pk if p[1] != 1]
        rng.shuffle(tempo)
        for p in tempo:
            rest.insert(rng.randrange(0, len(rest) + 1), p)
        pk = rest
    return pk


def _rand_spec(rng, max_pkgs=40):
    mode = rng.random()
    if mode < 0.35:
        singles = [True, True, True]
    elif mode < 0.5:
        singles = [rng.random() < 0.5 for _ in range(3)]
    else:
        singles = [False, False, False]
    if rng.random() < 0.3:
        # any of the three difficulties uncharted / without notes / without one kind of note
        kinds = [rng.choice(DIFF_KINDS) for _ in range(3)]
        if rng.random() < 0.5:
            kinds[rng.randrange(3)] = "empty"
    else:
        kinds = ["full"] * 3
    spec = dict(header=_rand_header(rng), diffs=[_rand_diff(rng, s, max_pkgs, k) for s, k in zip(singles, kinds)])
    via = rng.choice(VIAS)
    if via != "read":
        spec["via"] = via
    return spec


# ----------------------------------------------------------------------------------------------- comparison

def _close(got, want):
    want = float(want)
    return abs(got - want) <= 1e-3 + 1e-9 * abs(want)


def _maxerr(bad):
    return f"{max(abs(b[1] - b[2]) for b in bad):.6g}"


def _compare(ms, den, failed):
    h = den["header"]
    # header
    for key, attr in TEXT_FIELDS:
        want = _text(h[key])
        if want is not None and getattr(ms, attr) != want:
            failed.append(("header_text", f"{key}: got {getattr(ms, attr)!r} want {want!r}"))
    if not ms.bpm == h["bpm"]:
        failed.append(("header_bpm", f"got {ms.bpm!r} want {h['bpm']!r}"))
    if list(ms.level) != h["level"]:
        failed.append(("header_level", f"got {ms.level!r} want {h['level']!r}"))
    for key in ("event_count", "note_count", "measure_count", "package_count"):
        if list(getattr(ms, key)) != h[key]:
            failed.append(("header_counts", f"{key}: got {getattr(ms, key)!r} want {h[key]!r}"))
    for key, attr in [("songid", "song_id"), ("genre", "genre"), ("encode_version", "encode_version"), ("old_encode_version", "old_encode_version"),
                      ("old_songid", "old_song_id"), ("old_genre", "old_genre"), ("bmp_size", "bmp_size"), ("old_file_version", "old_file_version"),
                      ("cover_size", "cover_size"), ("time", "duration"), ("note_offset", "note_offset"), ("cover_offset", "cover_offset")]:
        got = getattr(ms, attr)
        got = list(got) if isinstance(h[key], list) else got
        if not got == h[key]:
            failed.append(("header_other", f"{key}: got {got!r} want {h[key]!r}"))
    # maps
    maps = list(ms.maps)
    if len(maps) != 3:
        failed.append(("three_maps", f"{len(maps)} maps"))
        return
    for d, (m, w) in enumerate(zip(maps, den["maps"])):
        cls = w["cls"]
        # hits
        g_off, g_col = [float(x) for x in m.hits.offset], [float(x) for x in m.hits.column]
        got_hits = {c: sorted(o for o, cc in zip(g_off, g_col) if cc == c) for c in set(g_col) | set(range(7))}
        want_hits = {c: sorted(t for cc, t in w["hits"] if cc == c) for c in range(7)}
        cnt_g = {c: len(v) for c, v in got_hits.items() if v}
        cnt_w = {c: len(v) for c, v in want_hits.items() if v}
        if cnt_g != cnt_w:
            failed.append(("hit_column_count", f"difficulty {d}: hits per column got {cnt_g} want {cnt_w}"))
        else:
            bad = [(c, g, float(t)) for c in range(7) for g, t in zip(got_hits[c], want_hits[c]) if not _close(g, t)]
            if bad:
                c, g, t = bad[0]
                failed.append((f"note_time_{cls}", f"difficulty {d}: {len(bad)} of {len(g_off)} hits misplaced (max error {_maxerr(bad)} ms); first: column {c} got {g!r} ms want {t!r} ms"))
        # holds
        h_off, h_col, h_len = [float(x) for x in m.holds.offset], [float(x) for x in m.holds.column], [float(x) for x in m.holds.length]
        got_holds = {c: sorted((o, o + l) for o, cc, l in zip(h_off, h_col, h_len) if cc == c) for c in set(h_col) | set(range(7))}
        want_holds = {c: sorted((t, t + l) for cc, t, l in w["holds"] if cc == c) for c in range(7)}
        cnt_g = {c: len(v) for c, v in got_holds.items() if v}
        cnt_w = {c: len(v) for c, v in want_holds.items() if v}
        if cnt_g != cnt_w:
            failed.append(("hold_column_count", f"difficulty {d}: long notes per column got {cnt_g} want {cnt_w}"))
        else:
            pairs = [(c, g, t) for c in range(7) for g, t in zip(got_holds[c], want_holds[c])]
            bad = [(c, g[0], float(t[0])) for c, g, t in pairs if not _close(g[0], t[0])]
            if bad:
                c, g, t = bad[0]
                failed.append((f"note_time_{cls}", f"difficulty {d}: {len(bad)} of {len(pairs)} long-note heads misplaced (max error {_maxerr(bad)} ms); first: column {c} got {g!r} ms want {t!r} ms"))
            bad = [(c, g[1], float(t[1]), float(t[0])) for c, g, t in pairs if not _close(g[1], t[1])]
            if bad:
                c, g, t, t0 = bad[0]
                failed.append((f"hold_end_{cls}", f"difficulty {d}: {len(bad)} of {len(pairs)} long-note ends misplaced (max error {_maxerr(bad)} ms); first: column {c} (head want {t0!r} ms) end got {g!r} ms want {t!r} ms"))
        # tempo points
        got_t = [(float(o), float(b)) for o, b in zip(m.bpms.offset, m.bpms.bpm)]
        want_t = [(t, v) for t, v in w["tempo"]]
        with_init = [(Fraction(0), h["bpm"])] + want_t
        if sorted(b for _, b in got_t) == sorted(v for _, v in with_init):
            want_t = with_init
        elif not (w["tempo_at_zero"] and sorted(b for _, b in got_t) == sorted(v for _, v in want_t)):
            failed.append(("tempo_point_bpm", f"difficulty {d}: tempo values got {[b for _, b in got_t]} want header {h['bpm']} then {[v for _, v in w['tempo']]}"))
            continue
        bad = []
        for v in sorted(set(b for _, b in got_t)):
            gs, ws = sorted(o for o, b in got_t if b == v), sorted(t for t, b in want_t if b == v)
            bad += [(v, g, float(t)) for g, t in zip(gs, ws) if not _close(g, t)]
        if bad:
            v, g, t = bad[0]
            failed.append(("tempo_point_time", f"difficulty {d} ({cls}): {len(bad)} of {len(want_t)} tempo points misplaced (max error {_maxerr(bad)} ms); first: bpm {v} got {g!r} ms want {t!r} ms"))


def _read_via(b, via="read", path=None):
    """the observable entry points: read(bytes) through the class or an instance, read_file(str | Path)."""
    from reamber.o2jam.O2JMapSet import O2JMapSet

    if path is not None:
        return O2JMapSet.read_file(path)
    if via == "read":
        return O2JMapSet.read(b)
    if via == "instance_read":
        return O2JMapSet().read(b)
    assert via in ("read_file_str", "read_file_path"), via
    fd, tmp = tempfile.mkstemp(suffix=".ojn", prefix="c07_")
    try:
        with os.fdopen(fd, "wb") as f:
            f.write(b)
        if via == "read_file_str":
            return O2JMapSet.read_file(tmp)
        import pathlib

        return O2JMapSet.read_file(pathlib.Path(tmp))
    finally:
        os.unlink(tmp)


def _run_bytes(b, path=None, via="read"):
    """-> (failed [(what, detail)], den) ; den is None when the file is outside the property's domain."""

    den = den_ojn(b)
    flags = sorted({f for m in den["maps"] for f in m["flags"]})
    if flags:
        return [], None, flags
    failed = []
    multi = any(m["cls"] == "multi_tempo" for m in den["maps"])
    try:
        with warnings.catch_warnings():
            warnings.simplefilter("ignore")
            ms = _read_via(b, via, path)
    except Exception as ex:
        tb = traceback.extract_tb(ex.__traceback__)[-1]
        failed.append((f"read_raises_{'multi_tempo' if multi else 'single_tempo'}",
                       f"{type(ex).__name__}: {ex} at {tb.filename.split('/')[-1]}:{tb.lineno} `{tb.line}`; tempo events per difficulty {[m['tempo_events'] for m in den['maps']]}"))
        return failed, den, flags
    with warnings.catch_warnings():
        warnings.simplefilter("ignore")
        _compare(ms, den, failed)
    return failed, den, flags


def _run_case(case):
    if "file" in case:
        with open(case["file"], "rb") as f:
            b = f.read()
        return _run_bytes(b, path=case["file"])
    b = build_ojn(case)
    _selfcheck(case, b)
    return _run_bytes(b, via=case.get("via", "read"))


def _stats(rep, den, acc):
    for m in den["maps"]:
        acc[m["cls"]] = acc.get(m["cls"], 0) + 1
        acc["hits"] = acc.get("hits", 0) + len(m["hits"])
        acc["holds"] = acc.get("holds", 0) + len(m["holds"])
        acc["holds_across_measures"] = acc.get("holds_across_measures", 0) + m["holds_across_measures"]
        acc["tempo_events"] = acc.get("tempo_events", 0) + m["tempo_events"]
        acc["tempo_events_after_last_note"] = acc.get("tempo_events_after_last_note", 0) + m["tempo_after_last_note"]
        if not m["hits"] and not m["holds"]:
            acc["difficulties_without_notes"] = acc.get("difficulties_without_notes", 0) + 1
        elif not m["hits"] or not m["holds"]:
            acc["difficulties_with_one_kind_of_note"] = acc.get("difficulties_with_one_kind_of_note", 0) + 1
        acc["zero_length_long_notes"] = acc.get("zero_length_long_notes", 0) + sum(1 for _, _, ln in m["holds"] if ln == 0)
    if all(m["cls"] == "single_tempo" for m in den["maps"]):
        acc["files_all_single_tempo"] = acc.get("files_all_single_tempo", 0) + 1
    pc = den["header"]["package_count"]
    if 0 in pc:
        acc["files_with_a_0_package_difficulty"] = acc.get("files_with_a_0_package_difficulty", 0) + 1
        if pc[1] == 0 and pc[0] and pc[2]:
            acc["files_with_only_the_middle_difficulty_empty"] = acc.get("files_with_only_the_middle_difficulty_empty", 0) + 1


def _drive(rep, cases, quick_s, thorough_s):
    acc = {}
    for case in cases:
        if rep.out_of_time(quick_s, thorough_s):
            acc["stopped_on_time_budget"] = True
            break
        failed, den, flags = _run_case(case)
        if den is None:
            acc["outside_domain"] = acc.get("outside_domain", 0) + 1
            acc.setdefault("outside_domain_flags", []).append(flags)
            continue
        n_notes = sum(len(m["hits"]) + len(m["holds"]) for m in den["maps"])
        rep.case(case, nontrivial=n_notes >= 2)
        _stats(rep, den, acc)
        if "file" not in case:
            acc["entry_" + case.get("via", "read")] = acc.get("entry_" + case.get("via", "read"), 0) + 1
            if case["header"].get("all_distinct"):
                acc["headers_with_every_field_different"] = acc.get("headers_with_every_field_different", 0) + 1
            if case["header"].get("full_range") or any(case["header"].get(k, 0) < 0 for k in ("songid", "genre", "old_songid", "old_encode_version", "bmp_size")):
                acc["headers_over_the_full_value_range"] = acc.get("headers_over_the_full_value_range", 0) + 1
        seen = set()
        for what, d in failed:
            if what not in seen:  # one record per clause and case
                seen.add(what)
                rep.fail(what, case, d)
    rep.extra.update(acc)


# ----------------------------------------------------------------------------------------------- the checks

TAIL_POS = (Fraction(1, 2), Fraction(7, 3), Fraction(9, 2))


def _small_specs():
    """Every file of a small family, simplest first (so the recorded witnesses are minimal).  T = tempo events on a
    subset (size <= 2) of positions {0, 1, 3/2, 4} with values 60 / 240 in both assignments (21 sets), the same in all
    three difficulties; header tempo 120.
    part 1: T x one hit at p in {0, 1/2, 2, 5}; the hit is on column 0 / 3 / 6 in difficulty 0 / 1 / 2.
    part 2: T x that hit x one long note (column 6 / 5 / 4) head in {0, 1, 3} -> tail in {1/2, 7/3, 9/2}; difficulties
            1 and 2 carry the hit one resp. two measures later.
    part 3: difficulties that are not charted: every assignment of {charted, no package at all} to the three difficulties
            except all-charted [7] x 3 tempo sets (none / one event at 1 / events at 0 and 3/2), the charted ones holding
            a hit and a long note; then one difficulty with tempo packages only (each of the three) x the 2 non-empty
            tempo sets, the other two charted [6].
    part 4: the numeric header fields over their declared range: 5 value sets (top bit set / extremes of int32, int16,
            float32 / byte-boundary values / all zero) x 2 tempo sets, all three difficulties charted [10]."""
    tpos = [Fraction(0), Fraction(1), Fraction(3, 2), Fraction(4)]
    tempo_sets = [()]
    for p in tpos:
        tempo_sets += [((p, 60.0),), ((p, 240.0),)]
    for p, q in itertools.combinations(tpos, 2):
        tempo_sets += [((p, 60.0), (q, 240.0)), ((p, 240.0), (q, 60.0))]
    hit_pos = (Fraction(0), Fraction(1, 2), Fraction(2), Fraction(5))
    holds = [(Fraction(a), b) for a in (0, 1, 3) for b in TAIL_POS if b > a]
    hit, head, tail = [1, 0, 0, 0], [1, 0, 0, 2], [1, 0, 0, 3]
    for ts in tempo_sets:
        for p in hit_pos:
            diffs = [sorted(_pos_pkgs(1, list(ts)) + _pos_pkgs(ch, [(p, hit)]), key=lambda x: x[0]) for ch in (2, 5, 8)]
            yield dict(header=PLAIN_HEADER, diffs=diffs)
    for ts in tempo_sets:
        for p in hit_pos:
            for a, b in holds:
                diffs = []
                for d in range(3):
                    pk = _pos_pkgs(1, list(ts)) + _pos_pkgs(2 + d, [(p + d, hit)]) + _pos_pkgs(8 - d, [(a, head), (b, tail)])
                    diffs.append(sorted(pk, key=lambda x: x[0]))
                yield dict(header=PLAIN_HEADER, diffs=diffs)
    few = [(), ((Fraction(1), 60.0),), ((Fraction(0), 240.0), (Fraction(3, 2), 60.0))]

    def charted(d, ts, notes=True):
        pk = _pos_pkgs(1, list(ts))
        if notes:
            pk += _pos_pkgs(2 + d, [(Fraction(1, 2) + d, hit)]) + _pos_pkgs(8 - d, [(Fraction(1), head), (Fraction(7, 3), tail)])
        return sorted(pk, key=lambda x: x[0])

    for pattern in itertools.product((True, False), repeat=3):
        if all(pattern):
            continue
        for ts in few:
            yield dict(header=PLAIN_HEADER, diffs=[charted(d, ts) if pattern[d] else [] for d in range(3)])
    for only_tempo in range(3):
        for ts in few[1:]:
            yield dict(header=PLAIN_HEADER, diffs=[charted(d, ts, notes=d != only_tempo) for d in range(3)])
    # part 4: the value range of the numeric header fields (signed little-endian int32 / int16, float32 as laid out)
    for hd in HEADER_RANGE_SETS:
        for ts in few[:2]:
            yield dict(header=dict(PLAIN_HEADER, **hd), diffs=[charted(d, ts) for d in range(3)])


@bounded("C07", note="every file of a small family (<= 2 tempo events, one hit, at most one long note per difficulty; any of the difficulties without packages / with tempo packages only) against the exact OJN interpreter; gives minimal witnesses")
def ojn_small_files_vs_interpreter(rep):
    specs = list(_small_specs())
    rep.bound = (f"all {len(specs)} files: tempo events (same in the 3 difficulties) on a subset (size <= 2) of positions {{0, 1, 3/2, 4}} with values 60/240 "
                 "(both assignments; 21 sets incl. none) x one hit at {0, 1/2, 2, 5} on a different column per difficulty [84 files], then additionally x one long "
                 "note head {0,1,3} -> tail {1/2, 7/3, 9/2} with the hit shifted by one measure per difficulty [504 files]; then every assignment of {charted, 0 packages} to "
                 "the three difficulties except all-charted x 3 tempo sets [21 files] and one difficulty with tempo packages only x 2 tempo sets [6 files]; header tempo 120; "
                 "then the numeric header fields (song id, genre, levels, counters, old_* fields, bitmap size, durations, encode version) over their declared range: 5 value sets "
                 "(top bit set i.e. negative / extremes of int32, int16, float32 / byte-boundary values / all zero) x 2 tempo sets [10 files]")
    rep.rule = "a case is one OJN byte string (header + 3 difficulties); non-trivial when it holds at least 2 notes (every case of the first 588 and the last 10 holds >= 3; the file with three empty difficulties holds none)"
    rep.exhaustive = True
    _drive(rep, specs, 40, 300)
    if rep.extra.get("stopped_on_time_budget"):
        rep.exhaustive = False


@bounded("C07", note="random well-formed OJN files (0-40 packages per difficulty, difficulties without packages / notes / one kind of note, slot counts from a pool and random 1-400, 0-6 tempo events anywhere, 7 columns, long notes across packages/measures, ignored autoplay channels, cover blob, all four entry points) against the exact OJN interpreter")
def ojn_random_files_vs_interpreter(rep):
    rng = rep.rng
    N = rep.n(200, 3000)
    rep.bound = (f"{N} seeded random files: per difficulty 1-40 packages (0 for an uncharted difficulty, see below), note packages in non-decreasing measure order, tempo-channel packages anywhere in the file in 30% of the difficulties, "
                 "channel-major file order in 10%; slot counts from {1,2,3,4,8,16,192} (70%), {5,6,7,12,24,32,48,64,96,384} (20%) or random 1-400 (10%), rarely (0.5% of the packages) 1000 / 4096 / 32767 slots (the int16 maximum), a 0-slot package in 10%; "
                 "0-6 tempo events (a quarter of them after the last note measure) with values from a pool incl. 0.75 and 1000 or a random "
                 "float32 in [30,480], in 15% of the multi-tempo difficulties a second tempo package for an already used measure; notes start at measure 0/1/2/5 (rarely 100/999; 3% of the difficulties 32767 / 65536 / 1000000) and span 1-12 "
                 "measures, hits / head-tail pairs on columns 0-6, 6%: a column with one zero-length long note (head and tail package on one position), hit-only columns with a second "
                 "package for a used measure, channels 9-22 sometimes present; in 30% of the files each difficulty is one of {0 packages, tempo packages only, packages without events, "
                 "hits only, long notes only, full} (half of those files with at least one 0-package difficulty); random header fields, NUL-padded ASCII texts of length 0..field size "
                 "(20%: raw cp949 / Shift-JIS / Latin-1 / bytes after the NUL), header event / note / measure counters derived or (25%) arbitrary, 0/5/64 cover bytes, 15% a bitmap blob "
                 "after the cover; in 35% of the files the numeric header fields (song id, genre, levels, old_* fields, bitmap size, durations, counters, encode version, old_genre bytes) are drawn "
                 "over the full range of their declared type (signed int32 / int16 with the top bit set, the extremes, byte-boundary values, 0; float32 incl. negative, tiny, the largest); "
                 "35% of the files have at most one tempo event (at measure 0) in every difficulty; entry point read(bytes) 4/7, read_file(str), "
                 "read_file(Path), read on an instance 1/7 each; (14) in a fifth of the files EVERY header field is non-zero / non-empty and different from every other field of the file (26 different numbers incl. the per-difficulty "
                 "levels, durations and counters, 4 different texts, 20 different old_genre bytes, a cover); (17) in a quarter of the multi-tempo difficulties a tempo event sits exactly on the position of a note (half of them: the first note, a quarter: the last)")
    rep.rule = "a case is one OJN byte string and the entry point it is read through; non-trivial when it holds at least 2 notes"

    def gen():
        for _ in range(N):
            yield _rand_spec(rng)

    _drive(rep, gen(), 40, 420)


@bounded("C07", note="the two bundled .ojn files read with read_file against the exact OJN interpreter")
def ojn_bundled_files_vs_interpreter(rep):
    rep.bound = "the 2 bundled files /repo/rsc/maps/o2jam/o2ma178.ojn and o2ma120.ojn (3 difficulties each)"
    rep.rule = "a case is one bundled file; both hold hundreds of notes (o2ma178: 22-24 tempo-channel events per difficulty, o2ma120: none)"
    rep.exhaustive = True
    _drive(rep, [dict(file=p) for p in FIXTURES], 50, 300)


# ---- two reads in one process

def _snapshot(ms):
    """everything the reader returned, as plain values"""
    out = [repr({k: v for k, v in sorted(vars(ms).items()) if k != "maps"})]
    for m in ms.maps:
        for lst in (m.hits, m.holds, m.bpms):
            df = lst.df
            out.append((list(df.columns), repr(df.to_numpy().tolist()), repr(df.index.tolist())))
    return out


def _mutate_result(ms):
    """legitimate edits of a map set that was read: in place through the list properties / the stack, the header lists in
    place, attributes assigned.  What they do to `ms` is other properties' business; a LATER read must not see them."""
    try:
        for m in ms.maps:
            if len(m.hits):
                m.hits.offset += 1000.5
                m.hits.column = 6 - m.hits.column
            if len(m.holds):
                m.holds.length *= 2
            if len(m.bpms):
                m.bpms.bpm *= 2
                m.bpms.offset += 3
            if len(m.hits) or len(m.holds):
                m.stack().offset -= 7
        for name in ("level", "event_count", "note_count", "measure_count", "package_count", "duration", "note_offset"):
            lst = getattr(ms, name, None)
            if isinstance(lst, list) and lst:
                lst[0] = 12345
                lst.append(-1)
        ms.title, ms.artist, ms.bpm, ms.song_id = "changed", "changed", 1.0, -5
        ms.maps.reverse()
        ms.maps.pop()
    except Exception:  # noqa
        pass


def _read_same_path(path, b):
    """FILE-SYSTEM STATE: the bytes are written over whatever the path holds already (a longer / shorter other file), then read_file"""
    from reamber.o2jam.O2JMapSet import O2JMapSet

    with open(path, "wb") as f:
        f.write(b)
    return O2JMapSet.read_file(path)


def _run_pair(case):
    """case = {first: spec, second: spec}: read first, read second, look at the first result again, read first again.
    case["same_path"]: both files are read through read_file from ONE path, each written over the other.
    case["mutate_first"]: the first result is edited (after it was compared) before the first bytes are read again."""
    if case.get("same_path"):
        fd, tmp = tempfile.mkstemp(suffix=".ojn", prefix="c07_same_")
        os.close(fd)
        try:
            return _run_pair_inner(case, tmp)
        finally:
            os.unlink(tmp)
    return _run_pair_inner(case, None)


def _run_pair_inner(case, path):
    b1, b2 = build_ojn(case["first"]), build_ojn(case["second"])
    _selfcheck(case["first"], b1), _selfcheck(case["second"], b2)
    den1, den2 = den_ojn(b1), den_ojn(b2)
    if any(m["flags"] for m in den1["maps"] + den2["maps"]):
        return [], None, ["outside domain"]
    failed = []
    with warnings.catch_warnings():
        warnings.simplefilter("ignore")
        try:
            rd = (lambda b, spec: _read_same_path(path, b)) if path else (lambda b, spec: _read_via(b, spec.get("via", "read")))
            ms1 = rd(b1, case["first"])
            snap1 = _snapshot(ms1)
            if not path and case["second"].get("via") == "instance_read":
                ms2 = ms1.read(b2)  # read called on the map set that the first read returned (an instance used before)
            else:
                ms2 = rd(b2, case["second"])
            if case.get("mutate_first"):
                now0 = _snapshot(ms1)
                _mutate_result(ms1)
            ms1_again = rd(b1, case["first"])
        except Exception as ex:
            multi = any(m["cls"] == "multi_tempo" for m in den1["maps"] + den2["maps"])
            return [(f"read_raises_{'multi_tempo' if multi else 'single_tempo'}", f"{type(ex).__name__}: {ex}")], den2, []
        now = now0 if case.get("mutate_first") else _snapshot(ms1)
        if now != snap1:
            k = next((i for i, (x, y) in enumerate(zip(snap1, now)) if x != y), min(len(snap1), len(now)))
            failed.append(("earlier_result_changed_by_later_read", f"part {k} of the first result (0 = header fields, then hits / holds / tempo points per difficulty) differs after reading the second file; {len(snap1)} parts before, {len(now)} after"))
        again = _snapshot(ms1_again)
        if again != snap1:
            k = next((i for i, (x, y) in enumerate(zip(snap1, again)) if x != y), min(len(snap1), len(again)))
            failed.append(("same_bytes_read_differently_again", f"part {k} (0 = header fields, then hits / holds / tempo points per difficulty) differs between the first and the second read of the same bytes"))
        _compare(ms2, den2, failed)
    return failed, den2, []


@bounded("C07", note="two different OJN files read one after the other in one process: the first result is not touched by the second read, the second result matches the interpreter, re-reading the first bytes gives the first result")
def ojn_reads_do_not_interfere(rep):
    rng = rep.rng
    N = rep.n(40, 600)
    rep.bound = (f"{N} seeded pairs of random files (<= 12 packages per difficulty, otherwise as in ojn_random_files_vs_interpreter incl. difficulties without packages and all entry points); "
                 "per pair: read A, read B, compare A's map set with its state before B was read, compare B with the interpreter, read A again; "
                 "30% of the pairs through read_file from ONE path (A written, read; B written over it - longer or shorter -, read; A written over it, read), "
                 "B read through A's map set (`a.read(bytes_of_B)`) when B's entry point is read-on-an-instance; 30% edit A's map set (offsets / columns / lengths / tempo in place through the list properties and the stack, header lists in place, attributes, maps list) before A is read again")
    rep.rule = "a case is a pair of OJN byte strings; non-trivial when the second holds at least 2 notes"
    acc = {}
    for _ in range(N):
        if rep.out_of_time(25, 300):
            acc["stopped_on_time_budget"] = True
            break
        case = dict(first=_rand_spec(rng, 12), second=_rand_spec(rng, 12))
        x = rng.random()
        if x < 0.3:
            case["same_path"] = True
        if rng.random() < 0.3:
            case["mutate_first"] = True
        for k in ("same_path", "mutate_first"):
            if case.get(k):
                acc[k] = acc.get(k, 0) + 1
        failed, den, flags = _run_pair(case)
        if den is None:
            acc["outside_domain"] = acc.get("outside_domain", 0) + 1
            continue
        rep.case(case, nontrivial=sum(len(m["hits"]) + len(m["holds"]) for m in den["maps"]) >= 2)
        seen = set()
        for what, d in failed:
            if what not in seen:
                seen.add(what)
                rep.fail(what, case, d)
    rep.extra.update(acc)


@replayer("ojn_reads_do_not_interfere")
def _replay_pair(case, what):
    failed, den, flags = _run_pair(case)
    hit = [d for w, d in failed if w == what]
    return (bool(hit), hit[0] if hit else "passes")


def _replay(case, what):
    failed, den, flags = _run_case(case)
    if den is None:
        return (False, f"file outside the property's domain: {flags}")
    hit = [d for w, d in failed if w == what]
    return (bool(hit), hit[0] if hit else "passes")


for _name in ("ojn_small_files_vs_interpreter", "ojn_random_files_vs_interpreter", "ojn_bundled_files_vs_interpreter"):
    replayer(_name)(_replay)
