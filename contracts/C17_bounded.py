"""C17 bounded stand-in: the real `full_ln` on small charts of every game against an oracle written from the
property statement (one note per input note; per column every note but the last becomes a hold ending `gap`
before the next note when that leaves at least the threshold, else a hit; the last keeps kind and length)."""
from __future__ import annotations

from collections import Counter
from fractions import Fraction

from pyvc.dsl import bounded
from pyvc.bounded import replayer

# times are dyadic rationals, so every float difference below is exact and Fraction(float) is the written value
GRID_A = [0.0, 100.0, 250.0, 300.0]          # differences 50, 100, 150, 200, 250, 300: every gap+threshold sum is met exactly
GRID_B = [-50.0, 0.0, 100.5, 300.25]         # negative and fractional times
SETTINGS = [0, 50, 100, 150]
HOLD_LENGTHS = [30.0, 120.0, 400.0]          # shorter than any step, in between, reaching over later notes
GAMES = ["osu", "sm", "bms", "o2j", "base", "qua"]


def _game(game):
    if game == "osu":
        from reamber.osu import OsuMap as M
        return M, {}
    if game == "sm":
        from reamber.sm import SMMap as M
        return M, {}
    if game == "qua":
        from reamber.quaver import QuaMap as M
        return M, {"keysounds": []}
    if game == "bms":
        from reamber.bms import BMSMap as M
        return M, {}
    if game == "o2j":
        from reamber.o2jam import O2JMap as M
        return M, {}
    from reamber.base.Map import Map as M
    return M, {}


def _build(case):
    """Chart of the case: hits / holds in the written list order, two tempo points, and rows in every other list
    the game has (SVs, stops; with `extras` also SM mines / rolls / lifts / fakes)."""
    M, kw = _game(case["game"])
    m = M()
    H, L, B = type(m.hits)._item_class(), type(m.holds)._item_class(), type(m.bpms)._item_class()
    m.hits = type(m.hits)([H(offset=t, column=c, **kw) for t, c in case["hits"]])
    m.holds = type(m.holds)([L(offset=t, column=c, length=ln, **kw) for t, c, ln in case["holds"]])
    m.bpms = type(m.bpms)([B(offset=-50.0, bpm=120.0), B(offset=250.0, bpm=177.5)])
    if hasattr(m, "svs"):
        S = type(m.svs)._item_class()
        m.svs = type(m.svs)([S(offset=100.0, multiplier=0.5), S(offset=100.0, multiplier=2.0)])
    if case["game"] == "sm":
        from reamber.sm import SMStop, SMMine, SMRoll, SMLift, SMFake
        from reamber.sm.lists import SMStopList
        from reamber.sm.lists.notes import SMMineList, SMRollList, SMLiftList, SMFakeList

        m.stops = SMStopList([SMStop(offset=100.0, length=25.0)])
        ex = case.get("extras") or {}
        if ex.get("mines"):
            m.mines = SMMineList([SMMine(offset=t, column=c) for t, c in ex["mines"]])
        if ex.get("rolls"):
            m.rolls = SMRollList([SMRoll(offset=t, column=c, length=ln) for t, c, ln in ex["rolls"]])
        if ex.get("lifts"):
            m.lifts = SMLiftList([SMLift(offset=t, column=c) for t, c in ex["lifts"]])
        if ex.get("fakes"):
            m.fakes = SMFakeList([SMFake(offset=t, column=c) for t, c in ex["fakes"]])
    if case["game"] == "osu":
        from reamber.osu.OsuSample import OsuSample
        from reamber.osu.lists.OsuSampleList import OsuSampleList

        m.samples = OsuSampleList([OsuSample(offset=100.0, sample_file="a.wav", volume=30)])
    return m


def _F(x):
    return Fraction(float(x))


def _notes_of(m):
    """Multiset of (time, column, length | None) over the chart's hits and holds."""
    out = []
    for t, c in zip(m.hits.offset.tolist(), m.hits.column.tolist()):
        out.append((_F(t), int(c), None))
    for t, c, ln in zip(m.holds.offset.tolist(), m.holds.column.tolist(), m.holds.length.tolist()):
        out.append((_F(t), int(c), _F(ln)))
    return out


def _snapshot_others(m):
    snap = {}
    for k, v in m.objs.items():
        if k in ("hits", "holds"):
            continue
        snap[k] = (type(v), list(v.df.columns), repr(v.df.to_numpy().tolist()))
    if hasattr(getattr(m, "samples", None), "df"):
        v = m.samples
        snap["samples"] = (type(v), list(v.df.columns), repr(v.df.to_numpy().tolist()))
    return snap


def _rule(d, gap, thres):
    """Statement: a hold ending exactly `gap` before the next note when that leaves at least the threshold, else a hit."""
    inv = d - gap
    return inv if inv >= thres else None


def _accepted(col_notes, gap, thres):
    """All accepted output multisets of one column.  col_notes: [(t, len|None)].  Notes stacked at one time may be
    processed in either order: all but one of them see the next note at distance 0; the one processed last sees the
    next later time - or, at the column's last time, is the column's last note and keeps its kind and length."""
    times = sorted({t for t, _ in col_notes})
    fixed = Counter()
    for j, t in enumerate(times):
        grp = [ln for tt, ln in col_notes if tt == t]
        for _ in range(len(grp) - 1):
            fixed[(t, _rule(Fraction(0), gap, thres))] += 1
        if j + 1 < len(times):
            fixed[(t, _rule(times[j + 1] - t, gap, thres))] += 1
    last_t = times[-1]
    alts = []
    for ln in {ln for tt, ln in col_notes if tt == last_t}:
        c = Counter(fixed)
        c[(last_t, ln)] += 1
        alts.append(c)
    return alts


def _run_case(case):
    from reamber.algorithms.generate import full_ln

    failed = []
    gap, thres = Fraction(case["gap"]), Fraction(case["thres"])
    m = _build(case)
    before_notes = _notes_of(m)
    before_others = _snapshot_others(m)
    try:
        r = full_ln(m, case["gap"], case["thres"])
    except Exception as ex:
        return [("completes_for_every_game", f"full_ln raised {type(ex).__name__}: {ex}")]

    # result list classes = the input's classes
    if type(r) is not type(m) or type(r.hits) is not type(m.hits) or type(r.holds) is not type(m.holds):
        failed.append(("result_keeps_list_classes", f"{type(r).__name__}/{type(r.hits).__name__}/{type(r.holds).__name__} from {type(m).__name__}/{type(m.hits).__name__}/{type(m.holds).__name__}"))

    # tempo and other lists unchanged
    after_others = _snapshot_others(r)
    for k, v in before_others.items():
        if after_others.get(k) != v:
            failed.append(("tempo_and_other_lists_unchanged", f"list {k}: {v[2]} -> {after_others.get(k, (None, None, None))[2]}"))
            break

    got = _notes_of(r)
    pos_in, pos_out = Counter((t, c) for t, c, _ in before_notes), Counter((t, c) for t, c, _ in got)
    if pos_in != pos_out:
        extra, missing = pos_out - pos_in, pos_in - pos_out
        what = "other_note_lists_stay_out_of_result" if case.get("extras") else "one_note_per_input_note"
        failed.append((what, f"extra (time, column): {[(float(t), c) for t, c in extra.elements()]}, missing: {[(float(t), c) for t, c in missing.elements()]}"))
        return failed

    for c in sorted({c for _, c, _ in before_notes}):
        col_in = [(t, ln) for t, cc, ln in before_notes if cc == c]
        col_out = Counter((t, ln) for t, cc, ln in got if cc == c)
        alts = _accepted(col_in, gap, thres)
        if col_out not in alts:
            show = lambda cn: sorted(((float(t), None if ln is None else float(ln)) for t, ln in cn.elements()), key=repr)
            # split the verdict: is it the last note of the column or a generated one that is off?
            last_t = max(t for t, _ in col_in)
            kept = {ln for tt, ln in col_in if tt == last_t}
            body_ok = any(not ((a - Counter({(last_t, ln): 1})) - col_out) for a in alts for ln in kept if a[(last_t, ln)] > 0)
            what = "last_note_keeps_kind_and_length" if body_ok else "hold_ends_gap_before_next_or_hit"
            if case.get("extras"):
                what = "other_note_lists_stay_out_of_result"
            failed.append((what, f"column {c}: got {show(col_out)}, accepted {[show(a) for a in alts]}"))
            break

    # no generated hold reaches the next note of its column (every hold that has a later note in its column is generated)
    for t, c, ln in got:
        if ln is None:
            continue
        later = [tt for tt, cc, _ in got if cc == c and tt > t]
        if later:
            nxt = min(later)
            if t + ln > nxt or (gap > 0 and t + ln >= nxt):
                what = "other_note_lists_stay_out_of_result" if case.get("extras") else "hold_stops_before_next_note"
                failed.append((what, f"hold at {float(t)} column {c} length {float(ln)} vs next note at {float(nxt)}, gap {case['gap']}"))
                break
    return failed


def _random_case(rng, game, n_notes):
    grid = GRID_A if rng.random() < 0.7 else GRID_B
    cols = rng.choice([[0, 1, 2], [0, 1, 2], [0, 1], [0]])           # fewer columns -> longer columns / stacks; unused ones are empty
    hits, holds = [], []
    for _ in range(n_notes):
        t, c = rng.choice(grid), rng.choice(cols)
        if (hits or holds) and rng.random() < 0.15:                    # stack on an existing note
            t, c = rng.choice([(x[0], x[1]) for x in hits + holds])
        if rng.random() < 0.5:
            hits.append([t, c])
        else:
            holds.append([t, c, rng.choice(HOLD_LENGTHS)])
    rng.shuffle(hits)
    rng.shuffle(holds)
    case = dict(game=game, hits=hits, holds=holds, gap=rng.choice(SETTINGS), thres=rng.choice(SETTINGS))
    if game == "sm" and rng.random() < 0.12:
        ex = {}
        kind = rng.choice(["mines", "rolls", "lifts", "fakes"])
        if kind == "rolls":
            ex[kind] = [[rng.choice(grid), rng.choice(cols), 30.0]]
        else:
            ex[kind] = [[rng.choice(grid), rng.choice(cols)]]
        case["extras"] = ex
    return case


def _features(case):
    notes = [(t, c) for t, c in case["hits"]] + [(t, c) for t, c, _ in case["holds"]]
    per_col = Counter(c for _, c in notes)
    f = set()
    if len({t for t, _ in notes}) < len(notes) and len(set(notes)) == len(notes) and len(notes) > 1:
        f.add("chord")
    if len(set(notes)) < len(notes):
        f.add("stacked")
    if 1 in per_col.values():
        f.add("single_note_column")
    if len(per_col) < 3:
        f.add("empty_column")
    if case["hits"] and case["holds"]:
        f.add("mixed")
    return f


@bounded("C17", note="real full_ln on charts of six map classes (<= 6 notes, 4-point time grids x 3 columns x hit/hold, stacks, chords, empty columns) x gap/threshold in {0,50,100,150} against the statement's rule, exact rationals")
def full_ln_vs_statement(rep):
    rng = rep.rng
    N = rep.n(2400, 60000)
    rep.bound = (f"up to {N} seeded charts: 0..6 notes on a 4-point time grid ({GRID_A} or {GRID_B}) x <= 3 columns x hit / hold (lengths {HOLD_LENGTHS}), "
                 f"shuffled list order, 15% deliberately stacked notes, gap and threshold each in {SETTINGS}; classes osu, sm, bms, o2j, base Map (and quaver at 1/12); "
                 "every chart carries two tempo points and rows in each other list of its game; 12% of the sm charts also carry a mine / roll / lift / fake")
    rep.rule = "a case is one (game, hits, holds, gap, threshold); non-trivial when some column has >= 2 notes (a note with a next note exists)"
    feats = Counter()
    weights = ["osu"] * 3 + ["sm"] * 3 + ["bms", "o2j", "base"] * 2 + ["qua"]
    for i in range(N):
        if rep.out_of_time(22, 300):
            break
        game = weights[i % len(weights)]
        case = _random_case(rng, game, rng.choice([0, 1, 2, 3, 3, 4, 4, 5, 5, 6, 6, 6]))
        notes = [(c) for _, c in case["hits"]] + [c for _, c, _ in case["holds"]]
        rep.case(case, nontrivial=any(v >= 2 for v in Counter(notes).values()))
        for f in _features(case):
            feats[f] += 1
        for what, d in _run_case(case):
            rep.fail(what, case, d)
    rep.extra["feature_counts"] = dict(feats)


@replayer("full_ln_vs_statement")
def _replay(case, what):
    failed = _run_case(case)
    hit = [d for w, d in failed if w == what]
    return (bool(hit), hit[0] if hit else "passes")
