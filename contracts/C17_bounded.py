"""C17 bounded stand-in: the real `full_ln` on small charts of every game against an oracle written from the
property statement (one note per input note; per column every note but the last becomes a hold ending `gap`
before the next note when that leaves at least the threshold, else a hit; the last keeps kind and length).

Dimensions of a case besides the notes (all fields of the JSON case, none enters a clause id):
  call    how gap / threshold reach full_ln: positional, keyword, left out (the documented defaults gap=150,
          ln_as_hit_thres=100 - all three / gap only / threshold only), numpy scalars, float-typed whole numbers
  labels  per list (hits, holds, tempo list, SV list): row labels 0..n-1, permuted (.sorted()), reversed ([::-1]),
          offset (first row sliced off), gappy (rows filtered out by a mask) - the list CONTENT is that of the case
  tempo / svs   the tempo list and the SV list empty, one row, two rows in time order / not in time order / at the same time
  ints    all times and lengths python ints (int64 columns)
  then    a second call in the same process: on the RESULT of the first (chain), on the same input object again, or
          ("edited") on the same input object after it was CHANGED through public operations (EDITS: times of both note
          lists / of every list through the stack shifted in place, hold lengths changed in place, all hits moved to one
          column, a hit or a hold appended (a new list assigned), a tempo point appended, the chart replaced by its
          rate(2) / rate(0.5)); the second call is judged against the notes the chart holds THEN
  fields  every game-specific column the note lists carry (names read from the lists' own frames) holds non-default
          values; nothing is asserted about them, the clauses about times / columns / lengths must hold all the same
  value range: columns up to 255, a negative hold length on a column's last note, gap / threshold 0 and 1e9
"""
from __future__ import annotations

from collections import Counter
from fractions import Fraction

from pyvc.dsl import bounded
from pyvc.bounded import replayer

# times are dyadic rationals, so every float difference below is exact and Fraction(float) is the written value
GRID_A = [0.0, 100.0, 250.0, 300.0]          # differences 50, 100, 150, 200, 250, 300: every gap+threshold sum is met exactly
GRID_B = [-50.0, 0.0, 100.5, 300.25]         # negative and fractional times
GRID_C = [-1000000000.0, 3600000.0, 3600100.0, 1000000000.0, 1000000000.5, 1000000150.5]   # very large / very negative, neighbours 100, 0.5, 150 apart
GRID_D = [0.0, 50.0, 100.0, 150.0, 250.0, 300.0, 400.0, 550.0, 700.0, 1000.0]               # long columns
GRID_I = [0, 100, 250, 300, -50, 450]        # python ints: int64 columns
SETTINGS = [0, 50, 100, 150]
SETTINGS_F = [0.5, 50.25, 100.0, 149.75, 99.5, 1000.0, 1e9]   # fractional (dyadic, met exactly by GRID_B: 100.5 = 0.5 + 100 = 50.25 + 50.25, 199.75 = 149.75 + 50), float-typed whole, larger than every step
HOLD_LENGTHS = [30.0, 120.0, 400.0, 0.0]     # shorter than any step, in between, reaching over later notes, zero length
HOLD_LENGTHS_I = [30, 120, 400, 0]
GAMES = ["osu", "sm", "bms", "o2j", "base", "qua"]
DEFAULT_GAP, DEFAULT_THRES = 150, 100        # the documented signature: full_ln(m, gap=150, ln_as_hit_thres=100)
CALLS = ["kw", "defaults", "gap_only", "thres_only", "np", "pos_float"]
LABELS = ["sorted", "reversed", "offset", "gappy"]
TEMPO = ["none", "one", "tied", "unordered", "late", "early", "on_notes"]
# dimension 17 (which KIND of object is first / last): "late" = every tempo point / SV / stop after the last note and the only sample before the
# first note; "early" = all of them before the first note (of every grid); "on_notes" = on grid times that notes sit on (0, 100, 300 / -50, 300.25)
EDITS = ["shift_notes", "stack_shift", "lengthen", "one_column", "append_hit", "append_hold", "append_hit_list", "append_bpm", "rate2", "rate_half"]
WIDE_COLUMNS = [[0, 17, 255], [9], [254, 255]]


def _game(game):
    if game == "osu":
        from reamber.osu import OsuMap as M
        return M, {}
    if game == "sm":
        from reamber.sm import SMMap as M
        return M, {}
    if game == "qua":
        from reamber.quaver import QuaMap as M
        return M, {"keysounds": []}
    if game == "bms":
        from reamber.bms import BMSMap as M
        return M, {}
    if game == "o2j":
        from reamber.o2jam import O2JMap as M
        return M, {}
    from reamber.base.Map import Map as M
    return M, {}


def _mk(cls, items, mode):
    """A list of class `cls` with exactly `items` as rows (in this order, except for 'sorted' / 'reversed') and
    the row labels of `mode`, obtained through public list operations only."""
    import numpy as np

    if not items or mode in (None, "default"):
        return cls(items)
    if mode == "sorted":          # rows in time order, labels permuted
        return cls(items).sorted()
    if mode == "reversed":        # rows reversed, labels n-1..0
        return cls(items)[::-1]
    if mode == "offset":          # labels 1..n: a leading row sliced off
        return cls([items[0]] + items)[1:]
    if mode == "gappy":           # labels with gaps: every other row (copies of the first item) filtered out by a mask
        rows, keep = [], []
        for it in items:
            rows += [items[0], it]
            keep += [False, True]
        return cls(rows)[np.array(keep)]
    raise ValueError(mode)


def _build(case):
    """Chart of the case: hits / holds in the written list order, a tempo list, and rows in every other list
    the game has (SVs, stops; with `extras` also SM mines / rolls / lifts / fakes)."""
    M, kw = _game(case["game"])
    m = M()
    lab = case.get("labels") or {}
    H, L, B = type(m.hits)._item_class(), type(m.holds)._item_class(), type(m.bpms)._item_class()
    m.hits = _mk(type(m.hits), [H(offset=t, column=c, **kw) for t, c in case["hits"]], lab.get("hits"))
    m.holds = _mk(type(m.holds), [L(offset=t, column=c, length=ln, **kw) for t, c, ln in case["holds"]], lab.get("holds"))
    tempo = dict(two=[(-50.0, 120.0), (250.0, 177.5)], none=[], one=[(0.0, 150.0)], tied=[(100.0, 120.0), (100.0, 240.0), (100.0, 60.0)],
                 unordered=[(250.0, 177.5), (-50.0, 120.0), (100.0, 90.0)], late=[(2000000000.0, 120.0), (2000000500.0, 90.0)], early=[(-2000000000.0, 120.0)],
                 on_notes=[(0.0, 120.0), (300.0, 90.0), (-50.0, 60.0)])[case.get("tempo", "two")]
    m.bpms = _mk(type(m.bpms), [B(offset=t, bpm=b) for t, b in tempo], lab.get("bpms"))
    if hasattr(m, "svs"):
        S = type(m.svs)._item_class()
        svs = dict(two=[(100.0, 0.5), (100.0, 2.0)], none=[], one=[(0.0, 1.5)], tied=[(100.0, 0.5), (100.0, 2.0), (100.0, 0.5)],
                   unordered=[(300.0, 0.5), (100.0, 2.0), (200.0, 1.0)], late=[(2000000100.0, 0.5)], early=[(-2000000100.0, 2.0), (-2000000000.0, 0.5)],
                   on_notes=[(100.0, 0.5), (300.25, 2.0), (0.0, 1.5)])[case.get("svs", "two")]
        m.svs = _mk(type(m.svs), [S(offset=t, multiplier=x) for t, x in svs], lab.get("svs"))
    if case["game"] == "sm":
        from reamber.sm import SMStop, SMMine, SMRoll, SMLift, SMFake
        from reamber.sm.lists import SMStopList
        from reamber.sm.lists.notes import SMMineList, SMRollList, SMLiftList, SMFakeList

        if case.get("tempo", "two") != "none":
            m.stops = SMStopList([SMStop(offset=dict(late=2000000200.0, early=-2000000200.0, on_notes=0.0).get(case.get("tempo"), 100.0), length=25.0)])
        ex = case.get("extras") or {}
        if ex.get("mines"):
            m.mines = SMMineList([SMMine(offset=t, column=c) for t, c in ex["mines"]])
        if ex.get("rolls"):
            m.rolls = SMRollList([SMRoll(offset=t, column=c, length=ln) for t, c, ln in ex["rolls"]])
        if ex.get("lifts"):
            m.lifts = SMLiftList([SMLift(offset=t, column=c) for t, c in ex["lifts"]])
        if ex.get("fakes"):
            m.fakes = SMFakeList([SMFake(offset=t, column=c) for t, c in ex["fakes"]])
    if case.get("fields"):
        _fill_fields(m)
    if case["game"] == "osu" and case.get("tempo", "two") != "none":
        from reamber.osu.OsuSample import OsuSample
        from reamber.osu.lists.OsuSampleList import OsuSampleList

        m.samples = OsuSampleList([OsuSample(offset=dict(late=-2000000300.0, early=-2000000300.0, on_notes=300.0).get(case.get("tempo"), 100.0), sample_file="a.wav", volume=30)])
    return m


def _fill_fields(m):
    """Non-default values in every further column the note lists carry - the names and the kind of value are read from
    the lists' own frames, the values go in through the list property of that name."""
    for lst in (m.hits, m.holds):
        df = lst.df
        n = len(df)
        for k, name in enumerate(str(c) for c in df.columns):   # k: dimension 14 - no two columns of a row carry the same value
            if name in ("offset", "column", "length") or n == 0:
                continue
            v = df[name].iloc[0]
            if isinstance(v, (bool,)) or type(v).__name__ == "bool_":
                new = [i % 2 == 0 for i in range(n)]
            elif isinstance(v, int) or type(v).__name__.startswith("int"):
                new = [(i * 3 + 1) % 5 + 5 * k for i in range(n)]
            elif isinstance(v, float) or type(v).__name__.startswith("float"):
                new = [0.5 * i + 1 + 7 * k for i in range(n)]
            elif isinstance(v, str):
                new = [f"s{i}_{name}.wav" for i in range(n)]
            elif isinstance(v, bytes):
                new = [[b"0A", b"ZZ"][i % 2] for i in range(n)]
            else:
                continue
            setattr(lst, name, new)


def _edit(m, kind, kw):
    """A legitimate change of the chart between two calls, through public operations; -> the chart to call next."""
    H, L, B = type(m.hits)._item_class(), type(m.holds)._item_class(), type(m.bpms)._item_class()
    if kind == "shift_notes":
        m.hits.offset += 50.0
        m.holds.offset += 50.0
    elif kind == "stack_shift":
        s = m.stack()
        s.offset += 50.0
    elif kind == "lengthen":
        m.holds.length += 20.0
    elif kind == "one_column":
        m.hits.column = [0] * len(m.hits.df)
    elif kind == "append_hit":
        m.hits = m.hits.append(H(offset=150.0, column=0, **kw))
    elif kind == "append_hold":
        m.holds = m.holds.append(L(offset=125.0, column=0, length=500.0, **kw), sort=True)
    elif kind == "append_hit_list":
        m.hits = m.hits.append(type(m.hits)([H(offset=150.0, column=0, **kw), H(offset=-25.0, column=1, **kw)]))
    elif kind == "append_bpm":
        m.bpms = m.bpms.append(B(offset=600.0, bpm=99.0))
    elif kind == "rate2":
        return m.rate(2.0)
    elif kind == "rate_half":
        return m.rate(0.5)
    else:
        raise ValueError(kind)
    return m


def _F(x):
    return Fraction(float(x))


def _notes_of(m):
    """Multiset of (time, column, length | None) over the chart's hits and holds."""
    out = []
    for t, c in zip(m.hits.offset.tolist(), m.hits.column.tolist()):
        out.append((_F(t), int(c), None))
    for t, c, ln in zip(m.holds.offset.tolist(), m.holds.column.tolist(), m.holds.length.tolist()):
        out.append((_F(t), int(c), _F(ln)))
    return out


def _snapshot_others(m):
    snap = {}
    for k, v in m.objs.items():
        if k in ("hits", "holds"):
            continue
        snap[k] = (type(v), list(v.df.columns), repr(v.df.to_numpy().tolist()))
    if hasattr(getattr(m, "samples", None), "df"):
        v = m.samples
        snap["samples"] = (type(v), list(v.df.columns), repr(v.df.to_numpy().tolist()))
    return snap


def _rule(d, gap, thres):
    """Statement: a hold ending exactly `gap` before the next note when that leaves at least the threshold, else a hit."""
    inv = d - gap
    return inv if inv >= thres else None


def _accepted(col_notes, gap, thres):
    """All accepted output multisets of one column.  col_notes: [(t, len|None)].  Notes stacked at one time may be
    processed in either order: all but one of them see the next note at distance 0; the one processed last sees the
    next later time - or, at the column's last time, is the column's last note and keeps its kind and length."""
    times = sorted({t for t, _ in col_notes})
    fixed = Counter()
    for j, t in enumerate(times):
        grp = [ln for tt, ln in col_notes if tt == t]
        for _ in range(len(grp) - 1):
            fixed[(t, _rule(Fraction(0), gap, thres))] += 1
        if j + 1 < len(times):
            fixed[(t, _rule(times[j + 1] - t, gap, thres))] += 1
    last_t = times[-1]
    alts = []
    for ln in {ln for tt, ln in col_notes if tt == last_t}:
        c = Counter(fixed)
        c[(last_t, ln)] += 1
        alts.append(c)
    return alts


def _call(m, gap, thres, how):
    """The real call in the form `how`; (gap, thres) are the values the statement's rule is evaluated with."""
    import numpy as np
    from reamber.algorithms.generate import full_ln

    if how == "kw":
        return full_ln(m, ln_as_hit_thres=thres, gap=gap)
    if how == "defaults":
        assert (gap, thres) == (DEFAULT_GAP, DEFAULT_THRES)
        return full_ln(m)
    if how == "gap_only":
        assert thres == DEFAULT_THRES
        return full_ln(m, gap)
    if how == "thres_only":
        assert gap == DEFAULT_GAP
        return full_ln(m, ln_as_hit_thres=thres)
    if how == "np":
        w = lambda v: np.int64(v) if isinstance(v, int) else np.float64(v)
        return full_ln(m, w(gap), w(thres))
    if how == "pos_float":
        return full_ln(m, float(gap), float(thres))
    return full_ln(m, gap, thres)


def _run_case(case):
    failed = []
    m = _build(case)
    steps = [(case["gap"], case["thres"], case.get("call", "pos"), "first")]
    for g, t, mode, *edit in case.get("then") or []:
        steps.append((g, t, "pos", mode + (":" + edit[0] if edit else "")))
    r = None
    for gap, thres, how, mode in steps:
        mode, _, edit = mode.partition(":")
        if mode == "edited":                   # the same input object, changed through public operations in between
            try:
                m = _edit(m, edit, _game(case["game"])[1])
            except Exception as ex:
                # the class of `completes_when_single_row_list_was_reversed` (a ONE-row list that went through [::-1] next to empty lists cannot be
                # stacked: pd.concat raises 'Shape of passed values is (1, n), indices imply (0, n)') also arises for the one-row TEMPO lists
                # (shapes one / early) of a chart without notes when the edit itself stacks: reported under that clause, not under this one
                lab = case.get("labels") or {}
                one_row_reversed = _single_row_reversed(case) or (not case["hits"] and not case["holds"] and lab.get("bpms") == "reversed" and case.get("tempo") in ("one", "early"))
                what = "completes_when_single_row_list_was_reversed" if (one_row_reversed and isinstance(ex, ValueError) and "Shape of passed values" in str(ex)) else "completes_for_every_game"
                failed.append((what, f"the public edit {edit} between the two calls raised {type(ex).__name__}: {ex}"))
                break
        src = r if mode == "chain" else m      # "again": the same input object once more
        found, r = _check_call(case, src, gap, thres, how, from_case=mode != "chain", item_appended=edit in ("append_hit", "append_hold"))
        tag = {"first": "", "chain": "[second call, on the result of the first] ", "again": "[second call, on the same input object] ",
               "edited": f"[second call, on the same input object after the edit {edit}] "}[mode]
        for what, d in found:
            if what not in {w for w, _ in failed}:
                failed.append((what, tag + d))
        if r is None:
            break
    return failed


def _single_row_reversed(case):
    """The chart's only note sits in a one-row list that went through [::-1] (labels [0] as before, but pandas
    keeps them as RangeIndex(0, -1, -1)) and the other note list is empty: a class of its own, see _check_call."""
    lab = case.get("labels") or {}
    h, l = case["hits"], case["holds"]
    return (len(h) == 1 and not l and lab.get("hits") == "reversed") or (len(l) == 1 and not h and lab.get("holds") == "reversed")


def _check_call(case, m, gap_arg, thres_arg, how, from_case=True, item_appended=False):
    """One real call on chart `m` against the statement; -> ([(what, detail)], result | None).
    item_appended: a note list of `m` was extended by append(<one item>) just before - an exception then goes to the clause
    `completes_after_append_of_an_item` (a class of its own: in games whose items carry text fields such a list has
    object-typed columns), so that `completes_for_every_game` stays exercised by everything else."""
    failed = []
    gap, thres = Fraction(gap_arg), Fraction(thres_arg)
    before_notes = _notes_of(m)
    before_others = _snapshot_others(m)
    try:
        r = _call(m, gap_arg, thres_arg, how)
    except Exception as ex:
        # charts whose single note is in a reversed one-row list are kept apart, so that this clause stays exercised by all others
        what = "completes_when_single_row_list_was_reversed" if (from_case and _single_row_reversed(case)) else "completes_for_every_game"
        if item_appended and what == "completes_for_every_game":
            what = "completes_after_append_of_an_item"
        return [(what, f"full_ln raised {type(ex).__name__}: {ex}")], None

    # result list classes = the input's classes
    if type(r) is not type(m) or type(r.hits) is not type(m.hits) or type(r.holds) is not type(m.holds):
        failed.append(("result_keeps_list_classes", f"{type(r).__name__}/{type(r.hits).__name__}/{type(r.holds).__name__} from {type(m).__name__}/{type(m.hits).__name__}/{type(m.holds).__name__}"))

    # tempo and other lists unchanged
    after_others = _snapshot_others(r)
    for k, v in before_others.items():
        if after_others.get(k) != v:
            failed.append(("tempo_and_other_lists_unchanged", f"list {k}: {v[2]} -> {after_others.get(k, (None, None, None))[2]}"))
            break

    got = _notes_of(r)
    pos_in, pos_out = Counter((t, c) for t, c, _ in before_notes), Counter((t, c) for t, c, _ in got)
    if pos_in != pos_out:
        extra, missing = pos_out - pos_in, pos_in - pos_out
        what = "other_note_lists_stay_out_of_result" if case.get("extras") else "one_note_per_input_note"
        failed.append((what, f"extra (time, column): {[(float(t), c) for t, c in extra.elements()]}, missing: {[(float(t), c) for t, c in missing.elements()]}"))
        return failed, r

    for c in sorted({c for _, c, _ in before_notes}):
        col_in = [(t, ln) for t, cc, ln in before_notes if cc == c]
        col_out = Counter((t, ln) for t, cc, ln in got if cc == c)
        alts = _accepted(col_in, gap, thres)
        if col_out not in alts:
            show = lambda cn: sorted(((float(t), None if ln is None else float(ln)) for t, ln in cn.elements()), key=repr)
            # split the verdict: is it the last note of the column or a generated one that is off?
            last_t = max(t for t, _ in col_in)
            kept = {ln for tt, ln in col_in if tt == last_t}
            body_ok = any(not ((a - Counter({(last_t, ln): 1})) - col_out) for a in alts for ln in kept if a[(last_t, ln)] > 0)
            what = "last_note_keeps_kind_and_length" if body_ok else "hold_ends_gap_before_next_or_hit"
            if case.get("extras"):
                what = "other_note_lists_stay_out_of_result"
            failed.append((what, f"column {c} (gap {gap_arg}, threshold {thres_arg}, call {how}): got {show(col_out)}, accepted {[show(a) for a in alts]}"))
            break

    # no generated hold reaches the next note of its column (every hold that has a later note in its column is generated)
    for t, c, ln in got:
        if ln is None:
            continue
        later = [tt for tt, cc, _ in got if cc == c and tt > t]
        if later:
            nxt = min(later)
            if t + ln > nxt or (gap > 0 and t + ln >= nxt):
                what = "other_note_lists_stay_out_of_result" if case.get("extras") else "hold_stops_before_next_note"
                failed.append((what, f"hold at {float(t)} column {c} length {float(ln)} vs next note at {float(nxt)}, gap {gap_arg}"))
                break
    return failed, r


def _random_case(rng, game, n_notes):
    u = rng.random()
    ints = False
    if u < 0.45:
        grid = GRID_A
    elif u < 0.65:
        grid = GRID_B
    elif u < 0.75:
        grid = GRID_C
    elif u < 0.87:
        grid, n_notes = GRID_D, n_notes + rng.choice([0, 3, 6])            # long columns
    else:
        grid, ints = GRID_I, True
    cols = rng.choice([[0, 1, 2], [0, 1, 2], [0, 1], [0], [0, 3, 6], [5]])   # fewer columns -> longer columns / stacks; unused ones (also in the middle) are empty
    if rng.random() < 0.08:
        cols = rng.choice(WIDE_COLUMNS)                                    # the upper end of a column number
    lengths = HOLD_LENGTHS_I if ints else HOLD_LENGTHS
    hits, holds = [], []
    for _ in range(n_notes):
        t, c = rng.choice(grid), rng.choice(cols)
        if (hits or holds) and rng.random() < 0.15:                    # stack on an existing note
            t, c = rng.choice([(x[0], x[1]) for x in hits + holds])
        if rng.random() < 0.5:
            hits.append([t, c])
        else:
            holds.append([t, c, rng.choice(lengths)])
    rng.shuffle(hits)
    rng.shuffle(holds)
    settings = SETTINGS + SETTINGS_F if rng.random() < 0.3 else SETTINGS
    case = dict(game=game, hits=hits, holds=holds, gap=rng.choice(settings), thres=rng.choice(settings))
    if rng.random() < 0.3:      # how gap / threshold reach the function
        how = rng.choice(CALLS)
        if how in ("defaults", "thres_only"):
            case["gap"] = DEFAULT_GAP
        if how in ("defaults", "gap_only"):
            case["thres"] = DEFAULT_THRES
        case["call"] = how
    if rng.random() < 0.35:     # row labels of each list the function receives
        case["labels"] = {k: rng.choice(LABELS) for k in ("hits", "holds", "bpms", "svs") if rng.random() < 0.6}
    if rng.random() < 0.25:     # shape of the tempo list and of the SV list
        case["tempo"] = rng.choice(TEMPO)
        case["svs"] = rng.choice(TEMPO)
    if rng.random() < 0.15:     # a second call in the same process
        case["then"] = [[rng.choice(SETTINGS), rng.choice(SETTINGS), rng.choice(["chain", "again"])]]
    elif rng.random() < 0.2:    # ... on the same chart object after a legitimate change of it
        edits = [e for e in EDITS if not (ints and e.startswith("rate"))]
        if _single_row_reversed(case):
            edits = [e for e in edits if not e.startswith("append_h")]    # keeps that class (see _check_call) recognisable
        case["then"] = [[rng.choice(SETTINGS), rng.choice(SETTINGS), "edited", rng.choice(edits)]]
    if rng.random() < 0.15:     # non-default values in every game-specific column of the notes
        case["fields"] = True
    if holds and not ints and rng.random() < 0.06:
        # a hold of negative length as the LAST note of its column (it keeps its kind and length)
        t_last = max(x[0] for x in hits + holds)
        holds.append([t_last + 1000.0, rng.choice(cols), -30.0])
    if game == "sm" and rng.random() < 0.12:
        ex = {}
        kind = rng.choice(["mines", "rolls", "lifts", "fakes"])
        if kind == "rolls":
            ex[kind] = [[rng.choice(grid), rng.choice(cols), 30.0]]
        else:
            ex[kind] = [[rng.choice(grid), rng.choice(cols)]]
        case["extras"] = ex
    return case


def _features(case):
    notes = [(t, c) for t, c in case["hits"]] + [(t, c) for t, c, _ in case["holds"]]
    per_col = Counter(c for _, c in notes)
    f = set()
    if len({t for t, _ in notes}) < len(notes) and len(set(notes)) == len(notes) and len(notes) > 1:
        f.add("chord")
    if len(set(notes)) < len(notes):
        f.add("stacked")
    if 1 in per_col.values():
        f.add("single_note_column")
    if len(per_col) < 3:
        f.add("empty_column")
    if case["hits"] and case["holds"]:
        f.add("mixed")
    if notes and not case["hits"]:
        f.add("holds_only")
    if notes and not case["holds"]:
        f.add("hits_only")
    if any(ln == 0 for _, _, ln in case["holds"]):
        f.add("zero_length_hold")
    if notes and all(isinstance(t, int) for t, _ in notes):
        f.add("int_columns")
    if isinstance(case["gap"], float) or isinstance(case["thres"], float):
        f.add("float_settings")
    for k in ("call", "tempo"):
        if case.get(k):
            f.add(f"{k}={case[k]}")
    for k, v in (case.get("labels") or {}).items():
        f.add(f"labels[{k}]={v}")
    for _, _, mode, *edit in case.get("then") or []:
        f.add(f"then={mode}" + (":" + edit[0] if edit else ""))
    if case.get("fields"):
        f.add("game_specific_fields_filled")
    if any(c > 6 for _, c in notes):
        f.add("wide_columns")
    if any(ln < 0 for _, _, ln in case["holds"]):
        f.add("negative_length_last_hold")
    return f


@bounded("C17", note="real full_ln on charts of six map classes (<= 6 notes, 4-point time grids x 3 columns x hit/hold, stacks, chords, empty columns) x gap/threshold in {0,50,100,150} against the statement's rule, exact rationals")
def full_ln_vs_statement(rep):
    rng = rep.rng
    N = rep.n(2400, 60000)
    rep.bound = (f"up to {N} seeded charts: 0..6 notes on a 4-point time grid ({GRID_A} or {GRID_B}), 10% on very large / negative times {GRID_C}, 12% long columns (up to 12 notes on {GRID_D}), 13% all-int times and lengths {GRID_I}; "
                 f"x <= 3 columns out of [0,1,2] / [0,1] / [0] / [0,3,6] / [5] x hit / hold (lengths {HOLD_LENGTHS}, incl. zero length), "
                 f"shuffled list order, 15% deliberately stacked notes, gap and threshold each in {SETTINGS}, in 30% of the charts also in {SETTINGS_F}; "
                 f"30% of the calls not positional ({', '.join(CALLS)}; left-out arguments are the documented defaults gap={DEFAULT_GAP}, ln_as_hit_thres={DEFAULT_THRES}); "
                 f"35% of the charts with other row labels than 0..n-1 ({', '.join(LABELS)}) on hits / holds / tempo list / SV list independently; 25% with the tempo list and SV list {' / '.join(TEMPO)} instead of two rows; "
                 "15% with a second call (on the first result, or on the same input object again), each call checked against the notes it was given; "
                 f"17% with a second call on the SAME chart object after a public edit of it ({', '.join(EDITS)}), judged against the notes it holds then; "
                 f"15% with non-default values in every game-specific note column (names read from the lists' frames; no two columns of a row share a value); 8% columns from {WIDE_COLUMNS}; 6% a negative-length hold as the last note of a column; "
                 "classes osu, sm, bms, o2j, base Map (and quaver at 1/12); "
                 "the shapes late / early / on_notes put every tempo point, SV and stop after the last note (sample before the first), all of them before the first note, or on times notes sit on; "
                 "every chart carries rows in each other list of its game unless its tempo list is empty; 12% of the sm charts also carry a mine / roll / lift / fake")
    rep.rule = "a case is one (game, hits, holds, gap, threshold, call form, labels, tempo / SV shape, second call); non-trivial when some column has >= 2 notes (a note with a next note exists)"
    feats = Counter()
    weights = ["osu"] * 3 + ["sm"] * 3 + ["bms", "o2j", "base"] * 2 + ["qua"]
    for i in range(N):
        if rep.out_of_time(22, 300):
            break
        game = weights[i % len(weights)]
        case = _random_case(rng, game, rng.choice([0, 1, 2, 3, 3, 4, 4, 5, 5, 6, 6, 6]))
        notes = [(c) for _, c in case["hits"]] + [c for _, c, _ in case["holds"]]
        rep.case(case, nontrivial=any(v >= 2 for v in Counter(notes).values()))
        for f in _features(case):
            feats[f] += 1
        for what, d in _run_case(case):
            rep.fail(what, case, d)
    rep.extra["feature_counts"] = dict(sorted(feats.items()))


@replayer("full_ln_vs_statement")
def _replay(case, what):
    failed = _run_case(case)
    hit = [d for w, d in failed if w == what]
    return (bool(hit), hit[0] if hit else "passes")
