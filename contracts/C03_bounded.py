"""C03 - StepMania writing: bounded stand-in.

In-memory mapsets (read from generated files, built list by list the way the converters do, made by the real
osu / Quaver / BMS -> SM converters from source charts built in memory, optionally after `rate`, with `selectable`
False / True) are written by the REAL `SMMapSet.write`; the text is interpreted by
`den_sm` (contracts/C02_bounded.py: the independent exact-rational .sm interpreter) and compared with the
in-memory mapset as it was before writing.

Clause ids (`what`):
  write_completes                        write() returns
  text_is_valid_sm.<code>                the text is a syntactically valid .sm text: no text outside `#TAG:...;` tokens
                                         (stray_text), every row as wide as the chart type's key count (row_width),
                                         measures of 4k rows (rows_multiple_of_4), symbols of the alphabet (symbol), heads
                                         and tails pair up (hold_pairing), numbers are numbers, `#SELECTABLE` is YES / NO, ...
  no_stops_written                       a mapset without stops writes no #STOPS entries
  chart_count, chart_header_fields       the same charts, each with its own type / description / difficulty / meter / radar
  objects_kind_and_column                per kind the same number of objects per column
  object_times_exact                     head and tail times agree (1e-3 ms) where every tempo change lies on a measure line
                                         and the measure's positions fit one measure of <= 384 rows
  object_times_within_grid               otherwise within 1/96 beat at the local tempo (the slower of: the tempo of the segment
                                         that holds the object in the mapset, the tempo of the segment the text has put it in)
  header_written.<field>                 the header tags of the text denote the in-memory header field
  header_read_back.<field>               SMMapSet.read(text) gives the field back unchanged
  reread_completes                       the written text can be read, written and read again
  reread_is_stable                       read(write(read(write(ms)))) == read(write(ms)) (1e-3 ms) for mapsets whose tempo
                                         changes all lie on measure lines
  reread_is_stable_within_grid           the same to within 1/96 beat at the local tempo for the other mapsets (the statement's
                                         precision regime for them; their #BPMS beats are written with two decimals)
  write_file_equals_write                write_file stores exactly write()
  rated_offset_is_first_tempo_point      ms.rate(r) keeps the domain's `#OFFSET == first tempo point`
  write_leaves_mapset_unchanged          after write() the mapset holds what it held before (header, charts, objects, tempo)
  second_write_denotes_the_mapset        a second write() of the same mapset (in a part of the cases after ANOTHER mapset has been
                                         built and written) again denotes the mapset: no clause fails on the second text that
                                         held on the first
  header_read_back_colon.<field>         a header text holding a ':' (`Re:Zero`) is read back unchanged - kept apart from
                                         header_read_back.<field> (plain text, non-ASCII, tab / NBSP / ideographic space, '#', '=', ',')
  written_file_reads_back                read_file(path) of the file just written by write_file gives what read(write()) gives
Dimensions 10-12 (no clause of their own: the clauses above are evaluated on the mapset AS IT IS at the observed write):
  history   `before`: the mapset has been written (write / write_file) BEFORE it is rated; `edit`: after an earlier write the
            SAME mapset is changed through public operations (all times moved through the stack / the list properties / newly
            assigned lists, every bpm scaled in place, a hit appended) and only then observed;
  files     write_file onto a path that does not exist / holds a longer / a shorter / another mapset's file (read before);
  rates     also 0.1, 1/3, 3, 10 and a rate next to 1.
A chart without any object is written with an empty data field; StepMania reads that as a chart without rows, so `den_sm`'s
"a measure has 4k > 0 rows" is not applied to such a chart (its data is read as one empty measure).
Time clauses of rated mapsets carry the suffix `.rate` so the consequences of an unscaled #OFFSET stay apart.
Dimensions 14-18:
  14  `all_fields`: EVERY header attribute (all 16 text tags incl. bg / fg changes, display bpm, lyrics path, cd title, banner ...,
      the sample window) and every chart header field (description, difficulty, meter, the five radar values) is set to a value
      that is non-default, non-empty and different from every sibling field, on mapsets of every origin;
  15  write_leaves_mapset_unchanged also compares the dtype of every column (and the row labels' dtype) of every list of every
      chart and the type of every header / chart attribute, on fresh / rated / stack-edited / appended-to mapsets;
  16  `all_fields.special`: header texts that are special values elsewhere in the format (`NO`, `YES`, `*`, `0`, `0.000=120`,
      `dance-single`, `Edit`, `0,0,0,0,0`) as ordinary text of other fields;
  17  a tempo point after the last object / objects on the first tempo point are drawn by the generators already; objects before
      the first tempo point cannot be written in an .sm (beat < 0): outside the domain; the osu / Quaver sources of the fine_tempo
      cases carry scroll-velocity points ON the first tempo point and after the last object (`src_svs`);
  18  `fine_tempo`: tempo changes at whole beat + p/q, q from 24, 32, 48, 64, 96, 5, 7, 9 (positions of the default 1..96 snap grid
      that no coarse grid holds), neighbouring tempos at least 1.5 : 1, an object shortly after every change.
  tempo_changes_within_grid   every tempo point of the mapset is in the text's #BPMS, with its bpm, at its time to within 1/96 beat
                              (id suffix .two_decimal_bpms_beats: the displacement is exactly the two-decimal rounding of N5)
      at the slower of the tempos on its two sides (the two-decimal beats of known finding N5 move a change by <= 0.005 beat,
      half of that; what N5 does to the OBJECTS after the change stays in object_times_within_grid)
"""
from __future__ import annotations

import os
import tempfile
from fractions import Fraction
from math import floor, gcd

from contracts.C02_bounded import (
    NOTE_KINDS,
    SM_KEYS,
    TEXT_TAGS,
    BPM_POOL,
    DESC_POOL,
    DIFFS,
    RADARS,
    TEXT_POOL,
    SMFormatError,
    beat_to_ms,
    chart_header,
    den_objects,
    den_sm,
    gen_spec,
    map_objects,
    map_tempo,
    quiet,
    render,
    same_read,
)
from pyvc.bounded import replayer
from pyvc.dsl import bounded

# chart types whose key count is the same in StepMania and in reamber's table (dance-couple: 8 vs 4, left out)
WRITE_TYPES = ("dance-single", "dance-solo", "dance-double", "dance-threepanel", "kb7-single", "dance-routine")
TOL_MS = 1e-3
RATES = (0.5, 0.75, 0.9, 1.1, 1.25, 1.5, 2.0)
T0_POOL = ("0", "-1118", "635", "500", "12.5", "-2250")
SAMPLE_MS = (0.0, 1500.0, 68502.0, 297853.0, 10.0, 26000.0)
# object positions inside a beat: the usual ones, and ones that force a measure past 384 rows when mixed
COARSE = (1, 2, 3, 4, 6, 8, 12, 16, 24, 48)
FINE = (5, 7, 9, 32, 64, 96)
ODD = (5, 7, 9, 11, 13, 15, 19, 21, 23)
MIN_GAP = Fraction(1, 48)  # between two objects of one column (so that no two share a written cell)
# times with sub-millisecond digits, hours into the audio, far before it
T0_EXTRA = ("635.25", "-0.375", "0.001", "3600000", "10000000.125", "-250000.5")
SAMPLE_EXTRA = (1234.567, 0.5, 3599999.25)
# header text the format can carry (no ';', no '//', no leading / trailing blanks) beyond C02's pool
TEXT_EXTRA = ("take #2", "a\tb", "a\u3000b", "a\u00a0b", "\uff5ewave\u301c", "x=1", "\u00c9\u00e9 \u591c\u306b\u99c6\u3051\u308b", "#1", "100% (a,b)")
TEXT_COLON = ("Re:Zero", "12:30 mix", "a:b:c")
DESC_EXTRA = ("\u591c Mix", "a\u3000b", "#2 (hard)")
# tempos whose quarter beats last a whole number of ms (int-typed charts)
BPM_INT = ("60", "120", "150", "200", "100", "75", "50", "300")
T0_INT = ("0", "-1118", "635", "500", "-2250", "3600000")
CONVERT_SOURCES = ("osu", "qua", "bms")
KEYS_TYPE = {4: "dance-single", 8: "dance-double", 6: "dance-solo", 3: "dance-threepanel", 7: "kb7-single"}
LABELS = ("default", "default", "reversed", "gappy", "permuted")
RATES_WIDE = (0.1, 1 / 3, 3, 10, 0.999)
SHIFTS_MS = (250, -1118, 1000, 0.375, -0.5, 3600000)
SHIFT_HOW = ("stack", "list_property", "new_lists")
FILE_BEFORE = (None, "empty", "longer", "shorter", "other_mapset")
# dimension 14: one value per header attribute, all different, none a default
ALL_HEADER = dict(
    title="Ttl 1", subtitle="Sub 2", artist="Art 3", title_translit="Ttl-t 4", subtitle_translit="Sub-t 5", artist_translit="Art-t 6", genre="Genre 7", credit="Credit 8",
    banner="bn 9.png", background="bg 10.jpg", lyrics_path="ly 11.lrc", cd_title="cd 12.png", music="mu 13.ogg", display_bpm="165.5",
    bg_changes="0.000=bg.avi=1.000=1=0=0", fg_changes="4.000=fg.avi=1.000=0=0=1,8.000=fg2.png=1.000=1=1=0",
)
PLAIN_ATTRS = tuple(a for a in ALL_HEADER if a not in ("display_bpm", "bg_changes", "fg_changes"))
# dimension 16: values that are special somewhere else in the format, as the ordinary text of a header field
SPECIAL_TEXT = ("NO", "YES", "*", "0", "0.000=120", "dance-single", "Edit", "0,0,0,0,0", "NOTES", "-0.0")
# dimension 18: positions of a tempo change inside a beat that only the fine (default, 1..96) snap grid holds
FINE_TEMPO_DENS = (24, 32, 48, 64, 96, 5, 7, 9)

# ============================================================================= in-memory mapsets


def snapshot(ms):
    """What the mapset holds before it is written (plain Python values)."""
    return dict(
        text={attr: getattr(ms, attr) for attr in TEXT_TAGS.values()},
        offset=float(ms.offset),
        sample_start=float(ms.sample_start),
        sample_length=float(ms.sample_length),
        selectable=ms.selectable,
        charts=[dict(header=chart_header(m), objects=map_objects(m), tempo=map_tempo(m), types=_chart_types(m)) for m in ms.maps],
        types={attr: type(getattr(ms, attr)).__name__ for attr in list(TEXT_TAGS.values()) + ["offset", "sample_start", "sample_length", "selectable"]},
    )


def _chart_types(m):
    """The dtype of every column (and of the row labels) of every list the chart holds, the type of every header attribute."""
    out = {}
    for name, lst in m.objs.items():
        df = lst.df
        out[name] = dict({str(c): str(df[c].dtype) for c in df.columns}, **{"<row labels>": str(df.index.dtype)})
    for attr in ("chart_type", "description", "difficulty", "difficulty_val", "groove_radar"):
        v = getattr(m, attr)
        out["." + attr] = type(v).__name__ + ("[" + ",".join(type(x).__name__ for x in v) + "]" if isinstance(v, (list, tuple)) else "")
    return out


def _two_decimal_error(f):
    return abs(float(f) - round(float(f), 2))


def gen_built(rng, integral=False, convert=None, fine_tempo=False):
    """Spec of a mapset built list by list: shared tempo list (on measure lines, or anywhere on the grid), objects of
    every kind at positions `segment start + k/d` beats, leading and intermediate empty measures, measures that need
    more than 384 rows; charts without any object; rows of every list in any order and under any row labels; header
    attributes left at their defaults.  `integral`: every time is a whole number of ms (the lists are then built from
    python ints: int64 columns).  `convert`: the spec of a source chart for a *ToSM converter (one chart, hits and
    holds, its highest column in use).  `fine_tempo` (dimension 18): at least two tempo points, every change at whole beat + p/q
    with q from FINE_TEMPO_DENS (of three draws the one whose two-decimal rendering is closest), neighbouring tempos at
    least 1.5 : 1, an object shortly after every change."""
    on_measure = rng.random() < 0.5 and not fine_tempo
    n_charts = 1 if convert else rng.choice((1, 1, 2, 3))
    n_meas = rng.randrange(2, 8)
    n_t = min(rng.randrange(1, 5), n_meas)
    if fine_tempo:
        n_t = max(n_t, 2)
    coarse = (1, 2, 4) if integral else COARSE
    starts = {Fraction(0)}
    while len(starts) < n_t:
        if on_measure:
            starts.add(Fraction(4 * rng.randrange(1, n_meas + 1)))
        elif fine_tempo:
            fr = []
            for _ in range(3):
                d = rng.choice(FINE_TEMPO_DENS)
                fr.append(Fraction(rng.choice([k for k in range(1, d) if gcd(k, d) == 1]), d))
            starts.add(rng.randrange(0, 4 * n_meas) + min(fr, key=_two_decimal_error))
        else:
            starts.add(Fraction(rng.randrange(1, 4 * n_meas * 48), rng.choice((1, 2, 4) if integral else (1, 2, 3, 4, 6, 12, 16, 48))) % (4 * n_meas) or Fraction(2))
    if integral:
        starts = {Fraction(floor(b * 4), 4) for b in starts}
    starts = sorted(starts)
    # "contrast": strongly different neighbouring tempos and an object shortly after every change
    contrast = (not on_measure) and (not integral) and rng.random() < 0.4 and not fine_tempo
    tempo, prev = [], None
    for i, b in enumerate(starts):
        if fine_tempo:
            v = rng.choice([x for x in BPM_POOL if prev is None or max(Fraction(x), Fraction(prev)) >= Fraction(3, 2) * min(Fraction(x), Fraction(prev))])
        else:
            v = ("60", "333")[i % 2] if contrast else rng.choice([x for x in (BPM_INT if integral else BPM_POOL) if x != prev])
        tempo.append([str(b), v])
        prev = v
    charts = []
    for _ in range(n_charts):
        typ = rng.choice(sorted(KEYS_TYPE.values()) if convert else WRITE_TYPES)
        keys = SM_KEYS[typ]
        lead = 0 if convert == "qua" else rng.choice((0, 0, 1, 2, 3))
        used = sorted(rng.sample(range(lead, lead + n_meas), rng.randrange(1, min(4, n_meas) + 1)))
        if contrast or fine_tempo:
            used = sorted(set(used) | {floor(b / 4) for b in starts[1:]})
        free_from = [Fraction(0)] * keys
        objs = []
        if convert == "qua":  # QuaToSM takes #OFFSET from the first object: the domain wants it on the first tempo point
            objs.append(["hits", 0, "0", "0"])
            free_from[0] = MIN_GAP
        for m in used:
            r_m = rng.random()
            fine = (not integral) and r_m < 0.35
            dens = (coarse + FINE) if fine else coarse
            odd_mode = (not integral) and 0.35 <= r_m < 0.55
            if odd_mode:
                # odd denominators that still fit one measure of <= 384 rows (row = num * rows / den must come out exact)
                odd = rng.choice(ODD)
                dens = (odd, odd, rng.choice([c for c in (1, 2, 3, 4, 6, 8, 12) if 4 * odd * c // gcd(odd, c) <= 384]))
            cand = set()
            for _k in range(rng.randrange(2, 9)):
                d = rng.choice(FINE if fine and rng.random() < 0.6 else dens)
                # position relative to the start of the tempo segment that contains it
                p = 4 * m + Fraction(rng.randrange(0, 4 * d), d)
                seg = max(s for s in starts if s <= p) if p >= 0 else Fraction(0)
                q = seg + Fraction(floor((p - seg) * d), d)
                cand.add(q)
            if contrast or fine_tempo:
                cand |= {b + Fraction(1, rng.choice((2, 4, 8, 16))) for b in starts[1:] if floor(b / 4) == m}
            for p in sorted(cand):
                cols = [c for c in range(keys) if free_from[c] <= p]
                rng.shuffle(cols)
                for c in cols[: 1 + (rng.random() < 0.25)]:
                    kind = rng.choice(("hits", "holds") if convert else ("hits", "hits", "holds", "holds", "rolls", "mines", "lifts", "fakes", "keysounds"))
                    ln = Fraction(0)
                    if kind in ("holds", "rolls"):
                        # the tail is also placed at `its segment's start + k/d`
                        for _try in range(6):
                            rough = p + Fraction(rng.randrange(1, 6 * 48), 48)
                            d2 = rng.choice(FINE if fine and rng.random() < 0.5 else (dens if odd_mode else coarse))
                            seg_t = max(s for s in starts if s <= rough)
                            tail = seg_t + Fraction(floor((rough - seg_t) * d2), d2)
                            if tail >= p + MIN_GAP:
                                ln = tail - p
                                break
                        else:
                            kind = "hits"
                    objs.append([kind, c, str(p), str(ln)])
                    free_from[c] = p + ln + MIN_GAP
        if not objs:
            objs.append(["hits", 0, str(Fraction(4 * used[0])), "0"])
        if convert and not any(o[1] == keys - 1 for o in objs):
            # the converters take the chart type from the highest column in use
            objs.append(["hits", keys - 1, str(Fraction(4 * (floor(free_from[keys - 1] / 4) + 1))), "0"])
        charts.append(dict(type=typ, desc=rng.choice(DESC_POOL + DESC_EXTRA), diff=rng.choice(DIFFS), meter=rng.randrange(1, 36), radar=rng.choice(RADARS), objects=objs))
    if not convert and rng.random() < 0.15:
        # a chart without any object: alone, first, last or in the MIDDLE of the set
        charts[rng.randrange(len(charts))]["objects"] = []
    text_pool = TEXT_POOL + TEXT_EXTRA
    header = {attr: rng.choice(text_pool) for attr in TEXT_TAGS.values() if attr not in ("bg_changes", "fg_changes", "display_bpm")}
    header["display_bpm"] = rng.choice(("", "180", "*"))
    if rng.random() < 0.3:
        # attributes that are never set keep the defaults of the class
        for attr in rng.sample(sorted(header), rng.randrange(1, len(header) + 1)):
            del header[attr]
    t0_pool = T0_INT if integral else T0_POOL + T0_EXTRA
    sample_pool = tuple(int(x) for x in SAMPLE_MS) if integral else SAMPLE_MS + SAMPLE_EXTRA
    spec = dict(t0_ms="0" if convert == "bms" else rng.choice(t0_pool), tempo=tempo, charts=charts, header=header, sample_start=rng.choice(sample_pool), sample_length=rng.choice(sample_pool), on_measure=on_measure, contrast=contrast)
    if fine_tempo:
        spec["fine_tempo"] = True
    if rng.random() < 0.2:
        spec["sample_defaults"] = True  # sample_start / sample_length never set
    if len(tempo) > 1 and rng.random() < 0.3:
        order = list(range(len(tempo)))
        rng.shuffle(order)
        spec["tempo_row_order"] = order
    # rows of every list in any order, under any row labels (as sorted() / append(sort=True) / a filter leave them)
    spec["rows"] = dict(notes_order=rng.choice(("time", "time", "shuffled", "reversed")), notes_labels=rng.choice(LABELS), tempo_labels=rng.choice(LABELS), seed=rng.randrange(1 << 30))
    spec["numeric"] = "int" if integral else rng.choice(("float", "float", "numpy"))
    return spec


def _label_list(kind, n):
    if kind == "reversed":
        return list(range(n - 1, -1, -1))
    if kind == "gappy":
        return [5 + 3 * i for i in range(n)]
    if kind == "permuted":
        return [(i + n // 2 + 1) % n for i in range(n)] if n > 1 else [0]
    return list(range(n))


def _spec_numbers(spec):
    """ms_of(beat) and the numeric flavour of the spec: python float (default) / python int / numpy scalars."""
    import numpy as np

    tempo = [(Fraction(b), Fraction(v)) for b, v in spec["tempo"]]
    off_s = -Fraction(spec["t0_ms"]) / 1000
    flavour = spec.get("numeric", "float")

    def ms_of(b):
        t = beat_to_ms(tempo, off_s, b)
        if flavour == "int":
            assert t.denominator == 1, f"int-typed spec with a time that is not a whole ms: {t}"
            return int(t)
        return np.float64(float(t)) if flavour == "numpy" else float(t)

    def num(x, integral=False):
        if flavour == "int" or (integral and flavour != "numpy"):
            return int(x)
        if flavour == "numpy":
            return np.int64(int(x)) if integral else np.float64(float(x))
        return float(x)

    return tempo, ms_of, num


def _dress(lst, rows_spec, n, which, salt):
    """Row labels of a list as other operations leave them (the rows themselves are already in their order)."""
    kind = (rows_spec or {}).get(which, "default")
    if kind != "default" and n:
        lst.df.index = _label_list(kind, n)
    return lst


def _ordered(rows, rows_spec, salt):
    import random

    how = (rows_spec or {}).get("notes_order", "time")
    if how == "reversed":
        return rows[::-1]
    if how == "shuffled":
        rows = list(rows)
        random.Random((rows_spec.get("seed", 0), salt).__repr__()).shuffle(rows)
    return rows


def build_mapset(spec):
    from reamber.sm.SMMap import SMMap
    from reamber.sm.SMMapSet import SMMapSet
    from reamber.sm.lists.SMBpmList import SMBpmList
    from reamber.sm.lists.notes import SMFakeList, SMHitList, SMHoldList, SMKeySoundList, SMLiftList, SMMineList, SMRollList

    lists = dict(hits=SMHitList, holds=SMHoldList, rolls=SMRollList, mines=SMMineList, lifts=SMLiftList, fakes=SMFakeList, keysounds=SMKeySoundList)
    tempo, ms_of, num = _spec_numbers(spec)
    rows_spec = spec.get("rows")

    sms = SMMapSet()
    sms.maps = []
    for ci, ch in enumerate(spec["charts"]):
        m = SMMap()
        m.chart_type, m.description, m.difficulty, m.difficulty_val = ch["type"], ch["desc"], ch["diff"], ch["meter"]
        m.groove_radar = [float(x) for x in ch["radar"].split(",")]
        for kind, cls in lists.items():
            rows = []
            for k, c, p, ln in ch["objects"]:
                if k != kind:
                    continue
                p, ln = Fraction(p), Fraction(ln)
                row = dict(offset=ms_of(p), column=num(c, True))
                if kind in ("holds", "rolls"):
                    row["length"] = ms_of(p + ln) - ms_of(p)
                rows.append(row)
            rows = _ordered(rows, rows_spec, (ci, kind))
            setattr(m, kind, _dress(cls.from_dict(rows), rows_spec, len(rows), "notes_labels", (ci, kind)))
        metros = spec.get("metronomes") or [4] * len(tempo)
        bpm_rows = [dict(offset=ms_of(b), bpm=num(v), metronome=num(metros[i])) for i, (b, v) in enumerate(tempo)]
        order = spec.get("tempo_row_order")
        if order and len(order) == len(bpm_rows):
            bpm_rows = [bpm_rows[i] for i in order]  # a chart is a set of timed objects: rows in any order
        m.bpms = _dress(SMBpmList.from_dict(bpm_rows), rows_spec, len(bpm_rows), "tempo_labels", (ci, "bpms"))
        sms.maps.append(m)
    for attr, val in spec["header"].items():
        setattr(sms, attr, val)
    sms.offset = ms_of(Fraction(0))
    if not spec.get("sample_defaults"):
        sms.sample_start, sms.sample_length = num(spec["sample_start"]), num(spec["sample_length"])
    return sms


def build_converted(spec, source):
    """The mapset a *ToSM converter makes of a source chart built in memory from the spec (one chart: hits, holds,
    tempo list; the converter sets the header it knows, the chart type, #OFFSET and the sample window)."""
    tempo, ms_of, num = _spec_numbers(spec)
    rows_spec = spec.get("rows")
    ch = spec["charts"][0]
    if source == "osu":
        from reamber.algorithms.convert.OsuToSM import OsuToSM as conv
        from reamber.osu.OsuMap import OsuMap as M
        from reamber.osu.lists.OsuBpmList import OsuBpmList as B
        from reamber.osu.lists.notes.OsuHitList import OsuHitList as H
        from reamber.osu.lists.notes.OsuHoldList import OsuHoldList as L
    elif source == "qua":
        from reamber.algorithms.convert.QuaToSM import QuaToSM as conv
        from reamber.quaver.QuaMap import QuaMap as M
        from reamber.quaver.lists.QuaBpmList import QuaBpmList as B
        from reamber.quaver.lists.notes.QuaHitList import QuaHitList as H
        from reamber.quaver.lists.notes.QuaHoldList import QuaHoldList as L
    else:
        from reamber.algorithms.convert.BMSToSM import BMSToSM as conv
        from reamber.bms.BMSMap import BMSMap as M
        from reamber.bms.lists.BMSBpmList import BMSBpmList as B
        from reamber.bms.lists.notes.BMSHitList import BMSHitList as H
        from reamber.bms.lists.notes.BMSHoldList import BMSHoldList as L
    src = M()
    hits = [dict(offset=ms_of(Fraction(p)), column=num(c, True)) for k, c, p, ln in ch["objects"] if k == "hits"]
    holds = [dict(offset=ms_of(Fraction(p)), column=num(c, True), length=ms_of(Fraction(p) + Fraction(ln)) - ms_of(Fraction(p))) for k, c, p, ln in ch["objects"] if k == "holds"]
    hits, holds = _ordered(hits, rows_spec, "hits"), _ordered(holds, rows_spec, "holds")
    src.hits = _dress(H.from_dict(hits), rows_spec, len(hits), "notes_labels", "hits")
    src.holds = _dress(L.from_dict(holds), rows_spec, len(holds), "notes_labels", "holds")
    bpm_rows = [dict(offset=ms_of(b), bpm=num(v)) for b, v in tempo]
    order = spec.get("tempo_row_order")
    if order and len(order) == len(bpm_rows):
        bpm_rows = [bpm_rows[i] for i in order]
    src.bpms = _dress(B.from_dict(bpm_rows), rows_spec, len(bpm_rows), "tempo_labels", "bpms")
    title, artist = spec["header"].get("title", ""), spec["header"].get("artist", "")
    if source == "bms":
        src.title, src.artist, src.version = b"Escapes", b"Camellia", b"v1"  # BMSToSM transliterates: plain ASCII only
    else:
        src.title, src.artist = title, artist
    if source == "osu":
        src.preview_time = int(spec["sample_start"])
    if spec.get("src_svs") and source in ("osu", "qua"):
        # dimension 17: another kind of list in the source, its first element ON the first tempo point, its last after every
        # object and tempo point (StepMania has no scroll velocities: nothing of them may reach the mapset)
        if source == "osu":
            from reamber.osu.lists.OsuSvList import OsuSvList as S
        else:
            from reamber.quaver.lists.QuaSvList import QuaSvList as S
        last = max([Fraction(b) for b, _ in spec["tempo"]] + [Fraction(p) + Fraction(ln) for _, _, p, ln in ch["objects"]])
        src.svs = S.from_dict([dict(offset=ms_of(Fraction(0)), multiplier=num(0.5)), dict(offset=ms_of(last + 3), multiplier=num(2))])
    out = conv.convert(src)
    return out[0] if isinstance(out, list) else out


def _earlier_write(ms, how):
    """An earlier call of the observable function on the same object (its result is not looked at)."""
    if how == "write_file":
        fd, path = tempfile.mkstemp(suffix=".sm")
        os.close(fd)
        try:
            ms.write_file(path)
        finally:
            os.unlink(path)
    else:
        ms.write()


def _end_of_chart(m):
    tempo = map_tempo(m)
    end = tempo[-1][0]
    for kind, rows in map_objects(m).items():
        for _, t, ln in rows:
            end = max(end, t + ln)
    return tempo, end


def apply_edit(ms, edit):
    """A change of the SAME mapset through public operations that keeps it inside the domain (one shared tempo list,
    #OFFSET on the first tempo point, objects on the snap grid of the tempo list)."""
    from reamber.sm.SMHit import SMHit

    op = edit["op"]
    if op == "shift":
        d = edit["by"]
        for m in ms.maps:
            if edit["how"] == "stack":
                s = m.stack()
                s.offset += d
            else:
                for name in list(m.objs):  # the lists the chart HAS
                    lst = getattr(m, name)
                    if edit["how"] == "list_property":
                        lst.offset += d
                    else:
                        df = lst.df.copy()
                        df["offset"] = df["offset"] + d
                        setattr(m, name, type(lst)(df))
        ms.offset = ms.offset + d
    elif op == "scale_bpm":
        for m in ms.maps:
            if edit["how"] == "stack":
                s = m.stack()
                s.bpm *= edit["by"]
            else:
                m.bpms.bpm *= edit["by"]
    elif op == "append_hit":
        # one more hit, whole measures of the last tempo segment after everything the charts hold
        ends = [_end_of_chart(m) for m in ms.maps]
        tempo, end = ends[0][0], max(e for _, e in ends)
        t_last, v_last = tempo[-1]
        measure = 4 * 60000 / v_last
        t = t_last + (floor((end - t_last) / measure + 1e-9) + 1) * measure
        m = ms.maps[edit["chart"] % len(ms.maps)]
        if str(m.hits.df["offset"].dtype).startswith("int") and float(t).is_integer():
            t = int(t)
        m.hits = m.hits.append(SMHit(t, 0), sort=bool(edit.get("sort")))
    else:
        raise ValueError(op)


def make_mapset(case, notes=None):
    """The in-memory mapset of a case (origin read | built | converted, then selectable, then - optionally after an
    earlier write - rate, then - optionally after an earlier write - an edit in place).  `notes`: a list that receives
    (what, detail) when an EARLIER write raises."""
    from reamber.sm.SMMapSet import SMMapSet

    if case["origin"] == "read":
        ms = SMMapSet.read(case["text"] if "text" in case else render(case["spec"]))
    elif case["origin"] == "converted":
        ms = build_converted(case["spec"], case["source"])
    else:
        ms = build_mapset(case["spec"])
    for attr, val in (case.get("header_colon") or {}).items():
        setattr(ms, attr, val)
    af = case.get("all_fields")
    if af:
        for attr, val in af["header"].items():
            setattr(ms, attr, val)
        ms.sample_start, ms.sample_length = af["sample_start"], af["sample_length"]
        for m, ch in zip(ms.maps, af["charts"]):
            m.description, m.difficulty, m.difficulty_val, m.groove_radar = ch["desc"], ch["diff"], ch["meter"], list(ch["radar"])
    ms.selectable = case["selectable"]
    pre = None
    if abs(float(ms.offset) - map_tempo(ms.maps[0])[0][0]) > 1e-9 or any(map_tempo(m) != map_tempo(ms.maps[0]) for m in ms.maps):
        pre = "generated mapset outside the domain (#OFFSET != first tempo point, or charts with different tempo lists)"
    try:
        step = "before rate()"
        if case.get("before") and not pre:
            _earlier_write(ms, case["before"])
        if case.get("rate"):
            ms = ms.rate(case["rate"])
        edit = case.get("edit")
        if edit and not pre:
            step = "before the edit"
            if edit.get("after"):
                _earlier_write(ms, edit["after"])
            apply_edit(ms, edit)
    except Exception as ex:
        if notes is None or step == "before rate()" and not case.get("before"):
            raise
        notes.append(("write_completes", f"an earlier {case.get('before') if step == 'before rate()' else edit.get('after')}() {step} / the edit raised {type(ex).__name__}: {ex}"))
    return ms, pre


# ============================================================================= tolerance model (from the statement)


def _lcm(a, b):
    return a * b // gcd(a, b)


class Timeline:
    """The in-memory tempo list [(ms, bpm)] with 4-beat measures counted from its first point."""

    def __init__(self, tempo):
        self.t = [x for x, _ in tempo]
        self.v = [x for _, x in tempo]
        self.b = [0.0]
        for i in range(1, len(tempo)):
            self.b.append(self.b[-1] + (self.t[i] - self.t[i - 1]) * self.v[i - 1] / 60000)
        self.on_measure = all(abs(x / 4 - round(x / 4)) <= 1e-7 for x in self.b)

    def seg(self, t):
        k = 0
        for i in range(len(self.t)):
            if self.t[i] <= t + 1e-9:
                k = i
        return k

    def beat(self, t):
        k = self.seg(t)
        return self.b[k] + (t - self.t[k]) * self.v[k] / 60000

    def on_snap_grid(self, t):
        """The position is `segment start + whole beats + p/q beat` with q <= 96 (what the Snapper can represent)."""
        k = self.seg(t)
        f = ((t - self.t[k]) * self.v[k] / 60000) % 1
        return min(abs(float(Fraction(f).limit_denominator(96)) - f), 1 - f) <= 1e-6

    def grid_tol(self, t, wide=False):
        """1/96 beat at the tempo of t's segment (wide: at the slowest of that segment and its two neighbours)."""
        k = self.seg(t)
        ks = [k] if not wide else [j for j in (k - 1, k, k + 1) if 0 <= j < len(self.v)]
        return 60000 / min(self.v[j] for j in ks) / 96


def exact_measures(tl, times):
    """Measures (index from the first tempo point) whose object positions can all be written exactly: every tempo
    change on a measure line, every position p/q of a beat with q <= 96, and lcm(4q) <= 384 rows."""
    if not tl.on_measure:
        return set()
    per = {}
    for t in times:
        b = tl.beat(t)
        fr = Fraction(b).limit_denominator(96)
        ok = abs(float(fr) - b) <= 1e-6
        m = floor(fr / 4) if ok else floor(b / 4)
        L, good = per.get(m, (4, True))
        per[m] = (_lcm(L, 4 * fr.denominator) if ok else L, good and ok)
    return {m for m, (L, good) in per.items() if good and L <= 384}


# ============================================================================= one case


def _header_written(snap, d):
    bad = []
    for tag, attr in TEXT_TAGS.items():
        if d["header"].get(tag, "") != snap["text"][attr]:
            bad.append((attr, f"#{tag} in the text {d['header'].get(tag)!r}, mapset {snap['text'][attr]!r}"))
    if abs(float(-d["offset_s"] * 1000) - snap["offset"]) > 1e-6:
        bad.append(("offset", f"#OFFSET {d['header'].get('OFFSET')!r} puts beat 0 at {float(-d['offset_s'] * 1000)} ms, mapset.offset {snap['offset']}"))
    for tag, attr, val in (("SAMPLESTART", "sample_start", d["sample_start_ms"]), ("SAMPLELENGTH", "sample_length", d["sample_length_ms"])):
        if val is None or abs(float(val) - snap[attr]) > 1e-6:
            bad.append((attr, f"#{tag} {d['header'].get(tag)!r}, mapset.{attr} {snap[attr]} ms"))
    sel = True if "SELECTABLE" not in d["header"] else d["selectable"]  # StepMania's default is YES
    if sel is not snap["selectable"]:
        bad.append(("selectable", f"#SELECTABLE {d['header'].get('SELECTABLE', '<no tag>')!r}, mapset.selectable {snap['selectable']}"))
    return bad


def _header_read_back(snap, r):
    bad = []
    for attr, val in snap["text"].items():
        if getattr(r, attr) != val:
            bad.append((attr, f"{attr}: written {val!r}, read back {getattr(r, attr)!r}"))
    for attr in ("offset", "sample_start", "sample_length"):
        got = getattr(r, attr)
        if got is None or abs(float(got) - snap[attr]) > 1e-6:
            bad.append((attr, f"{attr}: written {snap[attr]} ms, read back {got!r}"))
    if r.selectable is not snap["selectable"]:
        bad.append(("selectable", f"selectable: written {snap['selectable']}, read back {r.selectable}"))
    return bad


def _compare_charts(snap, d, sfx):
    fails = []
    if len(snap["charts"]) != len(d["charts"]):
        return [("chart_count", f"mapset has {len(snap['charts'])} charts, the text {len(d['charts'])} #NOTES tokens")]
    for k, (sc, dc) in enumerate(zip(snap["charts"], d["charts"])):
        want_h = sc["header"]
        got_h = dict(chart_type=dc["chart_type"], description=dc["description"], difficulty=dc["difficulty"], meter=dc["meter"], groove_radar=[float(x) for x in dc["groove_radar"]])
        if got_h != want_h:
            fails.append(("chart_header_fields", f"chart {k}: mapset {want_h}, text {got_h}"))
        tl = Timeline(sc["tempo"])
        tl_text = Timeline([(float(t), float(v)) for t, v in dc["tempo"]])
        for i, (t, v) in enumerate(sc["tempo"]):
            allowed = 60000 / min(tl.v[max(i - 1, 0)], v) / 96 + TOL_MS
            near = [x for x, w in zip(tl_text.t, tl_text.v) if abs(w - v) <= 1e-9 * v]
            if not near or min(abs(x - t) for x in near) > allowed:
                # Known finding N5 (#BPMS beats carry two decimals) in this clause: when the text's entry sits exactly where
                # the two-decimal beats of all changes up to this one put it, the deviation is that finding and is reported
                # under an id of its own, so that every OTHER displacement of a tempo change stays in the plain clause.
                t2 = tl.t[0] + sum((float(f"{tl.b[j]:.2f}") - float(f"{tl.b[j - 1]:.2f}")) * 60000 / tl.v[j - 1] for j in range(1, i + 1))
                n5 = bool(near) and min(abs(x - t2) for x in near) <= TOL_MS + 1e-6 * max(1.0, abs(t2))
                fails.append(("tempo_changes_within_grid" + (".two_decimal_bpms_beats" if n5 else "") + sfx, f"chart {k}: tempo point {i} of the mapset, {v} bpm at {t} ms (beat {round(tl.b[i], 5)}): " + (f"the nearest #BPMS entry with that bpm is at {min(near, key=lambda x: abs(x - t))} ms, allowed {round(allowed, 4)} ms" if near else "no #BPMS entry with that bpm") + f"; #BPMS denotes {list(zip(tl_text.t, tl_text.v))[:6]}"))
                break
        want, got = sc["objects"], den_objects(dc)
        times = [t for kind in NOTE_KINDS for _, t, ln in want[kind] for t in ((t, t + ln) if kind in ("holds", "rolls") else (t,))]
        exact = exact_measures(tl, times)
        done = set()
        for kind in NOTE_KINDS:
            w, g = want[kind], got[kind]
            if [x[0] for x in w] != [x[0] for x in g]:
                fails.append(("objects_kind_and_column", f"chart {k} {kind}: columns in the mapset {[x[0] for x in w]}, in the text {[x[0] for x in g]}"))
                continue
            for (wc, wt, wl), (gc, gt, gl) in zip(w, g):
                ends = [("", wt, float(gt))] + ([("tail of ", wt + wl, float(gt + gl))] if kind in ("holds", "rolls") else [])
                for label, a, b in ends:
                    if not tl.on_snap_grid(a):
                        continue  # not representable on the snap grid: outside the property's domain, nothing asserted
                    bt = tl.beat(a)
                    is_exact = floor(round(bt, 6) / 4) in exact
                    # local tempo: where the object is in the mapset's tempo list, or where the text has put it
                    tol = TOL_MS if is_exact else max(tl.grid_tol(a), tl_text.grid_tol(b)) + TOL_MS
                    what = ("object_times_exact" if is_exact else "object_times_within_grid") + sfx
                    if not abs(a - b) <= tol and what not in done:
                        done.add(what)
                        fails.append((what, f"chart {k} {label}{kind} column {wc}: mapset {a} ms (beat {round(bt, 5)} of the tempo list), text {b} ms, difference {round(b - a, 4)} ms, allowed {round(tol, 4)} ms"))
    return fails


def same_read_within_grid(a, b):
    """Two read results agree in everything, times to within 1/96 beat at the local tempo of `a` (None / description)."""
    flat = same_read(a, b, tol=float("inf"), tempo=False)  # header text, chart headers, counts, columns
    if flat:
        return flat
    for attr in ("offset", "sample_start", "sample_length"):
        if abs(getattr(a, attr) - getattr(b, attr)) > 1e-6:
            return f"{attr}: {getattr(a, attr)!r} vs {getattr(b, attr)!r}"
    for k, (m1, m2) in enumerate(zip(a.maps, b.maps)):
        tl = Timeline(map_tempo(m1))
        o1, o2 = map_objects(m1), map_objects(m2)
        pairs = []
        for i, (x, _) in enumerate(map_tempo(m1)):  # every tempo point is there again (the second read may add points)
            pairs.append((f"tempo point {i}", x, min((y for y, _ in map_tempo(m2)), key=lambda y: abs(y - x))))
        for kind in NOTE_KINDS:
            for x, y in zip(o1[kind], o2[kind]):
                pairs.append((f"{kind} column {x[0]}", x[1], y[1]))
                pairs.append((f"tail of {kind} column {x[0]}", x[1] + x[2], y[1] + y[2]))
        for label, x, y in pairs:
            if abs(x - y) > tl.grid_tol(x, wide=True) + TOL_MS:
                return f"chart {k} {label}: {x} ms vs {y} ms, allowed {round(tl.grid_tol(x, wide=True), 4)} ms"
    return None


# another mapset, built and written between two writes of the case's mapset (results must not depend on it)
OTHER_SPEC = dict(
    t0_ms="777",
    tempo=[["0", "200"], ["4", "90"]],
    charts=[
        # empty measures 0 and 2, objects of several kinds, two key counts
        dict(type="dance-solo", desc="other", diff="Hard", meter=9, radar="1,1,1,1,1", objects=[["hits", 5, "4", "0"], ["holds", 2, "9/2", "3/2"], ["mines", 0, "25/4", "0"], ["rolls", 4, "13", "1/3"]]),
        dict(type="dance-threepanel", desc="other 2", diff="Easy", meter=2, radar="0,0,0,0,0", objects=[["lifts", 2, "8", "0"], ["fakes", 0, "65/7", "0"]]),
    ],
    header=dict(title="Other", artist="Somebody else", music="other.ogg"),
    sample_start=4321.0,
    sample_length=9000.0,
    on_measure=True,
    contrast=False,
)


def _fill_empty_charts(text, snap):
    """The text with the empty data field of every chart that holds no object in memory replaced by one measure of
    four empty rows (an empty data field is a chart without rows for StepMania; den_sm wants 4k > 0 rows per measure)."""
    out, pos, k = [], 0, 0
    while True:
        i = text.find("#NOTES:", pos)
        if i < 0:
            break
        j = text.find(";", i)
        if j < 0:
            break
        fields = text[i:j].split(":")
        if k < len(snap["charts"]) and len(fields) == 7 and not fields[6].strip() and not any(snap["charts"][k]["objects"][kind] for kind in NOTE_KINDS):
            keys = SM_KEYS.get(fields[1].strip(), 4)
            fields[6] = "\n" + "\n".join(["0" * keys] * 4) + "\n"
        out.append(text[pos:i] + ":".join(fields))
        pos = j
        k += 1
    return "".join(out) + text[pos:]


def _text_clauses(text, snap, sfx):
    """The clauses about the written text, interpreted by the StepMania rules."""
    fails = []
    try:
        d = den_sm(_fill_empty_charts(text, snap))
    except SMFormatError as ex:
        return [("text_is_valid_sm." + ex.code, str(ex))]
    for code in sorted({c for c, _ in d["problems"]}):
        fails.append(("text_is_valid_sm." + code, "; ".join(m for c, m in d["problems"] if c == code)[:300]))
    if d["stops"]:
        fails.append(("no_stops_written", f"#STOPS:{d['header'].get('STOPS')}"))
    for attr, msg in _header_written(snap, d):
        fails.append(("header_written." + attr, msg))
    return fails + _compare_charts(snap, d, sfx)


def _snapshot_diff(a, b):
    if a == b:
        return None
    for k in a:
        if k != "charts" and a[k] != b[k]:
            return f"{k}: {a[k]!r} before, {b[k]!r} after write()"
    for i, (x, y) in enumerate(zip(a["charts"], b["charts"])):
        for k in x:
            if k == "types" and x[k] != y[k]:
                for name in x[k]:
                    if x[k][name] != y[k].get(name):
                        return f"chart {i}, types of {name}: {x[k][name]} before, {y[k].get(name)} after write()"
            if x[k] != y[k]:
                return f"chart {i} {k}: {str(x[k])[:200]} before, {str(y[k])[:200]} after write()"
    return f"{len(a['charts'])} charts before, {len(b['charts'])} after write()"


def run_write_case(case):
    """Real write() of the case's mapset against den_sm and the re-read clauses: [(what, detail)]."""
    from pathlib import Path

    from reamber.sm.SMMapSet import SMMapSet

    fails = []
    with quiet():
        ms, pre = make_mapset(case, fails)
        if pre:
            raise AssertionError(pre)
        if fails:
            return fails
        rated = bool(case.get("rate"))
        sfx = ".rate" if rated else ""
        snap = snapshot(ms)
        if rated and abs(snap["offset"] - snap["charts"][0]["tempo"][0][0]) > 1e-6:
            fails.append(("rated_offset_is_first_tempo_point", f"after rate({case['rate']}): mapset.offset {snap['offset']} ms, first tempo point at {snap['charts'][0]['tempo'][0][0]} ms"))
        try:
            text = ms.write()
        except Exception as ex:
            return fails + [("write_completes", f"write() raised {type(ex).__name__}: {ex}")]
        # ---- the text, by the StepMania rules
        fails += _text_clauses(text, snap, sfx)
        # ---- the mapset after writing; a second write (after another mapset has been written)
        diff = _snapshot_diff(snap, snapshot(ms))
        if diff:
            fails.append(("write_leaves_mapset_unchanged", diff))
        elif case.get("sequence"):
            try:
                if case["sequence"] == "other_mapset_between":
                    build_mapset(OTHER_SPEC).write()
                text2 = ms.write()
            except Exception as ex:
                text2 = None
                fails.append(("second_write_denotes_the_mapset", f"raised {type(ex).__name__}: {ex}"))
            if text2 is not None and text2 != text:
                held = {w for w, _ in fails}
                new = [(w, d) for w, d in _text_clauses(text2, snap, sfx) if w not in held]
                if new:
                    fails.append(("second_write_denotes_the_mapset", f"{new[0][0]} - {new[0][1]}"))
        # ---- read back by reamber
        try:
            r1 = SMMapSet.read(text)
        except Exception as ex:
            return fails + [("reread_completes", f"read(write(ms)) raised {type(ex).__name__}: {ex}")]
        colon = case.get("header_colon") or {}
        for attr, msg in _header_read_back(snap, r1):
            fails.append((("header_read_back_colon." if attr in colon else "header_read_back.") + attr, msg))
        try:
            r2 = SMMapSet.read(r1.write())
        except Exception as ex:
            return fails + [("reread_completes", f"read(write(read(write(ms)))) raised {type(ex).__name__}: {ex}")]
        if Timeline(snap["charts"][0]["tempo"]).on_measure:
            diff = same_read(r1, r2)
            if diff:
                fails.append(("reread_is_stable", diff))
        else:
            diff = same_read_within_grid(r1, r2)
            if diff:
                fails.append(("reread_is_stable_within_grid", diff))
        if case.get("entry_points"):
            fd, path = tempfile.mkstemp(suffix=".sm")
            os.close(fd)
            try:
                # what the path holds before: nothing / an empty file / a longer / a shorter / another mapset's file
                before = case.get("file_before", "empty")
                if before is None:
                    os.unlink(path)
                elif before != "empty":
                    old = dict(longer=text + "\n" + text + "// " + "x" * 4000 + "\n", shorter=text[: len(text) // 3])[before] if before != "other_mapset" else build_mapset(OTHER_SPEC).write()
                    with open(path, "w", encoding="utf8", newline="") as f:
                        f.write(old)
                    if before == "other_mapset":
                        SMMapSet.read_file(path)  # the path has been read before, too
                ms.write_file(Path(path) if case["entry_points"] == "Path" else path)
                with open(path, "r", encoding="utf8", newline="") as f:
                    stored = f.read()
                rf, rf_err = None, None
                if stored == text and "file_before" in case:
                    try:
                        rf = SMMapSet.read_file(Path(path) if case["entry_points"] == "Path" else path)
                    except Exception as ex:
                        rf_err = f"read_file raised {type(ex).__name__}: {ex}"
            finally:
                if os.path.exists(path):
                    os.unlink(path)
            if stored != text:
                fails.append(("write_file_equals_write", f"{len(stored)} characters stored, write() has {len(text)}" + (f" (the path held {before!r} before)" if before != "empty" else "")))
            elif "file_before" in case:
                diff = rf_err or same_read(r1, rf)
                if diff:
                    fails.append(("written_file_reads_back", f"read_file(path) against read(write()): {diff}"))
    return fails


# ============================================================================= the bounded stand-in


def _nontrivial(case):
    if case["origin"] == "read":
        return True
    return sum(len(c["objects"]) for c in case["spec"]["charts"]) >= 3


def gen_write_case(rng, i):
    r = rng.random()
    case = dict(origin="read" if r < 0.3 else ("converted" if r < 0.45 else "built"))
    if case["origin"] == "read":
        spec = gen_spec(rng, "plain", types=WRITE_TYPES)
        while not spec["charts"]:  # a file without charts has no tempo list to share: outside the domain
            spec = gen_spec(rng, "plain", types=WRITE_TYPES)
    elif case["origin"] == "converted":
        case["source"] = rng.choice(CONVERT_SOURCES)
        spec = gen_built(rng, integral=rng.random() < 0.3, convert=case["source"])
    else:
        spec = gen_built(rng, integral=rng.random() < 0.2)
    case.update(selectable=rng.random() >= 0.4, rate=rng.choice(RATES) if rng.random() < 0.4 else None, entry_points=rng.choice(("str", "Path")) if i % 4 == 0 else False, spec=spec)
    case["sequence"] = rng.choice((None, None, "write_twice", "other_mapset_between"))
    if case["origin"] == "built" and rng.random() < 0.1:
        attrs = [a for a in TEXT_TAGS.values() if a not in ("bg_changes", "fg_changes", "display_bpm")]
        case["header_colon"] = {a: rng.choice(TEXT_COLON) for a in rng.sample(attrs, rng.choice((1, 1, 2)))}
    _add_history(case)
    _add_all_fields(case)
    return case


def _sub_rng(case, salt):
    """A stream of its own per case and purpose, a function of the case drawn from rep.rng (the cases of earlier versions of
    the generator stay what they were)."""
    import json
    import random

    return random.Random(salt + json.dumps({k: v for k, v in case.items() if k != "all_fields"}, sort_keys=True, default=str))


def _add_all_fields(case):
    """Dimensions 14 and 16 on top of the case: every header attribute, the sample window and every chart header field set
    (by plain attribute assignment on the finished mapset, whatever its origin) to non-default values that differ from
    every sibling; `permuted`: the plain texts in another assignment; `special`: four of them values that are special
    elsewhere in the format."""
    sub = _sub_rng(case, "all_fields")
    if sub.random() >= 0.3 or case.get("header_colon"):
        return
    mode = sub.choice(("plain", "permuted", "permuted", "special"))
    header = dict(ALL_HEADER)
    if mode != "plain":
        vals = [header[a] for a in PLAIN_ATTRS]
        sub.shuffle(vals)
        header.update(zip(PLAIN_ATTRS, vals))
    if mode == "special":
        header.update(zip(sub.sample(PLAIN_ATTRS, 4), sub.sample(SPECIAL_TEXT, 4)))
        header["display_bpm"] = sub.choice(("*", "0", "120"))
    n = 1 if case["origin"] == "converted" else len(case["spec"]["charts"])
    r = sub.randrange(6)
    charts = [dict(desc=f"desc {k + 1} of {n}", diff=DIFFS[(k + r) % len(DIFFS)], meter=11 + 3 * k, radar=[k + 0.125, 0.25, 0.5, 0.75, 0.875]) for k in range(n)]
    integral = case["spec"].get("numeric") == "int"
    case["all_fields"] = dict(mode=mode, header=header, sample_start=12345 if integral else 12345.5, sample_length=6789 if integral else 6789.25, charts=charts)


def gen_fine_tempo_case(case, force=False):
    """Dimension 18: for the first 8 and 15% of the other cases one MORE case (a function of that case): a mapset built in memory, or made by the
    osu / Quaver -> SM converters, whose tempo changes sit at whole beat + p/q, q from FINE_TEMPO_DENS."""
    sub = _sub_rng(case, "fine_tempo")
    if sub.random() >= 0.15 and not force:
        return None
    source = sub.choice((None, None, None, "osu", "qua"))
    extra = dict(origin="converted" if source else "built")
    if source:
        extra["source"] = source
    extra.update(selectable=sub.random() >= 0.4, rate=sub.choice(RATES) if sub.random() < 0.3 else None, entry_points=False, spec=gen_built(sub, convert=source, fine_tempo=True), sequence=None)
    if source:
        extra["spec"]["src_svs"] = True
    _add_history(extra)
    _add_all_fields(extra)
    return extra


def _add_history(case):
    """Dimensions 10-12 on top of the case (every choice is a function of the case drawn from rep.rng, so the cases of
    earlier versions of this generator stay what they were): earlier calls of write on the same object, a legitimate
    change after a write, what the target path holds, rates from the whole range."""
    import json
    import random

    sub = random.Random(json.dumps(case, sort_keys=True, default=str))
    integral = case["spec"].get("numeric") == "int"
    if case["rate"] and not integral and sub.random() < 0.15:
        case["rate"] = sub.choice(RATES_WIDE)
    if case["rate"] and sub.random() < 0.6:
        case["before"] = sub.choice(("write", "write", "write_file"))
    if sub.random() < 0.35:
        op = sub.choice(("shift", "shift", "scale_bpm", "append_hit"))
        edit = dict(op=op, after=sub.choice(("write", "write", "write", "write_file", None)))
        if op == "shift":
            edit.update(by=sub.choice([x for x in SHIFTS_MS if not integral or float(x).is_integer()]), how=sub.choice(SHIFT_HOW))
            if not integral:
                edit["by"] = float(edit["by"])
        elif op == "scale_bpm":
            edit.update(by=2 if integral else sub.choice((2.0, 2.0, 0.5, 3.0)), how=sub.choice(("stack", "list_property")))
        else:
            edit.update(chart=sub.randrange(3), sort=sub.random() < 0.5)
        case["edit"] = edit
    if case["entry_points"]:
        case["file_before"] = sub.choice(FILE_BEFORE)


@bounded("C03", note="in-memory mapsets (read from generated .sm files, built list by list, made by the osu / Quaver / BMS -> SM converters; optionally rated, selectable False/True) written by the real SMMapSet.write and interpreted by the exact-rational format interpreter den_sm; header read-back and re-read stability through the real reader; mapset unchanged by writing, second write after another mapset")
def sm_write_vs_interpreter(rep):
    rng = rep.rng
    N = rep.n(150, 2000)
    rep.bound = (
        f"{N} seeded mapsets: 30% read from a generated file (1-3 charts, rows {{4..192}}, 0-4 tempo changes incl. mid-measure, `#STOPS:;`), 55% built in memory "
        "(1-3 charts sharing 1-4 tempo points, half of them with every change on a measure line, half anywhere on the grid - of these 40% alternate 60 / 333 bpm with an object shortly after each change; objects of all 7 kinds at segment start + k/d beats, "
        f"d from {list(COARSE)} and, in 35% of the measures, also {list(FINE)} so that the measure needs > 384 rows, in 20% of the measures one of {list(ODD)} with one small denominator so that the measure has 20..384 rows; 0-3 leading and intermediate empty measures; in 15% one chart (alone / first / middle / last) without any object; "
        "rows of every note list in time order / shuffled / reversed and tempo rows in any order (30%), row labels of note and tempo lists default / reversed / gappy / permuted; 20% with whole-ms times built from python ints (int64 columns), "
        f"a third of the others from numpy scalars; #OFFSET from {list(T0_POOL + T0_EXTRA)}; header text incl. non-ASCII, tab / NBSP / U+3000, '#', '=', ','; in 30% some header attributes (20%: the sample window) left at the class defaults; "
        f"in 10% one or two header texts with a ':'), 15% made by {list(CONVERT_SOURCES)} -> SM converters from a source chart built in memory (3 / 4 / 6 / 7 / 8 keys, hits and holds); "
        f"40% of all then rated by one of {list(RATES)}; selectable False in 40%; chart types {list(WRITE_TYPES)}; every case: the mapset compared before / after write(); 50%: a second write(), half of them after another mapset was built and written; "
        "25%: write_file with a str / pathlib.Path, onto a path that does not exist / holds an empty / a longer / a shorter file / another mapset's file that has been read from there, then read_file of it; "
        f"HISTORY of the object: 60% of the rated ones were written (write / write_file) BEFORE rate(); 35% of all are CHANGED IN PLACE before the observed write, 80% of those after an earlier write of the same object "
        f"(all times moved by one of {list(SHIFTS_MS)} ms through stack().offset / every list's offset property / newly assigned lists, together with #OFFSET; every bpm scaled by 2 / 0.5 / 3 through the stack / the list property; "
        f"a hit appended whole measures after the end); 15% of the rated ones with a rate from {[round(x, 4) for x in RATES_WIDE]}; "
        "ALL FIELDS (30%, every origin): all 16 header text attributes incl. bg / fg changes, display bpm, lyrics path, cd title, the sample window and every chart's description / difficulty / meter / five radar values set to non-default values that all differ "
        f"(a quarter of them with four header texts from {list(SPECIAL_TEXT)}: values that are special elsewhere in the format); the before / after write() comparison includes every column's dtype, the row labels' dtype and every attribute's type; "
        f"FINE TEMPO GRID: for the first 8 and 15% of the other cases one more mapset (built, or made by OsuToSM / QuaToSM; 30% rated) with 2-4 tempo points, every change at whole beat + p/q, q from {list(FINE_TEMPO_DENS)}, neighbouring tempos >= 1.5 : 1, an object 1/2 .. 1/16 beat after every change"
    )
    rep.rule = "a case is one mapset with its history (earlier writes, rate, edits in place) and the observed write; every clause is about the mapset as it is at the observed write; non-trivial when read from a file or holding at least 3 objects"
    kinds = {}

    def one(case):
        origin, spec = case["origin"], case["spec"]
        key = origin + ("+rate" if case["rate"] else "") + ("" if origin == "read" else ("/on_measure" if spec["on_measure"] else "/off_measure"))
        kinds[key] = kinds.get(key, 0) + 1
        for flag, on in (("empty_chart", origin != "read" and any(not c["objects"] for c in spec["charts"])), ("int_typed", spec.get("numeric") == "int"), ("header_colon", bool(case.get("header_colon"))), ("rows_not_in_time_order", origin != "read" and spec["rows"]["notes_order"] != "time"), ("labels_not_default", origin != "read" and (spec["rows"]["notes_labels"] != "default" or spec["rows"]["tempo_labels"] != "default")),
                         ("written_before_rate", bool(case.get("before"))), ("edited_after_a_write", bool((case.get("edit") or {}).get("after"))), ("edited_" + (case.get("edit") or {}).get("op", ""), bool(case.get("edit"))),
                         ("file_before_" + str(case.get("file_before")), "file_before" in case), ("rate_wide", case["rate"] in RATES_WIDE),
                         ("all_fields_" + (case.get("all_fields") or {}).get("mode", ""), bool(case.get("all_fields"))), ("fine_tempo", origin != "read" and bool(spec.get("fine_tempo")))):
            if on:
                kinds[flag] = kinds.get(flag, 0) + 1
        rep.case(case, nontrivial=_nontrivial(case))
        fails = run_write_case(case)
        if fails:
            full = dict(case)
            if origin == "read":
                full["text"] = render(spec)
            for what, det in fails:
                rep.fail(what, full, det)

    for i in range(N):
        if rep.out_of_time(35, 600):
            break
        case = gen_write_case(rng, i)
        one(case)
        extra = gen_fine_tempo_case(case, force=i < 8)
        if extra:
            one(extra)
    rep.extra["origins"] = kinds


@replayer("sm_write_vs_interpreter")
def _replay(case, what):
    hit = [d for w, d in run_write_case(case) if w == what]
    return (bool(hit), hit[0] if hit else "passes")
