"""C14 bounded stand-in: query, generate, convert and write operations never modify their inputs.

Inputs: per game three basic charts and two sets (`_specs`) plus three charts and a set for the dimensions those hold fixed
(`_more_specs`: int-typed columns, ties, time 0 / negative / huge times, zero-length holds, non-default row labels on EVERY list, empty and
one-row lists, an empty chart in the middle of a set).  Operations: every listed operation with the default and another value of each
optional argument, write and write_file, boundary arguments whose result keeps all / no rows, a list used as the ARGUMENT of append.
Sequences: scripted, the same operation twice on the same input, random sequences that also return to an input value; call - legitimate
in-place change - call again (`_edit_ops`: list property +=, a frame cell, stack().offset, stack().loc, lists replaced by new lists): after
such a step all snapshots are taken anew, only values that are documented copies of something must not have followed the change
(`fresh_<op>_after_input_edit`).  write_file also to a path that already holds a longer file (twice); converters also with a negative
column shift; the stack read for every column name that occurs in the chart's data.

Dynamic twin of the effects clause: every listed operation is run on charts / lists / mapsets of all five games, every
argument (and every value produced earlier in the sequence) is snapshotted before and compared after (values, columns,
dtypes, row labels, dataclass fields); results that are copies are then mutated in place and everything else is compared
again (no shared mutable state)."""
from __future__ import annotations

import copy
import dataclasses
import warnings

import numpy as np
import pandas as pd

from pyvc.dsl import bounded
from pyvc.bounded import replayer

from contracts.C12_bounded import GAMES, build, snapshot, diff, std_spec, chart_lists, game_table

# converter outputs are treated as copies (design note K); set to False to drop the `fresh_convert_*` clauses
CONVERTERS_ARE_COPIES = False

warnings.filterwarnings("ignore")


# ---------------------------------------------------------------------------------------------------------------- values
class V:
    """a live value of the sequence: obj + kind ('chart' | 'mapset' | 'list' | 'other') + game + where it came from"""

    def __init__(self, obj, kind, game, origin, name=None):
        self.obj, self.kind, self.game, self.origin, self.name = obj, kind, game, origin, name
        # values that may share state carry the same group: 0 = the inputs (a chart and its lists), a (documented) copy starts a new group,
        # any other result (a slice, a converted chart, ...) stays in the group of what it was made from
        self.group = 0
        self.snap = snapshot_any(obj)

    def refresh(self):
        self.snap = snapshot_any(self.obj)


def snapshot_any(obj):
    from reamber.algorithms.pattern.Pattern import Pattern

    if isinstance(obj, Pattern):
        return dict(kind="pattern", df=snapshot(obj.df.astype(str)), dtypes=[str(t) for t in obj.df.dtypes])
    if isinstance(obj, (list, tuple)):
        return dict(kind="seq", items=[snapshot_any(x) for x in obj])
    try:
        return snapshot(obj)
    except Exception:
        return dict(kind="opaque", repr=repr(obj)[:200])


def _kind_of(obj):
    from reamber.base.Map import Map
    from reamber.base.MapSet import MapSet
    from reamber.base.lists.TimedList import TimedList

    if isinstance(obj, Map):
        return "chart"
    if isinstance(obj, MapSet):
        return "mapset"
    if isinstance(obj, TimedList):
        return "list"
    return "other"


def _game_of(obj):
    n = type(obj).__name__
    for g, p in (("osu", "Osu"), ("qua", "Qua"), ("sm", "SM"), ("bms", "BMS"), ("o2j", "O2J")):
        if n.startswith(p):
            return g
    if _kind_of(obj) == "mapset" and obj.maps:
        return _game_of(obj.maps[0])
    return None


# ---------------------------------------------------------------------------------------------------------------- operations
# an op: dict(name=, clause=, on=kind, games=None|set, copy=bool, fn=callable(value_obj, ctx) -> result)
# ctx: dict(t=mid time, lo=, hi=, other=second osu chart for hitsound_copy (a V), rng-free constants)
def _mid(lst):
    if len(lst) == 0:
        return 0.0
    o = sorted(float(x) for x in lst.offset)
    return (o[0] + o[-1]) / 2.0


def _list_ops():
    from reamber.base.lists.notes.HoldList import HoldList
    from reamber.base.lists.BpmList import BpmList

    ops = []

    def add(name, fn, copy_=False, clause=None, cond=None):
        ops.append(dict(name=name, clause=clause or name.split("(")[0], on="list", copy=copy_, fn=fn, cond=cond))

    hold = lambda l: isinstance(l, HoldList)  # noqa
    bpm = lambda l: isinstance(l, BpmList) and len(l) > 0  # noqa
    nonempty = lambda l: len(l) > 0  # noqa
    add("after(t)", lambda l, c: l.after(_mid(l)), True)
    add("after(t, include_end)", lambda l, c: l.after(_mid(l), include_end=True), True)
    add("before(t)", lambda l, c: l.before(_mid(l)), True)
    add("before(t, include_end)", lambda l, c: l.before(_mid(l), include_end=True), True)
    add("between(a, b)", lambda l, c: l.between(_mid(l) - 300, _mid(l) + 300), True)
    add("between(a, b, ends)", lambda l, c: l.between(_mid(l) - 300, _mid(l) + 300, include_ends=(False, True)), True)
    add("after(t, include_tail)", lambda l, c: l.after(_mid(l), include_tail=True), True, cond=hold)
    add("before(t, no head)", lambda l, c: l.before(_mid(l), include_head=False), True, cond=hold)
    add("between(a, b, head, tail)", lambda l, c: l.between(_mid(l) - 300, _mid(l) + 300, include_head=False, include_tail=True), True, cond=hold)
    add("sorted()", lambda l, c: l.sorted(), True)
    add("sorted(reverse)", lambda l, c: l.sorted(reverse=True), True)
    add("append(item)", lambda l, c: l.append(l[0]), True, cond=nonempty)
    add("append(list)", lambda l, c: l.append(l), True)
    add("append(list, sort)", lambda l, c: l.append(l.sorted(reverse=True), sort=True), True)
    add("append(frame)", lambda l, c: l.append(l.df), True)
    add("append(pd.Series)", lambda l, c: l.append(l.df.iloc[0]), True, cond=nonempty)
    add("move_start_to(t)", lambda l, c: l.move_start_to(1234.5), True, cond=nonempty)
    add("move_end_to(t)", lambda l, c: l.move_end_to(-77.0), True, cond=nonempty)
    add("deepcopy()", lambda l, c: l.deepcopy(), True, clause="deepcopy")
    add("time_diff()", lambda l, c: l.time_diff(), cond=nonempty)
    add("time_diff(last)", lambda l, c: l.time_diff(99999.0), cond=nonempty)
    add("getitem(mask)", lambda l, c: l[(l.offset >= _mid(l)).to_numpy()], True)
    add("getitem(slice)", lambda l, c: l[0:2])
    add("getitem(int)", lambda l, c: l[0], cond=nonempty)
    add("iterate", lambda l, c: [x for x in l])
    add("offsets", lambda l, c: (l.first_offset(), l.last_offset() if len(l) else None, l.first_last_offset() if len(l) else None))
    add("describe()", lambda l, c: l.describe())
    add("to_numpy()", lambda l, c: l.to_numpy())
    add("head_tail_offset", lambda l, c: (l.head_offset, l.tail_offset), cond=hold)
    add("current_bpm(t)", lambda l, c: l.current_bpm(_mid(l) + 1), cond=bpm)
    add("current_bpm(t, sort=False)", lambda l, c: l.current_bpm(float(max(l.offset)) + 1, sort=False), cond=bpm)
    add("snap_offsets(nths, last)", lambda l, c: l.snap_offsets(2.0, float(max(l.offset)) + 2000), cond=bpm)
    add("snap_offsets()", lambda l, c: l.snap_offsets(), cond=lambda l: bpm(l) and len(l) > 1)
    add("to_timing_map()", lambda l, c: l.to_timing_map(), cond=bpm)
    add("ave_bpm()", lambda l, c: l.ave_bpm(), cond=lambda l: bpm(l) and len(l) > 1)
    add("ave_bpm(last)", lambda l, c: l.ave_bpm(float(max(l.offset)) + 1000), cond=bpm)
    add("to_yaml()", lambda l, c: l.to_yaml(), clause="to_yaml", cond=lambda l: hasattr(l, "to_yaml"))
    add("write(keys)", lambda l, c: l.write(4) if "keys" in l.write.__code__.co_varnames else l.write(), clause="list_write", cond=lambda l: hasattr(l, "write"))
    # boundary arguments: the result has the same rows as the receiver (nothing filtered, nothing added, nothing moved) - it must
    # still be a new list that shares nothing with the receiver
    lo_hi = lambda l: (float(min(l.offset)) - 1e6, float(max(l.offset) + (max(l.length) if hold(l) else 0)) + 1e6)  # noqa
    add("after(t below all)", lambda l, c: l.after(lo_hi(l)[0]), True, cond=nonempty)
    add("before(t above all)", lambda l, c: l.before(lo_hi(l)[1]), True, cond=nonempty)
    add("between(all)", lambda l, c: l.between(*lo_hi(l)), True, cond=nonempty)
    add("between(all, ends)", lambda l, c: l.between(float(min(l.offset)), float(max(l.offset)), include_ends=(True, True)), True, cond=nonempty)
    add("after(first, include_end)", lambda l, c: l.after(float(min(l.offset)), include_end=True), True, cond=nonempty)
    add("after(t above all)", lambda l, c: l.after(lo_hi(l)[1]), True, cond=nonempty)  # empty result
    add("getitem(mask all)", lambda l, c: l[np.ones(len(l), dtype=bool)], True)
    add("getitem(mask none)", lambda l, c: l[np.zeros(len(l), dtype=bool)], True)
    add("append(empty list)", lambda l, c: l.append(type(l)([])), True)
    add("append(as argument of an empty receiver)", lambda l, c: type(l)([]).append(l), True)  # the list is the ARGUMENT here
    add("append(as argument, sort)", lambda l, c: type(l)([]).append(l, sort=True), True)
    add("append(empty list, sort)", lambda l, c: l.append(type(l)([]), sort=True), True)
    add("append(item, sort)", lambda l, c: l.append(l[len(l) - 1], sort=True), True, cond=nonempty)
    add("move_start_to(first)", lambda l, c: l.move_start_to(float(min(l.offset))), True, cond=nonempty)
    add("move_end_to(last)", lambda l, c: l.move_end_to(float(max(l.offset))), True, cond=nonempty)
    add("current_bpm(t, delta)", lambda l, c: l.current_bpm(float(min(l.offset)), delta=0.0), cond=bpm)
    add("loc_iloc_read", lambda l, c: (l.iloc[0:1], l.loc[l.df.index[:1]], l.df.index.tolist()), cond=nonempty)
    return ops


def _converters():
    from reamber.algorithms.convert import (BMSToOsu, BMSToQua, BMSToSM, O2JToBMS, O2JToOsu, O2JToQua, O2JToSM, OsuToBMS, OsuToQua, OsuToSM,
                                            QuaToBMS, QuaToOsu, QuaToSM, SMToBMS, SMToOsu, SMToQua)

    chart = dict(
        osu=[("OsuToQua", lambda m: OsuToQua.convert(m, raise_bad_mode=False)), ("OsuToSM", lambda m: OsuToSM.convert(m, raise_bad_mode=False)), ("OsuToBMS", lambda m: OsuToBMS.convert(m, 1))],
        qua=[("QuaToOsu", lambda m: QuaToOsu.convert(m)), ("QuaToSM", lambda m: QuaToSM.convert(m)), ("QuaToBMS", lambda m: QuaToBMS.convert(m, 1))],
        bms=[("BMSToOsu", lambda m: BMSToOsu.convert(m)), ("BMSToQua", lambda m: BMSToQua.convert(m, raise_bad_mode=False)), ("BMSToSM", lambda m: BMSToSM.convert(m))],
    )
    mapset = dict(
        sm=[("SMToOsu", lambda s: SMToOsu.convert(s)), ("SMToQua", lambda s: SMToQua.convert(s, raise_bad_mode=False)), ("SMToBMS", lambda s: SMToBMS.convert(s))],
        o2j=[("O2JToOsu", lambda s: O2JToOsu.convert(s)), ("O2JToQua", lambda s: O2JToQua.convert(s)), ("O2JToSM", lambda s: O2JToSM.convert(s)),
             ("O2JToSM_merge", lambda s: O2JToSM.convert_merge(s)), ("O2JToBMS", lambda s: O2JToBMS.convert(s))],
    )
    return chart, mapset


def _converter_variants():
    """the OTHER value of every optional converter argument (the table above uses one value each): (game, on, name of the base
    converter whose clause the variant shares, variant label, callable)"""
    from reamber.algorithms.convert import BMSToQua, O2JToBMS, OsuToBMS, OsuToQua, OsuToSM, QuaToBMS, SMToQua

    return [
        ("osu", "chart", "OsuToQua", "OsuToQua(defaults)", lambda m: OsuToQua.convert(m)),
        ("osu", "chart", "OsuToSM", "OsuToSM(defaults)", lambda m: OsuToSM.convert(m)),
        ("osu", "chart", "OsuToBMS", "OsuToBMS(defaults)", lambda m: OsuToBMS.convert(m)),
        ("osu", "chart", "OsuToBMS", "OsuToBMS(move_right_by=3)", lambda m: OsuToBMS.convert(m, move_right_by=3)),
        ("qua", "chart", "QuaToBMS", "QuaToBMS(defaults)", lambda m: QuaToBMS.convert(m)),
        ("qua", "chart", "QuaToBMS", "QuaToBMS(move_right_by=3)", lambda m: QuaToBMS.convert(m, move_right_by=3)),
        ("bms", "chart", "BMSToQua", "BMSToQua(defaults)", lambda m: BMSToQua.convert(m)),
        ("sm", "mapset", "SMToQua", "SMToQua(defaults)", lambda s: SMToQua.convert(s)),
        ("o2j", "mapset", "O2JToBMS", "O2JToBMS(move_right_by=0)", lambda s: O2JToBMS.convert(s, move_right_by=0)),
        ("o2j", "mapset", "O2JToBMS", "O2JToBMS(move_right_by=3)", lambda s: O2JToBMS.convert(s, 3)),
    ]


def _chart_ops():
    from reamber.algorithms.generate.full_ln import full_ln
    from reamber.algorithms.generate.sv_normalize import sv_normalize
    from reamber.algorithms.osu.hitsound_copy import hitsound_copy
    from reamber.algorithms.analysis.scroll_speed import scroll_speed
    from reamber.algorithms.utils.dominant_bpm import dominant_bpm
    from reamber.algorithms.pattern.Pattern import Pattern
    from reamber.base.lists.notes.HitList import HitList
    from reamber.base.lists.notes.NoteList import NoteList

    ops = []

    def add(name, fn, copy_=False, clause=None, games=None, on="chart"):
        ops.append(dict(name=name, clause=clause or name.split("(")[0], on=on, copy=copy_, fn=fn, games=games, cond=None))

    add("deepcopy()", lambda m, c: m.deepcopy(), True, clause="deepcopy")
    add("rate(1.5)", lambda m, c: m.rate(1.5), True)
    add("rate(0.5)", lambda m, c: m.rate(0.5), True)
    add("stack_read", lambda m, c: (lambda s: (s.offset, s.column, s.loc[s.offset > 100, ["offset", "column"]], m.stack((HitList,)).offset))(m.stack()))
    add("getitem(type)", lambda m, c: (m[HitList], m[NoteList], m.notes))
    add("describe()", lambda m, c: m.describe(), games={"osu", "qua", "bms"})
    add("metadata()", lambda m, c: m.metadata(), games={"osu", "qua", "bms"})
    add("full_ln()", lambda m, c: full_ln(m), True, clause="full_ln")
    add("full_ln(gap, thres)", lambda m, c: full_ln(m, gap=50, ln_as_hit_thres=20), True, clause="full_ln")
    add("hitsound_copy(src=other, tgt=m)", lambda m, c: hitsound_copy(c["other"].obj, m), True, clause="hitsound_copy", games={"osu"})
    add("hitsound_copy(src=m, tgt=other)", lambda m, c: hitsound_copy(m, c["other"].obj), True, clause="hitsound_copy", games={"osu"})
    add("hitsound_copy(m, m)", lambda m, c: hitsound_copy(m, m), True, clause="hitsound_copy", games={"osu"})
    add("sv_normalize()", lambda m, c: sv_normalize(m), clause="sv_normalize", games={"osu", "qua"})
    add("sv_normalize(override)", lambda m, c: sv_normalize(m, override_bpm=150.0), clause="sv_normalize", games={"osu", "qua"})
    add("scroll_speed()", lambda m, c: scroll_speed(m), clause="scroll_speed")
    add("scroll_speed(override)", lambda m, c: scroll_speed(m, override_bpm=150.0), clause="scroll_speed")
    add("dominant_bpm()", lambda m, c: dominant_bpm(m), clause="dominant_bpm")
    add("Pattern.from_note_lists", lambda m, c: Pattern.from_note_lists([m.hits, m.holds]), clause="pattern_from_note_lists")
    add("Pattern.from_note_lists(no tails)", lambda m, c: Pattern.from_note_lists([m.holds, m.hits], include_tails=False), clause="pattern_from_note_lists")
    add("write()", lambda m, c: m.write(), clause="write", games={"osu", "qua", "bms", "sm"})
    add("write(PMS)", lambda m, c: _bms_write_other(m), clause="write", games={"bms"})
    conv_chart, conv_set = _converters()
    for g, lst in conv_chart.items():
        for nm, f in lst:
            add(nm, (lambda m, c, f=f: f(m)), True, clause="convert_" + nm, games={g})
    # mapsets
    add("deepcopy()", lambda s, c: s.deepcopy(), True, clause="deepcopy", on="mapset")
    add("rate(1.5)", lambda s, c: s.rate(1.5), True, on="mapset")
    add("stack_read", lambda s, c: (lambda st: (st.offset, st.bpm))(s.stack()), on="mapset")
    add("getitem", lambda s, c: (s[0], s[HitList], [x for x in s], list(s.items())), on="mapset")
    add("describe()", lambda s, c: s.describe(), on="mapset", games={"sm", "o2j"})
    add("write()", lambda s, c: s.write(), clause="write", on="mapset", games={"sm"})
    for g, lst in conv_set.items():
        for nm, f in lst:
            add(nm, (lambda s, c, f=f: f(s)), True, clause="convert_" + nm, games={g}, on="mapset")
    # ---- further variants (kept after the operations above so that those keep their place at the head of every queue):
    # the other value of every optional argument, the *_file variants, boundary arguments
    for g, on, base_nm, nm, f in _converter_variants():
        add(nm, (lambda m, c, f=f: f(m)), True, clause="convert_" + base_nm, games={g}, on=on)
    add("write_file()", lambda m, c: _write_file(m), clause="write", games={"osu", "qua", "bms"})
    add("write_file(PMS)", lambda m, c: _write_file(m, bms_other=True), clause="write", games={"bms"})
    add("write(BMS layout, default sample)", lambda m, c: _bms_write_layout(m), clause="write", games={"bms"})
    add("rate(1.0)", lambda m, c: m.rate(1.0), True)
    add("describe(rounding, unicode)", lambda m, c: m.describe(rounding=0, unicode=True), clause="describe", games={"osu", "qua", "bms"})
    add("metadata(unicode=False)", lambda m, c: m.metadata(unicode=False), clause="metadata", games={"osu", "qua", "bms"})
    add("full_ln(gap=0, thres=0)", lambda m, c: full_ln(m, gap=0, ln_as_hit_thres=0), True, clause="full_ln")
    add("full_ln(huge thres)", lambda m, c: full_ln(m, gap=150, ln_as_hit_thres=1e9), True, clause="full_ln")  # every LN would be a hit again
    add("stack(include_types)", lambda m, c: (lambda s: (s.offset, s.column))(m.stack((NoteList,))), clause="stack_read")
    add("write_file()", lambda s, c: _write_file(s), clause="write", on="mapset", games={"sm"})
    add("rate(1.0)", lambda s, c: s.rate(1.0), True, on="mapset")
    add("rate(0.5)", lambda s, c: s.rate(0.5), True, on="mapset")
    add("describe(rounding, unicode)", lambda s, c: s.describe(rounding=0, unicode=True), clause="describe", on="mapset", games={"sm", "o2j"})
    # ---- file-system state, the full range of shift arguments, column names taken from the data
    add("write_file(used path, twice)", lambda m, c: _write_file(m, used_path=True), clause="write", games={"osu", "qua", "bms"})
    add("write_file(used path, twice)", lambda s, c: _write_file(s, used_path=True), clause="write", on="mapset", games={"sm"})
    for g, on, base_nm, nm, f in _converter_negative_shifts():
        add(nm, (lambda m, c, f=f: f(m)), True, clause="convert_" + base_nm, games={g}, on=on)
    add("stack_read(every column of the data)", lambda m, c: _stack_read_all(m), clause="stack_read")
    return ops


def _converter_negative_shifts():
    """move_right_by is an int: negative values too (legitimate where every source column is >= 1, e.g. the chart 'unsorted_labels')"""
    from reamber.algorithms.convert import O2JToBMS, OsuToBMS, QuaToBMS

    return [
        ("osu", "chart", "OsuToBMS", "OsuToBMS(move_right_by=-1)", lambda m: OsuToBMS.convert(m, move_right_by=-1)),
        ("qua", "chart", "QuaToBMS", "QuaToBMS(move_right_by=-1)", lambda m: QuaToBMS.convert(m, move_right_by=-1)),
        ("o2j", "mapset", "O2JToBMS", "O2JToBMS(move_right_by=-1)", lambda s: O2JToBMS.convert(s, move_right_by=-1)),
    ]


def _stack_read_all(m):
    """every column name that occurs in some list of the chart, read through the stack (names from the data, not from a table)"""
    st = m.stack()
    got = []
    for col in sorted({str(c) for l in chart_lists(m).values() for c in l.df.columns}):
        try:
            got.append((col, len(getattr(st, col))))
        except Exception as ex:  # (whether the stack offers the column is C12's business; here only the inputs are watched)
            got.append((col, type(ex).__name__))
    return got


def _edit_ops():
    """LEGITIMATE in-place changes of an input through public operations (list properties, a frame cell, the stack, assignment of a new
    list).  They are steps of a sequence: f(x); change x; f(x) again - after such a step every snapshot is taken anew, except that values
    documented as copies of something must not have followed the change."""
    from reamber.base.lists.BpmList import BpmList

    ops = []

    def add(name, fn, on, cond=None):
        ops.append(dict(name=name, clause="edit", on=on, copy=False, fn=fn, games=None, cond=cond, edit=True))

    nonempty = lambda l: len(l) > 0  # noqa

    def l_offset(l, c):
        l.offset += 10

    def l_cell(l, c):
        j = l.df.columns.get_loc("offset")
        l.df.iloc[len(l) - 1, j] = l.df.iloc[len(l) - 1, j] + 7

    def l_bpm(l, c):
        l.bpm *= 2

    def l_column(l, c):
        l.column += 1

    def m_stack(m, c):
        st = m.stack()
        st.offset += 10

    def m_stack_loc(m, c):
        st = m.stack()
        st.loc[st.offset >= 0, "offset"] += 5

    def m_assign(m, c):
        for name, l in chart_lists(m).items():
            setattr(m, name, l.sorted(reverse=True))

    def m_append(m, c):
        for name, l in chart_lists(m).items():
            if len(l):
                setattr(m, name, l.append(l[0]))

    def s_stack(ms, c):
        st = ms.stack()
        st.offset += 10

    def s_first(ms, c):
        ms.maps[0].hits.offset += 10

    add("edit: offset += 10", l_offset, "list", nonempty)
    add("edit: one cell of the offset column", l_cell, "list", nonempty)
    add("edit: bpm *= 2", l_bpm, "list", lambda l: isinstance(l, BpmList) and len(l) > 0)
    add("edit: column += 1", l_column, "list", lambda l: len(l) > 0 and "column" in l.df.columns)
    add("edit: stack().offset += 10", m_stack, "chart")
    add("edit: stack().loc[...] += 5", m_stack_loc, "chart")
    add("edit: every list replaced by its reverse sort", m_assign, "chart")
    add("edit: every list replaced by itself + its first item", m_append, "chart")
    add("edit: stack().offset += 10", s_stack, "mapset")
    add("edit: hits of the first chart += 10", s_first, "mapset", lambda ms: len(ms.maps) > 0 and len(ms.maps[0].hits) > 0)
    return ops


def _bms_write_other(m):
    from reamber.bms.BMSChannel import BMSChannel

    return m.write(note_channel_config=BMSChannel.PMS_BME, no_sample_default=b"0Z")


def _bms_write_layout(m):
    from reamber.bms.BMSChannel import BMSChannel

    return m.write(BMSChannel.BMS)


def _write_file(obj, bms_other=False, used_path=False):
    """the *_file variant of write(): into a temporary file that is removed again; returns what was written.
    used_path: the path already holds another, longer file, and the object is written to it twice"""
    import os
    import tempfile

    from reamber.bms.BMSChannel import BMSChannel

    fd, p = tempfile.mkstemp(suffix=".c14")
    os.close(fd)
    try:
        if used_path:
            with open(p, "wb") as f:
                f.write(b"#LEFTOVER 00\r\n" * 4000)
            obj.write_file(p)
        if bms_other:
            obj.write_file(p, note_channel_config=BMSChannel.PMS_BME, no_sample_default=b"0Z")
        else:
            obj.write_file(p)
        with open(p, "rb") as f:
            return f.read()
    finally:
        os.unlink(p)


def _pattern_ops():
    def add(name, fn):
        return dict(name=name, clause="pattern_group", on="pattern", copy=False, fn=fn, games=None, cond=None)

    return [add("group()", lambda p, c: p.group()), add("group(v, h, jack)", lambda p, c: p.group(v_window=300.0, h_window=1, avoid_jack=False))]


_OPS = None


def all_ops():
    global _OPS
    if _OPS is None:
        _OPS = _list_ops() + _chart_ops() + _pattern_ops() + _edit_ops()
        for i, o in enumerate(_OPS):
            o["id"] = f"{o['on']}:{o['name']}"
        assert len({o["id"] for o in _OPS}) == len(_OPS)
    return _OPS


def ops_for(v):
    from reamber.algorithms.pattern.Pattern import Pattern

    kind = "pattern" if isinstance(v.obj, Pattern) else v.kind
    out = []
    for o in all_ops():
        if o["on"] != kind:
            continue
        if o.get("games") and v.game not in o["games"]:
            continue
        if o.get("cond") and not o["cond"](v.obj):
            continue
        out.append(o)
    return out


# ---------------------------------------------------------------------------------------------------------------- mutation
def _mutate_list(lst):
    """in-place changes of a list: a property assignment and a cell write"""
    n = 0
    if len(lst) == 0:
        return n
    try:
        lst.offset += 1
        n += 1
    except Exception:
        pass
    df = lst.df
    for j, c in enumerate(df.columns):
        v = df.iloc[0, j]
        try:
            if isinstance(v, (bool, np.bool_)):
                df.iloc[0, j] = not v
            elif isinstance(v, (int, float, np.integer, np.floating)):
                df.iloc[0, j] = v + 1
            elif isinstance(v, str):
                df.iloc[0, j] = v + "_changed"
            elif isinstance(v, bytes):
                df.iloc[0, j] = v + b"_changed"
            else:
                continue
            n += 1
        except Exception:
            pass
    return n


def _mutate(obj, deep):
    """change the result in place.  deep=False: list properties, frame cells, container fields.
    deep=True: ONLY the mutable objects stored inside cells (e.g. Quaver key sound lists)."""
    kind = _kind_of(obj)
    n = 0
    if obj is None:
        return 0
    if kind == "list":
        if deep:
            for c in obj.df.columns:
                if obj.df[c].dtype == object:
                    for x in obj.df[c].tolist():
                        if isinstance(x, list):
                            x.append("changed")
                            n += 1
        else:
            n += _mutate_list(obj)
    elif kind == "chart":
        for name, l in chart_lists(obj).items():
            n += _mutate(l, deep)
        if not deep:
            for f in dataclasses.fields(obj):
                if f.name == "objs":
                    continue
                v = getattr(obj, f.name)
                if isinstance(v, list):
                    v.append("changed")
                    n += 1
                elif isinstance(v, dict):
                    v["changed"] = "changed"
                    n += 1
                elif isinstance(v, str):
                    setattr(obj, f.name, v + "_changed")
                    n += 1
    elif kind == "mapset":
        for m in obj.maps:
            n += _mutate(m, deep)
        if not deep:
            if dataclasses.is_dataclass(obj):
                for f in dataclasses.fields(obj):
                    v = getattr(obj, f.name)
                    if f.name != "maps" and isinstance(v, list):
                        v.append("changed")
                        n += 1
            obj.maps.reverse()
            n += 1
    elif isinstance(obj, (list, tuple)):
        for x in obj:
            n += _mutate(x, deep)
    return n


# ---------------------------------------------------------------------------------------------------------------- running a case
def _specs(game):
    sv = dict(svs=[(100, 1.5), (2100, 0.5)]) if game in ("osu", "qua") else {}
    smx = dict(mines=[(750, 1)], rolls=[(5000, 2, 300)]) if game == "sm" else {}
    osx = dict(samples=[(300, "a.wav", 40)]) if game == "osu" else {}
    first = 1 if game == "bms" else 0
    full = std_spec(game, hits=[(0, first), (250, 1 + first), (1625, 2), (1625, 3)], holds=[(2000, 3, 750), (3000, first, 100)], bpms=[(0, 120), (4000, 240)], **sv, **smx, **osx)
    unsorted_ = std_spec(game, hits=[(1000, 2), (0, 1), (500, 3), (500, 1)], holds=[(3000, 2, 100), (2000, 3, 500)], bpms=[(0, 120), (4000, 240), (2000, 180)],
                         labels=dict(hits="mask", holds="gappy", bpms="after"), **sv)
    empties = std_spec(game, hits=[(0, 1), (500, 2)], holds=[], bpms=[(0, 150)])
    return [("full", full), ("unsorted_labels", unsorted_), ("empty_lists", empties)]


def _more_specs(game):
    """Charts for the input dimensions the three basic charts hold fixed:

    edge_values      the game's other key count / chart type (7K, dance-solo); int-typed offset / length / bpm columns; two hits, two tempo points and two SVs at exactly the same time (different
                     values); objects at time 0, at a negative and at a very large time; a zero-length hold; hold and SV rows not in time
                     order; EVERY list with non-default row labels (reversed / gappy / filtered / permuted by sorted())
    one_row_lists    no hits at all, every other list with exactly one row; times with sub-millisecond fractions
    all_empty        every list of the chart empty (also the tempo list)"""
    sv = game in ("osu", "qua")
    first = 1 if game == "bms" else 0
    edge = std_spec(game, hits=[(0, first), (0, first + 1), (-500, 2), (10_000_000, 3), (250, 2)], holds=[(3000, 2, 0), (2000, 3, 750), (2000, first, 10)],
                    bpms=[(0, 120), (4000, 240), (4000, 60), (-2000, 90)], **(dict(svs=[(2100, 0.5), (100, 1.5), (100, 2.0), (-100, 0)]) if sv else {}),
                    **(dict(mines=[(750, 1), (0, 1)], rolls=[(5000, 2, 0), (4000, 1, 300)], fakes=[(10, 0)], lifts=[(10, 1), (5, 1)], keysounds=[(7, 3)], stops=[(1000, 250), (1000, 125)])
                       if game == "sm" else {}),
                    **(dict(samples=[(300, "a.wav", 40), (300, "b.wav", 0), (-1, "c.wav", 100)]) if game == "osu" else {}))
    for name in ("hits", "holds", "bpms", "rolls", "mines", "fakes", "lifts", "keysounds", "stops", "samples"):
        for r in edge.get(name, []):
            for k in ("offset", "length", "bpm"):
                if k in r:
                    r[k] = int(r[k])  # int-typed columns (a chart built from whole numbers)
    edge["labels"] = dict(hits="rev", holds="mask", bpms="gappy", svs="rev", mines="rev", rolls="gappy", lifts="after", stops="rev", samples="mask")
    edge["c14_post"] = dict(bpms="sorted")  # labels permuted, rows in time order
    # the other key count / chart type of the game (the basic charts are all 4-key)
    edge["meta"] = dict(osu=dict(circle_size=7.0), qua=dict(mode="Keys7"), sm=dict(chart_type="dance-solo", difficulty="Challenge")).get(game, {})
    one = std_spec(game, hits=[], holds=[(1234.5678, 2, 0.25)], bpms=[(0.125, 133.33)], **(dict(svs=[(99.999, 0.01)]) if sv else {}),
                   **(dict(mines=[(0.5, 1)], stops=[(1.5, 2.5)]) if game == "sm" else {}), **(dict(samples=[(0.75, "a.wav", 1)]) if game == "osu" else {}))
    empty = std_spec(game, hits=[], holds=[], bpms=[])
    return [("edge_values", edge), ("one_row_lists", one), ("all_empty", empty)]


#: the dtype states the library itself leaves charts in (dimension 15): what a chart / mapset went through before it is used as an input
STATES = ("rated", "stack_edit", "grown_from_empty", "append_item")


def _apply_state(obj, state):
    """rated             obj.rate(0.5): the copy a rate change returns (integer columns come back float-typed, bool columns object-typed)
    stack_edit        an in-place edit through the stack (st.offset += 10): re-types the stacked lists in the same way
    grown_from_empty  every non-empty list replaced by ListClass([]).append(list): the column types (and order) of the EMPTY list
    append_item       every non-empty list replaced by list.append(list[0])"""
    if state == "rated":
        return obj.rate(0.5)
    if state == "stack_edit":
        st = obj.stack()
        st.offset += 10
        return obj
    charts = obj.maps if _kind_of(obj) == "mapset" else [obj]
    for m in charts:
        for name, l in chart_lists(m).items():
            if len(l):
                setattr(m, name, type(l)([]).append(l) if state == "grown_from_empty" else l.append(l[0]))
    return obj


_FIELD_OVERRIDES = dict(
    osu=dict(mode=3, circle_size=7.0, sample_set=2, tags="tag_a tag_b", slider_tick_rate=2),
    qua=dict(mode="Keys7", tags=["tag_a", "tag_b"], initial_scroll_velocity=2.5),
    sm=dict(chart_type="dance-solo", difficulty="Challenge", groove_radar=[0.1, 0.2, 0.3, 0.4, 0.5]),
    bms=dict(ln_end_channel=b"ZY", exbpms={b"0A": 177.5, b"ZZ": 88.25}, samples={b"01": b"kick.wav", b"02": b"snare.wav", b"ZZ": b"crash.wav"},
             misc={b"GENRE": b"genre value", b"SUBTITLE": b"subtitle value", b"SUBARTIST": b"subartist value", b"STAGEFILE": b"stage.png", b"BANNER": b"banner.png",
                   b"TOTAL": b"300", b"RANK": b"3", b"DIFFICULTY": b"5", b"PLAYER": b"1"}),
    sm_set=dict(display_bpm="150.000", bg_changes="0.000=bg.avi=1.000=1=0=0", fg_changes="8.000=fg.avi=1.000=1=0=0", selectable=False),
    o2j_set=dict(genre=7, level=[3, 12, 25], event_count=[31, 32, 33], note_count=[41, 42, 43], measure_count=[51, 52, 53], package_count=[61, 62, 63],
                 duration=[71, 72, 73], note_offset=[81, 82, 83]),
)


def _all_fields(obj, game):
    """(dimension 14) every dataclass field of a chart / mapset non-default, non-empty and different from every other field of the same
    type (values inside the field's domain where the file format restricts it)."""
    from reamber.base.lists.TimedList import TimedList

    over = _FIELD_OVERRIDES.get(game + ("_set" if _kind_of(obj) == "mapset" else ""), {})
    for k, f in enumerate(dataclasses.fields(obj)):
        if f.name in ("objs", "maps"):
            continue
        v = getattr(obj, f.name)
        if isinstance(v, TimedList):
            continue
        if f.name in over:
            new = copy.deepcopy(over[f.name])
        elif isinstance(v, bool):
            new = not v
        elif isinstance(v, int):
            new = 11 + 2 * k
        elif isinstance(v, float):
            new = 1.25 + k
        elif isinstance(v, str):
            new = f"{f.name} value"
        elif isinstance(v, bytes):
            new = f.name.encode("ascii") + b" value"
        else:
            continue  # None / lists / tables without an override keep what the builder gave them
        setattr(obj, f.name, new)
    return obj


def _all_fields_spec(game):
    """(dimension 14) a chart with every dataclass field set (`c14_all_fields`) and rows in which the game's own columns hold values that
    differ from every other column of the row as far as the column's domain allows; objects of one list kind before the first / after the
    last object of the others (dimension 17: a hit, an SV, a sample before the first tempo row; a tempo row and an SV after the last note)
    and rows on other grids than the 1/96-beat family at 120 bpm (dimension 18: 500/32, 500/24 + 2000, 500/192 + 4000 ms)"""
    sv = game in ("osu", "qua")
    first = 1 if game == "bms" else 0
    # (a note before the first tempo row has no measure position: only in the games whose files hold times)
    sp = std_spec(game, hits=[(-250 if sv else 250, first), (15.625, 1 + first), (2020.8333, 2), (4002.6042, 3), (5000, 2)], holds=[(1000, 3, 515.625), (6000, first, 250)],
                  bpms=[(0, 120), (2015.625, 177.5), (9000, 90)], **(dict(svs=[(-100, 1.25), (3000, 0.75), (9500, 2.0)]) if sv else {}),
                  **(dict(mines=[(750, 1)], rolls=[(7000, 2, 300)], fakes=[(10, 0)], lifts=[(20, 1)], keysounds=[(30, 3)], stops=[(-50, 125), (9100, 250)]) if game == "sm" else {}),
                  **(dict(samples=[(-300, "first.wav", 40), (9900, "last.wav", 70)]) if game == "osu" else {}))
    for name in ("hits", "holds"):
        for i, r in enumerate(sp[name]):
            if game == "osu":
                r.update(hitsound_set=[2, 4, 8, 6][i % 4], sample_set=1 + i % 2, addition_set=3 - i % 2, custom_set=5 + i, volume=40 + 7 * i, hitsound_file=f"{name}_{i}.wav")
            elif game == "qua":
                r.update(keysounds=[f"{name}_{i}_a", f"{name}_{i}_b"])
            elif game == "bms":
                r.update(sample=["kick.wav", "snare.wav", "crash.wav"][i % 3])
            elif game == "o2j":
                r.update(volume=3 + i % 5, pan=9 + i % 4)
    if game == "osu":
        for name in ("bpms", "svs"):
            for i, r in enumerate(sp[name]):
                r.update(sample_set=1 + i % 2, sample_set_index=7 + i, volume=55 + 3 * i, kiai=i % 2 == 0)
                if name == "bpms":
                    r["metronome"] = 3 + i % 3
    sp["c14_all_fields"] = True
    return sp


def _build(spec):
    """C12's builder + the C14-only post-processing recorded in the spec (JSON-able): c14_post = {list name: 'sorted'} replaces that
    list by its .sorted() (rows in time order, row labels permuted), for a chart or for every chart of a mapset; c14_all_fields: every
    dataclass field of the chart(s) and of the set given a non-default value of its own (`_all_fields`); c14_state: one of STATES, what
    the object went through before it is used as input (`_apply_state`)"""
    obj = build(spec)
    charts = [(obj, spec)] if "maps" not in spec else list(zip(obj.maps, spec["maps"]))
    for m, sp in charts:
        for name, how in (sp.get("c14_post") or {}).items():
            if how == "sorted" and name in chart_lists(m) and len(getattr(m, name)):
                setattr(m, name, getattr(m, name).sorted())
        if sp.get("c14_all_fields") or spec.get("c14_all_fields"):
            _all_fields(m, spec["game"])
    if spec.get("c14_all_fields") and "maps" in spec and dataclasses.is_dataclass(obj):
        _all_fields(obj, spec["game"])
    if spec.get("c14_state"):
        obj = _apply_state(obj, spec["c14_state"])
    return obj


class _Ctx(dict):
    """ctx['other'] (the second osu chart, used by hitsound_copy only) is built when first asked for and then watched like every other
    value (building an OsuMap for every case of every game is the most expensive part of a case)"""

    def __init__(self, vals, state=None):
        super().__init__()
        self._vals = vals
        self._state = state  # the second chart has gone through what the first has (a float-typed SOURCE of hitsound_copy)

    def __missing__(self, key):
        if key != "other":
            raise KeyError(key)
        v = V(_build(dict(_other_osu(), **({"c14_state": self._state} if self._state else {}))), "chart", "osu", "second osu chart")
        self[key] = v
        self._vals["other"] = v
        return v


def _other_osu():
    return std_spec("osu", hits=[(0, 0), (250, 2), (250, 3), (1625, 1)], holds=[(2000, 0, 100)], bpms=[(0, 120)])


def _base_values(case):
    """the input objects of a case: the chart (or mapset) itself, every list of it, and (osu) a second chart"""
    spec = case["spec"]
    obj = _build(spec)  # never a cached copy: pandas copies do not copy objects inside cells
    game = spec["game"]
    vals = {}
    if "maps" in spec:
        vals["base"] = V(obj, "mapset", game, "input mapset")
        for i, m in enumerate(obj.maps):
            vals[f"chart{i}"] = V(m, "chart", game, f"chart {i} of the input mapset")
    else:
        vals["base"] = V(obj, "chart", game, "input chart")
        for name, l in chart_lists(obj).items():
            vals[name] = V(l, "list", game, f"list {name} of the input chart", name=name)
    ctx = _Ctx(vals, spec.get("c14_state"))
    if game == "osu" and case.get("watch_other", True):
        ctx["other"]  # present from the start (as in the cases saved earlier); otherwise it is built when an operation asks for it
    return vals, ctx


def _clause(op, kind):
    c = op["clause"].replace(" ", "_")
    if kind == "unchanged" and c == "sv_normalize":
        return "sv_normalize_keeps_tempo_list"
    if kind == "fresh" and c.startswith("convert_"):
        return "fresh_" + c
    return f"{kind}_{c}"


def _run_case(case, stats=None):
    """case: dict(spec=, steps=[[value key, op id], ...]); value key: a base value name ('base', 'hits', 'chart0', 'other', ...)
    or 'r<k>' = the result of step k.  go_on: an operation that raises does not end the sequence.  Returns [(what, detail)]."""
    vals, ctx = _base_values(case)
    by_id = {o["id"]: o for o in all_ops()}
    out = []
    last = None
    makers = {}  # group -> (operation, step, key of its input) of the copy that started the group
    for k, (key, op_id) in enumerate(case["steps"]):
        if key not in vals:
            break  # the earlier step did not produce a chart / list / mapset (e.g. it raised): the sequence ends here
        v = vals[key]
        op = by_id[op_id]
        if op not in ops_for(v):
            break
        raised = None
        if op.get("edit"):
            # a legitimate change of v (and of whatever v is part of): afterwards everything is what it is NOW - but a value that is a
            # (documented) copy of something else has not followed the change
            try:
                op["fn"](v.obj, ctx)
            except Exception as ex:
                if stats is not None:
                    stats.setdefault("ops_raising", {}).setdefault(op_id, f"{type(ex).__name__}: {ex}"[:120])
                break
            if stats is not None:
                stats["edit_steps"] = stats.get("edit_steps", 0) + 1
            for name, w in vals.items():
                if w.group != v.group:
                    d = diff(w.snap, snapshot_any(w.obj))
                    if d and w.group in makers:
                        cop, ck, ckey = makers[w.group]
                        out.append((_clause(cop, "fresh") + "_after_input_edit", f"step {k}: {op['name']} on {v.origin} changed {w.origin}, which belongs to the copy made at step {ck} from {vals[ckey].origin}: {'; '.join(d[:3])}"))
                    elif d and v.group in makers:
                        cop, ck, ckey = makers[v.group]
                        out.append((_clause(cop, "fresh"), f"step {k}: {op['name']} on {v.origin} (which belongs to the copy made at step {ck} from {vals[ckey].origin}) changed {w.origin}: {'; '.join(d[:3])}"))
                w.refresh()
            continue
        try:
            res = op["fn"](v.obj, ctx)
        except Exception as ex:
            raised = f"{type(ex).__name__}: {ex}"
            res = None
            if stats is not None:
                stats.setdefault("ops_raising", {}).setdefault(op_id, raised[:120])
        # every live value must be what it was
        for name, w in vals.items():
            d = diff(w.snap, snapshot_any(w.obj))
            if d:
                out.append((_clause(op, "unchanged"), f"step {k}: {op['name']} on {v.origin}{' (raised ' + raised + ')' if raised else ''} changed {w.origin}: {'; '.join(d[:3])}"))
                w.refresh()
        if raised is not None:
            if case.get("go_on"):
                continue  # a chain of independent operations on the same input: the next one is still applied
            break
        rk = _kind_of(res)
        if op.get("copy") and (CONVERTERS_ARE_COPIES or not op["clause"].startswith("convert_")):
            made_copy = (op, k, key)
        else:
            made_copy = None
        first = res[0] if isinstance(res, list) and res and _kind_of(res[0]) in ("chart", "mapset") else None
        from reamber.algorithms.pattern.Pattern import Pattern

        if rk in ("chart", "mapset", "list") or isinstance(res, Pattern):
            vals[f"r{k}"] = V(res, rk, _game_of(res) or v.game, f"result of step {k} ({op['name']})")
            if made_copy:
                makers[k + 1] = made_copy
                vals[f"r{k}"].group = k + 1
            else:
                vals[f"r{k}"].group = v.group
        elif first is not None:
            vals[f"r{k}"] = V(first, _kind_of(first), _game_of(first), f"first chart of the result of step {k} ({op['name']})")
            vals[f"r{k}all"] = V(res, "other", None, f"result of step {k} ({op['name']})")
            vals[f"r{k}"].group = vals[f"r{k}all"].group = v.group
        last = (k, op, res, key)
    # the last result, when it is a copy, is changed in place: nothing else may change
    if last is not None and last[1]["copy"] and (CONVERTERS_ARE_COPIES or not last[1]["clause"].startswith("convert_")):
        k, op, res, key = last
        skip = {f"r{k}", f"r{k}all"}
        stages = [("fresh", False)]
        if op["clause"] in ("deepcopy", "rate", "full_ln", "hitsound_copy"):
            # these are deep copies by their documentation: objects inside cells (Quaver key sound lists) must not be shared either
            stages.append(("fresh_cell_objects", True))
        for kind, deep in stages:
            n = _mutate(res, deep)
            if stats is not None:
                stats["mutations"] = stats.get("mutations", 0) + n
            hit = False
            for name, w in vals.items():
                if name in skip:
                    continue
                d = diff(w.snap, snapshot_any(w.obj))
                if d:
                    what = _clause(op, "fresh") + ("_cell_objects" if deep else "")
                    out.append((what, f"changing the result of step {k} ({op['name']} on {vals[key].origin}) in place changed {w.origin}: {'; '.join(d[:3])}"))
                    hit = True
                    break
            if hit:
                break
        else:
            # and the other way round: the INPUT of the last step is changed in place, the result must stay what it is now
            before = snapshot_any(res)
            n = _mutate(vals[key].obj, False) if _kind_of(vals[key].obj) in ("list", "chart", "mapset") else 0
            if stats is not None:
                stats["input_mutations"] = stats.get("input_mutations", 0) + n
            d = diff(before, snapshot_any(res)) if n else []
            if d:
                out.append((_clause(op, "fresh") + "_after_input_edit", f"changing {vals[key].origin} in place after step {k} ({op['name']}) changed the result of that step: {'; '.join(d[:3])}"))
    seen, uniq = set(), []
    for w, d in out:
        if w not in seen:
            seen.add(w)
            uniq.append((w, d))
    return uniq


def _next_key(vals_keys, k):
    return f"r{k}"


def _c14_game(rep, game):
    rng = rep.rng
    stats = {}
    n = 0
    specs = [(lab, sp) for lab, sp in _specs(game)]
    d = dict(specs)
    specs += [("set2", dict(game=game, maps=[d["full"], d["empty_lists"]])), ("set1_labels", dict(game=game, maps=[d["unsorted_labels"]]))]
    more = _more_specs(game)
    dm = dict(more)
    # a set whose MIDDLE chart is empty, followed by a chart without hits
    more += [("set3_empty_middle", dict(game=game, maps=[d["full"], dm["all_empty"], dm["one_row_lists"]]))]
    # (dimensions 14, 17, 18) every field and column with a value of its own, list kinds in another relative order, rows on other grids: first
    # among the added objects, so that its chart-level operations run in the quick tier too
    more = [("all_fields_distinct", _all_fields_spec(game)), ("set_all_fields", dict(game=game, maps=[_all_fields_spec(game), d["full"]], c14_all_fields=True))] + more
    stopped = False
    per_spec = {}

    def run(label, spec, steps, watch_other=None):
        nonlocal n
        case = dict(spec=spec, steps=steps)
        if watch_other is not None:
            case["watch_other"] = watch_other
        rep.case(case, nontrivial=True)
        n += 1
        per_spec[label] = per_spec.get(label, 0) + 1
        for what, dd in _run_case(case, stats):
            rep.fail(what, case, f"{label}: {dd}")

    def queue_of(label, spec, only_keys=None):
        vals, ctx = _base_values(dict(spec=spec, watch_other=False))
        # length 1: every applicable op on every input value (the chart / mapset first, then its lists / charts)
        q = []
        for key, v in vals.items():
            if key == "other" or (only_keys is not None and key not in only_keys):
                continue
            for op in ops_for(v):
                if not op.get("edit"):
                    q.append([[key, op["id"]]])
            if key == "base":
                # call - legitimate change - call again on the chart / mapset itself, right after its single operations
                q += _call_edit_call(spec, vals, ("base",))
        # scripted sequences: pattern extraction then grouping, copies that are then written / converted / filtered, and the
        # same operation twice on the same input
        return q + _scripted(spec, vals) + _twice(spec, vals) + _call_edit_call(spec, vals, ("hits", "holds", "bpms", "svs"))

    def chains_of(spec, keys, size):
        """every applicable operation on the given input values, `size` independent operations per case (one build of the object serves
        several operations; an operation that raises does not end the chain; the last result of a chain is also changed in place)"""
        vals, ctx = _base_values(dict(spec=spec, watch_other=False))
        out = []
        for key in keys:
            if key not in vals:
                continue
            ids = [op["id"] for op in ops_for(vals[key]) if not op.get("edit")]
            out += [[[key, i] for i in ids[a : a + size]] for a in range(0, len(ids), size)]
        return out

    def state_phase(budget):
        """(dimension 15) the chart with all lists filled and the two-chart set in every dtype state the library leaves objects in
        (STATES); quick tier: the chains of chart / mapset level operations alternate between the two states of a pair (rated | stack_edit:
        integer and bool columns re-typed; grown_from_empty | append_item), then the chains of list operations rotate over the four
        states; thorough tier: everything on every state"""
        nonlocal stopped, n
        full, set2 = d["full"], dict(game=game, maps=[d["full"], d["empty_lists"]])
        quick = rep.tier == "quick"
        todo = []
        for pair in (STATES[:2], STATES[2:]):
            for base_spec, label in ((full, "full"), (set2, "set2")):
                chains = chains_of(base_spec, ("base",), 4)
                for j, steps in enumerate(chains):
                    for st in ([pair[j % 2]] if quick else pair):
                        todo.append((f"{label}@{st}", dict(base_spec, c14_state=st), steps))
        lchains = chains_of(full, [k for k in ("hits", "holds", "bpms", "svs", "samples", "stops", "mines", "rolls")], 8)
        for j, steps in enumerate(lchains):
            for st in ([STATES[j % 4]] if quick else STATES):
                todo.append((f"full@{st}", dict(full, c14_state=st), steps))
        for label, spec, steps in todo:
            if rep.out_of_time(*budget):
                stopped = True
                return
            case = dict(spec=spec, steps=steps, go_on=True, watch_other=False)
            rep.case(case, nontrivial=True)
            n += 1
            per_spec[label] = per_spec.get(label, 0) + 1
            for what, dd in _run_case(case, stats):
                rep.fail(what, case, f"{label}: {dd}")

    def phase(group, budget, only=None, list_share=1.0):
        """the cases of all objects of the group in turn (first case of every object, second case of every object, ...): when the time
        budget ends the run early, every object has had its chart-level operations and the same share of the rest"""
        nonlocal stopped
        queues = [(label, spec, queue_of(label, spec, (only or {}).get(label))) for label, spec in group]
        if list_share < 1.0:
            # quick tier: of the single operations on the LISTS of these objects a random share only (all chart / mapset operations are kept)
            queues = [(label, spec, [st for st in q if len(st) > 1 or st[0][0].startswith(("base", "chart")) or rng.random() < list_share]) for label, spec, q in queues]
        for i in range(max(len(q) for _, _, q in queues)):
            for label, spec, q in queues:
                if i >= len(q):
                    continue
                if rep.out_of_time(*budget):
                    stopped = True
                    return
                # the second osu chart is watched during every case of the first chart (two instances alive at once); for the other
                # objects it is built only when an operation asks for it
                run(label, spec, q[i], watch_other=None if label == "full" else False)

    # phase 0: the chart with all lists filled; phase 1: the other two basic charts and the two sets; phase 2: the charts / set of
    # _more_specs; phase 3: random sequences over all of them.  Each phase has its own share of the time budget so that a busy machine
    # cuts the tail of every phase instead of dropping the later phases.
    phase(specs[:1], (18, 90))
    state_phase((24, 140))
    phase(specs[1:], (30, 190))
    phase(more, (38, 250), only=dict(set3_empty_middle=("base", "chart1"), set_all_fields=("base", "chart0")), list_share=rep.n(0.5, 1.0))
    # length 2 and 3: the next op is applied to the previous result when that is a chart / list / mapset / pattern (or, 1 in 4, again
    # to an input value)
    M = rep.n(30, 1500)
    M2 = rep.n(12, 500)
    todo = [(lab, sp, M) for lab, sp in specs] + [(lab, sp, M2) for lab, sp in more]
    # random sequences also start from the chart in each dtype state (a sequence on an input that earlier steps re-typed)
    todo += [(f"full@{st}", dict(d["full"], c14_state=st), M2) for st in STATES]
    for r in range(M):
        for label, spec, m in todo:
            if r >= m:
                continue
            if rep.out_of_time(42, 280):
                stopped = True
                break
            L = rng.choice([2, 3])
            steps = _random_steps(rng, spec, L)
            if len(steps) < 2:
                continue
            run(label, spec, steps)
        if stopped and rep.out_of_time(42, 280):
            break
    rep.extra.update(stats)
    rep.extra["stopped_by_time_budget"] = stopped
    rep.extra["cases_per_object"] = per_spec
    rep.extra["operations"] = sorted({o["id"] for o in all_ops() if not o.get("games") or game in o["games"]})
    rep.bound = (f"{game}: 3 charts (all lists filled; unsorted rows with gappy / filtered labels; empty hold/SV/sample lists) and 2 mapsets, + 3 charts (int-typed columns with ties, time 0, negative / huge "
                 f"times, zero-length holds, every list with reversed / gappy / filtered / permuted row labels, hold and SV rows out of time order; no hits and one row in every other list, sub-ms times; "
                 f"every list empty) and a 3-chart set with the empty chart in the middle; every applicable operation "
                 f"({len(rep.extra['operations'])} operation variants: each optional argument of the filters, converters, writers (write and write_file), full_ln, describe, rate with its default and another value; "
                 f"boundary arguments whose result keeps all / no rows) once on every input value (chart, each list, mapset, each chart of it; for the lists of the added objects a random half in the quick tier); the same operation twice on the same input; "
                 f"{M} (basic) / {M2} (added objects, and the full chart in each dtype state) random sequences of 2-3 operations per object; {n} cases")
    rep.bound += ("; call - legitimate in-place change - call again: every chart / mapset level operation (and 9 list operations on the hit, hold, tempo and SV lists) followed by one of "
                  f"{len(_edit_ops())} public in-place changes (list property +=, a frame cell, stack().offset, stack().loc, every list replaced by its reverse sort / by itself + an item) and the same operation again; "
                  "these changes are also steps of the random sequences; write_file to a path that already holds a longer file, twice; converters with move_right_by=-1; the stack read for every column name found in the data")
    rep.bound += (f"; dtype states: the chart with all lists filled and the two-chart set as inputs in each of the states {STATES} (after rate(0.5): integer / bool columns float- / object-typed; after an in-place "
                  "stack edit: the same re-typing on the input itself; every list rebuilt by appending to an EMPTY list: the empty list's column types and order; after append of an item), the second osu chart "
                  "(source / target of hitsound_copy) in the same state: every chart / mapset operation in chains of 4 and every list operation in chains of 8 independent operations per case "
                  "(quick tier: each chain on one state of (rated | stack_edit) and one of (grown_from_empty | append_item), list chains on one of the four; thorough: on all); "
                  "+ a chart and a set with EVERY dataclass field non-default and different from every field of the same type (all metadata incl. ids, editor fields, banner / genre / lyrics path / cd title / display bpm / "
                  "bg and fg changes, #LNOBJ ZY, other-header / sample / extended-tempo tables), the game's own columns pairwise different within a row, a hit / SV / sample / stop before the first tempo row, "
                  "a tempo row / SV / sample after the last note, rows on 1/32, 1/24 and 1/192 of a beat")
    rep.rule = ("a case is (object, sequence of <= 3 operations - or a chain of <= 8 independent operations on one input of a dtype-state object): all inputs and earlier results are compared with their snapshots after every operation, "
                "again after the last result (when a copy) has been changed in place, and the last result is compared again after its input has been changed in place; "
                "after a step that is a legitimate change all snapshots are taken anew, copies made earlier must not have followed the change")


def _twice(spec, vals):
    """the same operation twice on the same input value (state kept between calls, effects that only show the second time)"""
    game = spec["game"]
    top = "mapset" if "maps" in spec else "chart"
    names = ["deepcopy()", "rate(1.5)", "write()", "write_file()", "full_ln()", "sv_normalize()", "scroll_speed()", "dominant_bpm()", "Pattern.from_note_lists",
             "hitsound_copy(src=m, tgt=other)", "OsuToBMS", "OsuToBMS(move_right_by=3)", "QuaToBMS", "QuaToBMS(move_right_by=3)", "BMSToOsu", "OsuToSM", "QuaToSM", "BMSToSM",
             "SMToOsu", "SMToBMS", "O2JToOsu", "O2JToBMS", "O2JToBMS(move_right_by=3)", "O2JToSM_merge", "stack_read"]
    out = []
    v = vals["base"]
    have = {o["id"] for o in ops_for(v)}
    for nm in names:
        oid = f"{top}:{nm}"
        if oid in have:
            out.append([["base", oid], ["base", oid]])
    for key in ("hits", "holds", "bpms", "svs"):
        if key in vals:
            for nm in ("sorted()", "append(list, sort)", "after(t)"):
                oid = f"list:{nm}"
                if oid in {o["id"] for o in ops_for(vals[key])}:
                    out.append([[key, oid], [key, oid]])
    return out


def _call_edit_call(spec, vals, keys):
    """f(x); x changed in place through a public operation; f(x) again (stale state kept from the first call; a first call that already
    changed x; a copy made by the first call that follows the change).  One edit per operation, the edits taken in turn."""
    top = "mapset" if "maps" in spec else "chart"
    out = []
    for key in keys:
        if key not in vals:
            continue
        v = vals[key]
        have = ops_for(v)
        edits = [o["id"] for o in have if o.get("edit")]
        if not edits:
            continue
        if key == "base":
            names = ["rate(1.5)", "write()", "write_file()", "write_file(used path, twice)", "deepcopy()", "full_ln()", "sv_normalize()", "scroll_speed()", "dominant_bpm()",
                     "Pattern.from_note_lists", "hitsound_copy(src=m, tgt=other)", "hitsound_copy(src=other, tgt=m)", "stack_read", "describe()", "OsuToBMS", "OsuToQua", "OsuToSM",
                     "QuaToBMS", "QuaToOsu", "QuaToSM", "BMSToOsu", "BMSToQua", "BMSToSM", "SMToOsu", "SMToQua", "SMToBMS", "O2JToOsu", "O2JToQua", "O2JToSM", "O2JToBMS", "O2JToSM_merge"]
            ids = [f"{top}:{nm}" for nm in names]
        else:
            ids = [f"list:{nm}" for nm in ("sorted()", "after(t)", "append(list, sort)", "deepcopy()", "to_timing_map()", "current_bpm(t)", "to_yaml()", "write(keys)", "time_diff()")]
        have_ids = {o["id"] for o in have}
        i = 0
        for oid in ids:
            if oid in have_ids:
                out.append([[key, oid], [key, edits[i % len(edits)]], [key, oid]])
                i += 1
    return out


def _scripted(spec, vals):
    """deterministic sequences of 2-3 operations (only steps whose operation exists for the value are kept by _run_case)"""
    game = spec["game"]
    out = []
    if "maps" in spec:
        base = "chart0"
        out += [[["base", "mapset:rate(1.5)"], ["r0", "mapset:deepcopy()"], ["r1", "mapset:stack_read"]]]
        if game == "sm":
            out += [[["base", "mapset:rate(1.5)"], ["r0", "mapset:write()"]], [["base", "mapset:SMToOsu"], ["r0", "chart:write()"]], [["base", "mapset:SMToBMS"], ["r0", "chart:write()"]]]
        if game == "o2j":
            out += [[["base", "mapset:O2JToOsu"], ["r0", "chart:sv_normalize(override)"], ["r0", "chart:write()"]], [["base", "mapset:O2JToSM"], ["r0", "mapset:write()"]]]
    else:
        base = "base"
        conv = dict(osu=["OsuToQua", "OsuToSM", "OsuToBMS"], qua=["QuaToOsu", "QuaToSM", "QuaToBMS"], bms=["BMSToOsu", "BMSToQua", "BMSToSM"]).get(game, [])
        for cv in conv:
            nxt = "mapset:write()" if cv.endswith("SM") else "chart:write()"
            out.append([["base", "chart:" + cv], ["r0", nxt]])
            out.append([["base", "chart:rate(0.5)"], ["r0", "chart:" + cv], ["r1", "chart:deepcopy()" if not cv.endswith("SM") else "mapset:deepcopy()"]])
        out += [[["hits", "list:sorted()"], ["r0", "list:append(list)"], ["r1", "list:after(t)"]],
                [["holds", "list:sorted(reverse)"], ["r0", "list:between(a, b, head, tail)"], ["r1", "list:move_start_to(t)"]],
                [["bpms", "list:sorted()"], ["r0", "list:to_timing_map()"]],
                [["bpms", "list:append(list, sort)"], ["r0", "list:current_bpm(t)"], ["r0", "list:snap_offsets(nths, last)"]]]
    out += [[[base, "chart:Pattern.from_note_lists"], ["r0", "pattern:group()"]],
            [[base, "chart:Pattern.from_note_lists(no tails)"], ["r0", "pattern:group(v, h, jack)"], ["r0", "pattern:group()"]],
            [[base, "chart:rate(1.5)"], ["r0", "chart:write()"]],
            [[base, "chart:deepcopy()"], ["r0", "chart:full_ln()"], ["r1", "chart:write()"]],
            [[base, "chart:full_ln(gap, thres)"], ["r0", "chart:rate(0.5)"], ["r1", "chart:dominant_bpm()"]],
            [[base, "chart:rate(0.5)"], ["r0", "chart:scroll_speed(override)"], ["r0", "chart:sv_normalize(override)"]]]
    return out


def _random_steps(rng, spec, L):
    """a random applicable sequence, found by running it"""
    vals, ctx = _base_values(dict(spec=spec))
    keys = [k for k in vals if k != "other"]
    steps = []
    key = rng.choice(keys)
    for k in range(L):
        v = vals.get(key)
        if v is None:
            break
        cand = ops_for(v)
        if not cand:
            break
        op = rng.choice(cand)
        steps.append([key, op["id"]])
        try:
            res = op["fn"](v.obj, ctx)
        except Exception:
            break
        rk = _kind_of(res)
        from reamber.algorithms.pattern.Pattern import Pattern

        if rk in ("chart", "mapset", "list") or isinstance(res, Pattern):
            vals[f"r{k}"] = V(res, rk, _game_of(res) or v.game, "")
            key = f"r{k}"
        elif isinstance(res, list) and res and _kind_of(res[0]) in ("chart", "mapset"):
            vals[f"r{k}"] = V(res[0], _kind_of(res[0]), _game_of(res[0]), "")
            key = f"r{k}"
        else:
            key = rng.choice(keys)
        if rng.random() < 0.25:
            key = steps[0][0] if rng.random() < 0.5 else rng.choice(keys)  # back to an input value (the first one again, or any)
    return steps


def _mk(game):
    def fn(rep):
        _c14_game(rep, game)

    fn.__name__ = f"inputs_unchanged_{game}"
    return fn


for _g in GAMES:
    _f = _mk(_g)
    globals()[_f.__name__] = bounded("C14", note=f"every listed operation on {_g} charts, lists and mapsets: arguments identical afterwards; copies share no state; sequences of <= 3 operations")(_f)

    def _mk_replay(_name=_f.__name__):
        @replayer(_name)
        def _replay(case, what):
            bad = _run_case(case)
            hit = [d for w, d in bad if w == what]
            return (bool(hit), hit[0] if hit else "passes")

        return _replay

    _mk_replay()
