"""C05 (BMS writing) - bounded stand-in.

In-memory charts (hit / hold / tempo lists built directly) are written by the REAL `BMSMap.write(note_channel_config=...)`;
the bytes are interpreted by the independent BMS interpreter `den_bms` (contracts/C04_bounded.py, written from the format
description) and compared with the chart: one object per hit, head + #LNOBJ pair per hold, right lane, time exact on the
snap grid / within 1/192 beat off it, tempo timeline reproduced, every line syntactically valid.
"""
from __future__ import annotations

import random
import re
from fractions import Fraction

from pyvc.dsl import bounded
from pyvc.bounded import replayer

from contracts.C04_bounded import den_bms, note_lanes, layout_of, LAYOUT_NAMES, b36

TOL_MS = 1e-3
GRID_DENS = (1, 2, 3, 4, 6, 8, 12, 16, 24, 32, 48, 96, 5, 7, 9, 64)  # all <= 96: points of the snap grid
BPM_POOL = ["60", "90", "120", "150", "177.5", "200", "128.571", "89.99", "240", "333.333", "45.25"]
#: tempo values with more than 3 decimals: the writer prints `#BPMxx` with 3 decimals; only OBSERVED (rep.extra)
BPM_LONG = ["128.5714285714", "177.77777", "99.99951"]
MIN_GAP = Fraction(1, 24)  # beats between two objects of one lane: > 1/96, so no two share a grid slot

_HEADER_LINE = re.compile(rb"^#[A-Za-z][A-Za-z0-9]*( .*)?$")
_DATA_LINE = re.compile(rb"^#[0-9]{3}[0-9A-Za-z]{2}:([0-9A-Za-z]{2})+$")


# ----------------------------------------------------------------------------------------------- in-memory timeline


class MemTimeline:
    """Exact view of the in-memory tempo list: tempo point i at 4*measure_i beats and Fraction(offset_i) ms."""

    def __init__(self, tempo):
        # tempo: [(measure, bpm_text)], first at measure 0; offsets are computed the way a user would: in floats
        self.measures = [m for m, _ in tempo]
        self.bpm_f = [float(b) for _, b in tempo]
        offs = [0.0]
        for i in range(1, len(tempo)):
            offs.append(offs[-1] + (tempo[i][0] - tempo[i - 1][0]) * 240000.0 / self.bpm_f[i - 1])
        self.off_f = offs
        self.off = [Fraction(o) for o in offs]
        self.bpm = [Fraction(b) for b in self.bpm_f]

    def ms_of_beat(self, beat: Fraction) -> Fraction:
        i = max(k for k, m in enumerate(self.measures) if 4 * m <= beat)
        return self.off[i] + (beat - 4 * self.measures[i]) * 60000 / self.bpm[i]

    def beat_of_ms(self, t: Fraction) -> Fraction:
        i = max([k for k, o in enumerate(self.off) if o <= t] or [0])
        return 4 * self.measures[i] + (t - self.off[i]) * self.bpm[i] / 60000


# ----------------------------------------------------------------------------------------------- generator


#: tempo values whose quarter beat is a whole number of ms: charts whose times are all integers (int-typed columns)
INT_BPM = ["60", "120", "150", "200", "75", "100", "125", "300"]
TITLES = ["", "a title", "題名", "a:b#c // d", "Title with  two spaces", "海の道 〜remix〜", "題名　第二", "tab\tinside", "表ソ能"]
SAMPLE_NAMES = ["snd {k}.wav", "snd {k}.wav", "音 {k}.wav", "se:{k}#x.wav", "ｓｅ〜{k}.ogg", "dir/sub {k}.WAV"]
MISC_POOL = [("GENRE", "g x"), ("TOTAL", "300"), ("SUBTITLE", "[ANOTHER] 〜"), ("PLAYER", "1"), ("STAGEFILE", "bg image.png"), ("rank", "3")]
NOTE_SHAPES = ("both", "no_hits", "no_holds", "none", "one_hit", "one_hold")
LABEL_MODES = ("default", "default", "default", "gappy_rev", "offset", "rev", "perm", "sorted")
CALLS = ("kw", "kw", "positional", "class", "default_layout")
HISTORIES = ("fresh", "fresh", "fresh", "second_write", "after_other")
#: call - legitimate change - call again: the chart object is first built as ANOTHER legal chart and written, then changed into the chart of the
#: case through public operations only (list property setters, the stack, rate(), append + assignment of the new list, assignment of new lists
#: and fields), then written again: the second result must denote the chart as it is NOW
EDIT_HISTORIES = ("edit_scaled_props", "edit_scaled_stack", "edit_scaled_rate", "edit_columns_props", "edit_columns_stack", "edit_appended", "edit_replaced")
#: ORIGIN "read from a text, then changed in memory": the chart object comes out of BMSMap.read(<text of the case>) - so whatever the reader
#: leaves on the object beside the chart (entries in `misc`, ...) is there -, is (half of the time) written once as it was read, and is then
#: changed into the chart of the case through public fields only: ln_end_channel, title, artist, version, the samples table (assigned or
#: updated in place), entries added to misc, the three lists assigned.  The file written then must denote the chart as it is NOW.
READ_HISTORY = "edit_read_then_changed"
SRC_LNOBJ = ["ZZ", "ZZ", "ZZ", "ZY", "YY", "0Z", "02", "zz", "AA"]
SRC_HEADERS = [("GENRE", "src genre"), ("TOTAL", "250"), ("RANK", "2"), ("DIFFICULTY", "4"), ("SUBARTIST", "obj: someone"), ("PLAYER", "1"), ("STAGEFILE", "stage.bmp"), ("VOLWAV", "90")]
#: what the target path of write_file holds before the call
FILE_BEFORE = ("empty", "absent", "longer_text", "shorter_text", "other_chart", "same_path_twice")
#: tempo values at the ends of what `#BPM` / `#BPMxx` can carry with <= 3 decimals
BPM_WIDE = ["1", "0.5", "0.125", "7.125", "1000", "9999", "65535", "12345.678", "999.999", "0.001"]
#: the five layouts as the library's public documentation gives them (Writerside/topics/reamber/bms/Channel.md, row "Column | 0 | 1 ...": the
#: channel of column 0, 1, ...), fixed data: what the written bytes are INTERPRETED with is this table, not the table the writer itself uses
#: (columns the page is silent on - the fifth column of PMS_5B - are interpreted with the shipped entry)
DOC_LAYOUTS = {
    "BMS": "11 12 13 14 15 16 17 21 22 23 24 25 26 27",
    "BME": "16 11 12 13 14 15 18 19 21 22 23 24 25 28 29 26",
    "PMS": "11 12 13 14 15 22 23 24 25",
    "PMS_BME": "11 12 13 14 15 18 19 16 17 21 22 23 24 25 28 29 26 27",
    "PMS_5B": "13 14 15 22",
}


def interp_layout(name):
    """the table the written bytes are interpreted with: documented channel -> column, plus the shipped entries of columns / channels the
    documentation does not mention"""
    doc = {ch.encode(): col for col, ch in enumerate(DOC_LAYOUTS[name].split())}
    lay = {k: v for k, v in layout_of(name).items() if not (isinstance(v, int) and not isinstance(v, bool) and (k in doc or v in doc.values()))}
    lay.update(doc)
    return lay


def columns_of(name):
    """every column the layout offers: the documented ones and the shipped ones"""
    return sorted(set(note_lanes(layout_of(name)).values()) | set(range(len(DOC_LAYOUTS[name].split()))))


def _labels_for(rng, n, mode):
    """explicit row labels of a list with n rows (JSON-able), or 'default' / 'sorted'"""
    if n == 0 or mode in ("default", "sorted"):
        return mode
    if mode == "gappy_rev":
        return [3 * i + 2 for i in range(n)][::-1]
    if mode == "offset":  # as a filter that cut the head of a longer list leaves them
        k = rng.choice([1, 7, 100])
        return list(range(k, k + n))
    if mode == "rev":
        return list(range(n - 1, -1, -1))
    lab = list(range(n))
    rng.shuffle(lab)
    return lab


def gen_source_text(rng, layout_name, lnobj, samples, src_lnobj=None):
    """a small, plain BMS text (one tempo, 4/4, objects on simple subdivisions) a chart object is READ from before it is changed into the chart of
    the case: -> dict(layout, lines, write_first, samples_how).  Its #LNOBJ (80%: present) is in 3 of 4 texts ANOTHER id than the LN end id the
    chart gets afterwards; its #WAV table, title, artist, level and other headers differ from the chart's; 1 in 6 texts spells its headers in
    lower case; 1 in 4 gives its #LNOBJ id a #WAV entry as well (the reason to move the LN end id away from it)."""
    chans = DOC_LAYOUTS[layout_name].split()
    r = rng.random()
    src_ln = "" if r < 0.2 else lnobj if (r < 0.4 and lnobj) else rng.choice([x for x in SRC_LNOBJ if x.upper() != lnobj.upper()] or ["ZY"])
    if src_lnobj is not None:
        src_ln = src_lnobj
    low = rng.random() < 1 / 6
    K = (lambda k: k.lower()) if low else (lambda k: k)
    lines = [f"#{K('TITLE')} source title {rng.randrange(100)}", f"#{K('ARTIST')} source artist", f"#{K('BPM')} {rng.choice(['120', '150', '90.5'])}", f"#{K('PLAYLEVEL')} {rng.randrange(1, 13)}"]
    for k, v in rng.sample(SRC_HEADERS, rng.randrange(0, 4)):
        lines.append(f"#{K(k)} {v}")
    if src_ln:
        lines.insert(rng.randrange(2, len(lines) + 1), f"#{K('LNOBJ')} {src_ln}")
    ids = [i for i in ["01", "02", "0A", "1Z"][: rng.randrange(1, 5)] if i != src_ln.upper()] or ["0B"]  # (the marker id is no ordinary object of this text)
    for i in ids:
        lines.append(f"#WAV{i} src {i}.wav")
    if src_ln and rng.random() < 0.25:
        lines.append(f"#WAV{src_ln.upper()} src marker.wav")
    if rng.random() < 0.3:
        lines += ["#BPM01 180", "#00208:01"]
    lines.append("")
    for meas in range(rng.randrange(1, 4)):
        for ch in rng.sample(chans, rng.randrange(1, min(4, len(chans)) + 1)):
            n = rng.choice([1, 2, 4, 8])
            seq = [rng.choice(ids + ["00", "00"]) for _ in range(n)]
            if not any(x != "00" for x in seq):
                seq[0] = ids[0]
            if src_ln and n >= 2 and rng.random() < 0.6:  # a long note: the object before the marker is its head
                j = rng.randrange(1, n)
                seq[j - 1], seq[j] = ids[0], src_ln
            lines.append(f"#{meas + 1:03d}{ch}:{''.join(seq)}")
    return dict(layout=layout_name, lines=lines, write_first=rng.random() < 0.5, samples_how=rng.choice(["assigned", "in_place"]), lists_first=rng.random() < 0.5)


def gen_case(rng, layout_name, *, n_tempo=None, long_bpm=False, density=None, notes=None, far=None, int_ms=None, placeholder=None, lnobj=None,
             history=None, call=None, via_file=None, labels=None, empty_via=None, wide_bpm=None, last_measure=False, file_before=None, special=None, src_lnobj=None):
    """one chart + the way it is written.  Every dimension that is not forced by the caller is a mixture on `rng`."""
    lanes = columns_of(layout_name)
    notes = notes if notes is not None else (rng.choice(NOTE_SHAPES[1:]) if rng.random() < 0.22 else "both")
    if special is None:
        # (16) ids that are special only through an optional header / argument, as ORDINARY sample ids: ZZ (the class default of the LN end id)
        # when the LN end id is another one / when the chart has no long notes and no LN end id at all (ln_end_channel = b"": no #LNOBJ line);
        # 01 (the default placeholder of write()) as the id of a known sample.  (14) every object with a sample (and #WAV id) of its own
        r = rng.random()
        special = "zz_sample_lnobj_other" if r < 0.06 else "zz_sample_no_lnobj" if r < 0.12 else "sample_01" if r < 0.17 else "own_sample_each" if r < 0.29 else ""
    if special == "zz_sample_no_lnobj":
        notes = {"both": "no_holds", "no_hits": "none", "one_hold": "one_hit"}.get(notes, notes)
    int_ms = (rng.random() < 0.1 and not long_bpm) if int_ms is None else int_ms
    far = (rng.random() < 0.08) if far is None else far
    n_tempo = n_tempo if n_tempo is not None else rng.choice([1, 1, 2, 2, 3, 4, 6])
    wide_bpm = (rng.random() < 0.08 and not int_ms and not long_bpm) if wide_bpm is None else wide_bpm
    measures = [0]
    for _ in range(n_tempo - 1):
        measures.append(measures[-1] + (rng.choice([40, 90, 150]) if far else rng.choice([1, 1, 2, 3])))
    if last_measure and n_tempo > 1:
        measures[-1] = 999  # the last measure line the format has
    pool = INT_BPM if int_ms else BPM_POOL + (BPM_LONG if long_bpm else [])
    if wide_bpm:
        pool = BPM_WIDE + pool[:2]
    tempo = [[m, rng.choice(pool)] for m in measures]
    if long_bpm and not any(b in BPM_LONG for _, b in tempo):
        tempo[rng.randrange(len(tempo))][1] = rng.choice(BPM_LONG)
    if wide_bpm and not any(b in BPM_WIDE for _, b in tempo):
        tempo[rng.randrange(len(tempo))][1] = rng.choice(BPM_WIDE)
    total = measures[-1] + (rng.choice([1, 30, 200]) if far else rng.choice([1, 2, 3]))
    total = min(total, 999)
    if last_measure:
        total = 1000  # measures 000..999: objects up to the end of measure 999
    tl = MemTimeline(tempo)

    # ---- the way write() is called: placeholder id for unknown samples, LN end id, entry point
    if placeholder is None:
        placeholder = b36(rng.randrange(1, 1296)).decode() if rng.random() < 0.3 else ""
    if placeholder in ("", "01"):
        lnobj = lnobj or rng.choice(["ZZ", "ZZ", "ZY", "0Z", "zz"])
    else:
        # an own placeholder is what lets a chart use 01 as its LN end id
        lnobj = lnobj or rng.choice(["01", "01", "ZZ", "0Z", "1A"])
        if placeholder.upper() == lnobj.upper():
            placeholder = "X7" if lnobj.upper() != "X7" else "X8"
    if special == "zz_sample_lnobj_other" and lnobj.upper() == "ZZ":
        lnobj = rng.choice(["ZY", "0Z", "1A", "zy"])
    if special == "zz_sample_no_lnobj":
        lnobj = ""  # no long notes, no LN end id, no #LNOBJ line
    n_s = rng.randrange(0, 6)
    ids = set()
    while len(ids) < n_s:
        i = b36(rng.randrange(1, 1296)).decode()
        if i != lnobj.upper():
            ids.add(i)
    if rng.random() < 0.1:
        ids = {i.lower() for i in ids}  # ids are names: lower-case ones are as good as upper-case ones
    name = rng.choice(SAMPLE_NAMES)
    samples = {i: name.format(k=k) for k, i in enumerate(sorted(ids))}
    forced = "ZZ" if special.startswith("zz_sample") else "01" if special == "sample_01" and lnobj.upper() != "01" else None
    if forced:
        samples.pop(forced.lower(), None)
        samples[forced] = f"special {forced}.wav"

    objs = []  # dict(kind, col, beat (text of a Fraction | None), t, len, grid, sample)
    density = density if density is not None else rng.choice([2, 4, 8, 16])
    # half of the charts crowd their objects into a window of 1..2 measures (several objects per written line)
    w0 = rng.randrange(0, total) if rng.random() < 0.5 else 0
    w1 = min(total, w0 + rng.choice([1, 2])) if rng.random() < 0.5 or w0 else total
    if last_measure:
        w0, w1 = rng.choice([998, 999]), 1000
    p_hold = {"no_holds": 0.0, "one_hit": 0.0, "no_hits": 1.0, "one_hold": 1.0}.get(notes, 0.4)
    prev = []
    dens = (1, 2, 4) if int_ms else GRID_DENS
    for col in rng.sample(lanes, rng.randrange(1, min(len(lanes), 6) + 1)) if notes != "none" else []:
        pos = []
        for _ in range(rng.randrange(1, density + 1)):
            r = rng.random()
            if r < 0.6 or int_ms:
                d = rng.choice(dens)
                pos.append((Fraction(rng.randrange(4 * w0 * d, 4 * w1 * d), d), True))
            elif r < 0.88:
                pos.append((Fraction(rng.randrange(4 * w0 * 10**6, 4 * w1 * 10**6), 10**6), False))  # arbitrary time
            elif r < 0.94:
                # a hair beside a grid point (float noise of an editor)
                d = rng.choice(GRID_DENS)
                pos.append((Fraction(rng.randrange(4 * w0 * d, 4 * w1 * d), d) + Fraction(rng.randrange(1, 10), 10**7), False))
            else:
                # half way between two neighbouring 1/192 positions
                pos.append((Fraction(2 * rng.randrange(4 * w0 * 192, 4 * w1 * 192) + 1, 384), False))
        # boundaries and ties: time 0, exactly on a tempo point / measure line, the same times as the previous lane (chords)
        if rng.random() < 0.25:
            pos.append((Fraction(0), True))
        if rng.random() < 0.3:
            pos.append((Fraction(4 * rng.choice(measures)), True))
        if rng.random() < 0.15:
            pos.append((Fraction(4 * rng.randrange(w0, w1)), True))
        if prev and rng.random() < 0.3:
            pos.extend(rng.sample(prev, rng.randrange(1, len(prev) + 1)))
        if last_measure:
            # the format has measures 000..999: an OFF-grid position so close to the end of measure 999 that its nearest
            # grid position is the line of measure 1000 has no written form at all - outside the domain, so it is moved
            # one 1/24 beat earlier (no random choice involved: every other case stays as it was)
            pos = [(b - Fraction(1, 24), g) if (not g and b > 4000 - Fraction(1, 48)) else (b, g) for b, g in pos]
        pos.sort()
        kept = []
        for p, g in pos:
            if g is False and (p % 1).denominator <= 96:
                g = True
            if not kept or p - kept[-1][0] >= MIN_GAP:
                kept.append((p, g))
        if notes in ("one_hit", "one_hold"):
            kept = kept[: (1 if notes == "one_hit" else 2)] if not objs else []
        prev = list(kept)
        if wide_bpm:
            # very slow next to very fast tempo: a float time can be visibly beside the grid point it was computed from; "on the grid" (exact
            # position demanded) only where the in-memory time is within 1e-9 beat of it, as in every other chart of this generator
            kept = [(p, g and abs(tl.beat_of_ms(Fraction(float(tl.ms_of_beat(p)))) - p) <= Fraction(1, 10**9)) for p, g in kept]
        i = 0
        while i < len(kept):
            p, g = kept[i]
            smp = rng.choice(list(samples.values()) + ["", "not in table.wav"])
            t = float(tl.ms_of_beat(p))
            if i + 1 < len(kept) and rng.random() < p_hold:
                p2, g2 = kept[i + 1]
                t2 = float(tl.ms_of_beat(p2))
                objs.append(dict(kind="hold", col=col, t=t, len=t2 - t, grid=bool(g), grid_tail=bool(g2), beat=str(p) if g else None, beat_tail=str(p2) if g2 else None, sample=smp))
                i += 2
            elif p_hold < 1.0:
                objs.append(dict(kind="hit", col=col, t=t, grid=bool(g), beat=str(p) if g else None, sample=smp))
                i += 1
            else:
                i += 1  # a chart of long notes only: the odd position out is left empty
    if forced:
        for o in rng.sample(objs, min(len(objs), 2)):
            o["sample"] = samples[forced]
    if special == "own_sample_each":
        for k, o in enumerate(objs):
            i = b36(rng.randrange(1, 1296)).decode()
            while i in samples or i.lower() in samples or i == lnobj.upper():
                i = b36(rng.randrange(1, 1296)).decode()
            samples[i] = f"own {k} {name.format(k=k)}"
            o["sample"] = samples[i]
    rng.shuffle(objs)
    meta = dict(title=rng.choice(TITLES), artist=rng.choice(["", "someone", "作曲者 feat. X / obj:Y"]), version=rng.choice(["", "12"]), as_bytes=rng.random() < 0.5)
    misc = {}
    for k, v in rng.sample(MISC_POOL, rng.choice([0, 0, 1, 3])):
        misc[k] = dict(value=v, as_bytes=rng.random() < 0.5)
    order = list(range(len(tempo)))
    if len(order) > 1 and rng.random() < 0.35:
        rng.shuffle(order)
    n_hit, n_hold = sum(o["kind"] == "hit" for o in objs), sum(o["kind"] == "hold" for o in objs)
    if labels is None:
        labels = dict(bpms=_labels_for(rng, len(tempo), rng.choice(LABEL_MODES)), hits=_labels_for(rng, n_hit, rng.choice(LABEL_MODES)),
                      holds=_labels_for(rng, n_hold, rng.choice(LABEL_MODES)))
    num = "float"
    if int_ms and all(float(x).is_integer() for o in objs for x in (o["t"], o.get("len", 0.0))) and all(x.is_integer() for x in tl.off_f):
        num = "int"
    elif rng.random() < 0.25:
        num = "numpy"
    history = history or (rng.choice(EDIT_HISTORIES) if rng.random() < 0.2 else rng.choice(HISTORIES))
    call = call or rng.choice(CALLS)
    if call == "default_layout" and layout_name != "BME":
        call = "kw"
    case = dict(layout=layout_name, tempo=tempo, lnobj=lnobj, samples=samples, objs=objs, meta=meta, tempo_row_order=order, labels=labels,
                via_file=(rng.random() < 0.3) if via_file is None else via_file, path_kind=rng.choice(["str", "Path"]), misc=misc, num=num,
                no_sample_default=placeholder or None, call=call, history=history, empty_via=empty_via or rng.choice(["ctor", "filter"]),
                lnobj_set=not (lnobj == "ZZ" and rng.random() < 0.3))
    if special:
        case["special"] = special
    if history == READ_HISTORY:
        case["source"] = gen_source_text(rng, layout_name, lnobj, samples, src_lnobj=src_lnobj)
        case["lnobj_set"] = True  # (a chart that was read has the LN end id of its text, not the class default)
    if case["via_file"]:
        case["file_before"] = file_before or rng.choice(FILE_BEFORE)
    if history in ("after_other", "edit_replaced") or case.get("file_before") == "other_chart":
        # another chart that is built and written first (after_other: and stays alive) in the same process; edit_replaced: the chart object
        # itself held that chart first; other_chart: that chart was exported to the same path before
        case["other"] = gen_case(rng, rng.choice(LAYOUT_NAMES), n_tempo=rng.choice([1, 2, 3]), density=rng.choice([2, 2, 8]), history="fresh", via_file=False)
    return case


def _relabel(lst, lab):
    """the same rows under other row labels (row labels of a list are arbitrary: sorts, filters and edits leave them non-default)"""
    if len(lst) == 0 or lab in (None, "default"):
        return lst
    if lab == "sorted":
        return lst.sorted()  # rows in time order, labels permuted
    if lab == "gappy":  # (cases saved before the labels became explicit)
        lab = [3 * i + 2 for i in range(len(lst))][::-1]
    if isinstance(lab, list) and len(lab) == len(lst):
        return type(lst)(lst.df.set_axis(lab))
    return lst


def _filtered_empty(cls, item):
    """an empty list as a filter leaves it (every row cut away), not as the constructor makes it"""
    return cls([item]).after(1e15)


def _rotation(layout_name):
    """a bijection of the layout's columns onto themselves without a fixed point (the chart BEFORE a column edit sits in these lanes)"""
    lanes = columns_of(layout_name)
    return {c: lanes[(i + 1) % len(lanes)] for i, c in enumerate(lanes)}


def build_map(case, variant=None, held=None):
    """the chart of the case, or - variant - another legal chart from which public edits lead to it:
    'scaled': every time doubled, every tempo halved (exact in floats); 'columns': every object in the lane _rotation() gives;
    'held_back': without its last hit, its last hold and (when no object lies at or after it) its last tempo point, which are put into `held`"""
    import numpy as np
    from reamber.bms import BMSMap, BMSHit, BMSHold
    from reamber.bms.BMSBpm import BMSBpm
    from reamber.bms.lists import BMSBpmList
    from reamber.bms.lists.notes import BMSHitList, BMSHoldList

    tl = MemTimeline(case["tempo"])
    num = case.get("num", "float")
    k = 2 if variant == "scaled" else 1
    rot = _rotation(case["layout"]) if variant == "columns" else None
    raw = np.float64 if num == "numpy" else float
    fl = lambda x: raw(x * k)  # noqa: E731
    it = (lambda x: np.int64(x if rot is None else rot[x])) if num == "numpy" else (lambda x: int(x if rot is None else rot[x]))
    m = BMSMap()
    bpm_rows = [BMSBpm(offset=fl(o), bpm=raw(b / k), metronome=4) for o, b in zip(tl.off_f, tl.bpm_f)]
    t_end = max([o["t"] + o.get("len", 0.0) for o in case["objs"]], default=-1.0)
    if variant == "held_back" and len(bpm_rows) > 1 and t_end < tl.off_f[-1]:
        held["bpm"] = bpm_rows[-1]
    # a chart is a set of timed objects: the tempo rows may be stored in any order (append without sort)
    perm = case.get("tempo_row_order")
    if perm is not None and len(perm) == len(bpm_rows):
        bpm_rows = [bpm_rows[i] for i in perm]
    if variant == "held_back" and "bpm" in held:
        bpm_rows = [r for r in bpm_rows if r is not held["bpm"]]
    labels = case.get("labels")
    if not isinstance(labels, dict):
        labels = dict(bpms=labels)  # (older cases: one mode, for the tempo list)
    m.bpms = _relabel(BMSBpmList(bpm_rows), labels.get("bpms"))
    hits = [BMSHit(offset=fl(o["t"]), column=it(o["col"]), sample=o["sample"].encode("shift_jis")) for o in case["objs"] if o["kind"] == "hit"]
    holds = [BMSHold(offset=fl(o["t"]), column=it(o["col"]), length=fl(o["len"]), sample=o["sample"].encode("shift_jis")) for o in case["objs"] if o["kind"] == "hold"]
    if variant == "held_back":
        if hits:
            held["hit"] = hits.pop()
        if holds:
            held["hold"] = holds.pop()
    filt = case.get("empty_via") == "filter"
    m.hits = _relabel(BMSHitList(hits), labels.get("hits")) if hits or not filt else _filtered_empty(BMSHitList, BMSHit(offset=0.0, column=0, sample=b""))
    m.holds = _relabel(BMSHoldList(holds), labels.get("holds")) if holds or not filt else _filtered_empty(BMSHoldList, BMSHold(offset=0.0, column=0, length=1.0, sample=b""))
    if num == "int":
        # whole-millisecond charts held in int-typed columns
        m.bpms = BMSBpmList(m.bpms.df.astype(dict(offset="int64", **({"bpm": "int64"} if all((b / k).is_integer() for b in tl.bpm_f) else {}))))
        if hits:
            m.hits = BMSHitList(m.hits.df.astype(dict(offset="int64")))
        if holds:
            m.holds = BMSHoldList(m.holds.df.astype(dict(offset="int64", length="int64")))
    m.samples = {k.encode(): v.encode("shift_jis") for k, v in case["samples"].items()}
    if case.get("lnobj_set", True):
        m.ln_end_channel = case["lnobj"].encode()
    enc = (lambda s: s.encode("shift_jis")) if case["meta"]["as_bytes"] else (lambda s: s)
    m.title, m.artist, m.version = enc(case["meta"]["title"]), enc(case["meta"]["artist"]), enc(case["meta"]["version"])
    for k, v in (case.get("misc") or {}).items():
        if v["as_bytes"]:
            m.misc[k.encode()] = v["value"].encode("shift_jis")
        else:
            m.misc[k] = v["value"]
    return m, tl


def _call_write(m, case, path=None):
    """write() / write_file() the way the case says: keyword, positional, through the class, layout left at its default (BME)"""
    from reamber.bms import BMSMap

    lay = layout_of(case["layout"])
    nsd = case.get("no_sample_default")
    nsd = nsd.encode() if nsd else None
    call = case.get("call", "kw")
    head = [] if path is None else [path]
    if call == "positional":
        args, kw = head + [lay] + ([nsd] if nsd is not None else []), {}
    elif call == "default_layout" and case["layout"] == "BME":
        args, kw = head, (dict(no_sample_default=nsd) if nsd is not None else {})
    else:
        args, kw = head, dict(note_channel_config=lay, **(dict(no_sample_default=nsd) if nsd is not None else {}))
    if call == "class":
        return (BMSMap.write if path is None else BMSMap.write_file)(m, *args, **kw)
    return (m.write if path is None else m.write_file)(*args, **kw)


class EditStepError(Exception):
    """a public list / stack / rate operation of an edit history raised: not an observation of the writer"""


def _edit(step, fn):
    try:
        return fn()
    except Exception as e:  # noqa
        raise EditStepError(f"{step}: {type(e).__name__}: {e}") from e


def prepare(case, keep=None, first_path=None):
    """-> (the chart object after its history - everything up to, not including, the write that is checked -, in-memory timeline).
    Earlier writes of the history go through write() or, when `first_path` is given, through write_file(first_path) (the path then already
    holds an earlier export when the checked write_file comes)."""
    other_ph = b"0X" if case["lnobj"].upper() != "0X" else b"0W"

    def first(mm, c, **kw):
        first.done = True
        if kw:
            return mm.write(**kw) if first_path is None else mm.write_file(first_path, **kw)
        return _call_write(mm, c, path=first_path)

    first.done = False
    history = case.get("history", "fresh")
    if history == "after_other" and case.get("other"):
        mo, _ = build_map(case["other"])
        _call_write(mo, case["other"])
        if keep is not None:
            keep.append(mo)  # two charts alive at once
    kind = history[5:] if history.startswith("edit_") else None
    if kind and kind.startswith("scaled") and case.get("num") == "int":
        kind = "columns_props"  # (halved tempo values would not stay whole numbers)
    if kind == "replaced" and not case.get("other"):
        kind = None
    if kind is None:
        m, tl = build_map(case)
        if history == "second_write":
            # the same chart written before, with another placeholder id: results of two calls do not influence each other
            first(m, case, note_channel_config=layout_of(case["layout"]), no_sample_default=other_ph)
    elif kind == "replaced":
        # the object held (and wrote) another chart; every list and field is then assigned anew
        m, _ = build_map(case["other"])
        first(m, case["other"])
        src, tl = build_map(case)
        m.hits, m.holds, m.bpms = src.hits, src.holds, src.bpms
        m.samples, m.ln_end_channel, m.title, m.artist, m.version, m.misc = src.samples, src.ln_end_channel, src.title, src.artist, src.version, src.misc
    elif kind == "read_then_changed":
        from reamber.bms import BMSMap

        src = case["source"]
        m = _edit("BMSMap.read(<source text>)", lambda: BMSMap.read(list(src["lines"]), layout_of(src["layout"])))
        if src.get("write_first"):
            _edit("write() of the chart as it was read", lambda: first(m, dict(case, layout=src["layout"])))
        new, tl = build_map(case)

        def lists():
            m.hits, m.holds, m.bpms = new.hits, new.holds, new.bpms

        if src.get("lists_first"):
            lists()
        m.ln_end_channel = case["lnobj"].encode()
        m.title, m.artist, m.version = new.title, new.artist, new.version
        if src.get("samples_how") == "in_place":
            m.samples.clear()
            m.samples.update(new.samples)
        else:
            m.samples = new.samples
        for k, v in new.misc.items():
            m.misc[k] = v  # what the reader left in misc stays there
        if not src.get("lists_first"):
            lists()
    elif kind.startswith("scaled"):
        m, tl = build_map(case, variant="scaled")
        first(m, case)
        if kind == "scaled_rate":
            m = _edit("rate(2)", lambda: m.rate(2.0))  # (a new chart object derived from the one written before)
        elif kind == "scaled_stack":
            def go():
                s = m.stack()
                s.offset /= 2
                s.bpm *= 2
                if len(m.holds):
                    s.length /= 2
            _edit("stack().offset /= 2; .bpm *= 2; .length /= 2", go)
        else:
            def go():
                m.hits.offset = m.hits.offset / 2
                m.holds.offset = m.holds.offset / 2
                m.holds.length = m.holds.length / 2
                m.bpms.offset = m.bpms.offset / 2
                m.bpms.bpm = m.bpms.bpm * 2
            _edit("<list>.offset = <list>.offset / 2 ...", go)
    elif kind.startswith("columns"):
        m, tl = build_map(case, variant="columns")
        first(m, case)
        inv = {v: k for k, v in _rotation(case["layout"]).items()}
        if kind == "columns_stack" and (len(m.hits) or len(m.holds)):
            def go():
                s = m.stack()
                s.column = s.column.map(inv)
            _edit("stack().column = stack().column.map(...)", go)
        else:
            def go():
                m.hits.column = m.hits.column.map(inv)
                m.holds.column = m.holds.column.map(inv)
            _edit("<list>.column = <list>.column.map(...)", go)
    else:  # appended
        held = {}
        m, tl = build_map(case, variant="held_back", held=held)
        first(m, case)

        def go():
            if "hit" in held:
                m.hits = m.hits.append(held["hit"])
            if "hold" in held:
                m.holds = m.holds.append(held["hold"])
            if "bpm" in held:
                m.bpms = m.bpms.append(held["bpm"])
        _edit("<list> = <list>.append(item)", go)
    if first_path is not None and not first.done:
        m.write_file(first_path, note_channel_config=layout_of(case["layout"]), no_sample_default=other_ph)
    return m, tl


def write_real(case, keep=None):
    import warnings

    with warnings.catch_warnings():
        warnings.simplefilter("ignore")
        m, tl = prepare(case, keep=keep)
        return _call_write(m, case), tl


def _active(points, t):
    cur = points[0][1]
    for pt, pb in points:
        if pt <= t:
            cur = pb
    return cur


def _cmp_timelines(got, want, tol_t, tol_b):
    """Compare two tempo timelines as FUNCTIONS time -> active bpm (redundant points do not matter): on every
    interval between consecutive breakpoints of either list that is wider than 2*tol_t the active bpms agree
    within tol_b.  -> (ok, detail, max bpm deviation)"""
    cuts = sorted({t for t, _ in got} | {t for t, _ in want})
    cuts.append(cuts[-1] + 1000.0)
    dev = 0.0
    for a, b in zip(cuts, cuts[1:]):
        if b - a <= 2 * tol_t:
            continue
        mid = (a + b) / 2
        g, w = _active(got, mid), _active(want, mid)
        dev = max(dev, abs(g - w))
        if abs(g - w) > tol_b:
            return False, f"at {mid} ms the file's tempo is {g}, the chart's is {w} (file {got[:6]}, chart {want[:6]})", dev
    return True, "", dev


STALE_LNOBJ_CLAUSE = "read_then_ln_end_id_cleared"


def _src_lnobj(case):
    """the #LNOBJ id of the text the chart object was read from ('' when it has none / the chart was not read)"""
    ids = [ln.split(None, 1)[1].strip() for ln in (case.get("source") or {}).get("lines", []) if ln.upper().startswith("#LNOBJ ") and len(ln.split(None, 1)) == 2]
    return ids[-1] if ids else ""


def run_case(case):
    """-> (failures [(clause, detail)], observations dict).  One class of charts has a clause of its own (STALE_LNOBJ_CLAUSE): the chart object was
    read from a text WITH #LNOBJ and the chart it holds when written has NO LN end id (ln_end_channel = b'', no long notes): whatever the
    written file gets wrong about the objects of such a chart is reported under that one id."""
    fails, obs = _run_case_all(case)
    if _src_lnobj(case) and case["lnobj"] == "":
        own = [(w, d) for w, d in fails if w in ("file_well_formed", "object_merged_or_dropped", "lane")]
        if own:
            detail = (f"the chart object was read from a text with #LNOBJ {_src_lnobj(case)}; its ln_end_channel was then set to b'' (no long notes, id {_src_lnobj(case).upper()} an ordinary sample id): "
                      + "; ".join(f"{w}: {d}" for w, d in own))
            fails = [(w, d) for w, d in fails if (w, d) not in own] + [(STALE_LNOBJ_CLAUSE, detail)]
    return fails, obs


def _run_case_all(case):
    obs = {}
    fails = []
    lay = interp_layout(case["layout"])  # the documented table, not the one the writer uses
    alive = []
    try:
        data, tl = write_real(case, keep=alive)
    except EditStepError as e:
        return [], dict(edit_step_raised=str(e)[:200])
    except Exception as e:  # noqa
        return [("write_raises", f"{type(e).__name__}: {e}")], obs
    if not isinstance(data, (bytes, bytearray)):
        return [("write_raises", f"write returned {type(data).__name__}, not bytes")], obs
    if case.get("via_file"):
        fails += _write_file_fails(case, bytes(data))
    if case.get("tempo_table_only"):
        return fails + _tempo_table_fails(case, bytes(data)), obs

    # ---- every line syntactically valid
    for ln in data.replace(b"\r\n", b"\n").split(b"\n"):
        s = ln.strip()
        if not s:
            continue
        if not (_DATA_LINE.match(s) if re.match(rb"^#[0-9]", s) else _HEADER_LINE.match(s)):
            fails.append(("line_syntax", f"line {s[:80]!r} is neither `#KEY value` nor `#mmmcc:` + an even number of base-36 characters"))
            break
    den = den_bms(data, lay)
    if den.bad_lines and not any(w == "line_syntax" for w, _ in fails):
        fails.append(("line_syntax", f"{den.bad_lines[:2]}"))
    if den.problems:
        fails.append(("file_well_formed", "; ".join(den.problems[:3])))

    # ---- tempo timeline
    want_t = [(float(o), float(b)) for o, b in zip(tl.off, tl.bpm)]
    got_t = [(float(t), float(b)) for t, b in den.tempo]
    long_bpm = any(len(b.partition(".")[2]) > 3 for _, b in case["tempo"])
    # tempo values with more than 3 decimals are printed rounded by the writer: tolerated (0.0005) and observed only
    # (a tempo value printed 0.0005 off moves every LATER tempo point by up to <time it is active> * 0.0005 / bpm: with tempo points 40..150
    # measures apart that is more than the flat 1 ms; the time tolerance of this observed-only class is what the value tolerance implies)
    tol_long = 1.0 + sum((o2 - o1) * 5.0001e-4 / b for (o1, b), (o2, _b2) in zip(want_t, want_t[1:]))
    ok, detail, dev = _cmp_timelines(got_t, want_t, TOL_MS if not long_bpm else tol_long, 5.0001e-4 if long_bpm else 1e-9)
    if not ok:
        fails.append(("tempo_timeline", detail))
    if long_bpm:
        obs["bpm_rounded_to_3_decimals_max_dev"] = dev
    tempo_ok = not any(w == "tempo_timeline" for w, _ in fails)

    # ---- objects
    hits = [o for o in case["objs"] if o["kind"] == "hit"]
    holds = [o for o in case["objs"] if o["kind"] == "hold"]
    n_w, n_m = len(den.hits) + len(den.holds), len(hits) + len(holds)
    if len(den.hits) != len(hits) or len(den.holds) != len(holds):
        fails.append(("object_merged_or_dropped", f"file denotes {len(den.hits)} hits + {len(den.holds)} holds, chart has {len(hits)} + {len(holds)}"))
        return fails, obs
    sample_id = {v.encode("shift_jis"): k.encode() for k, v in case["samples"].items()}
    # which id an object WITHOUT a known sample gets is not part of the statement: only observed (write()'s own documentation
    # says: the id passed as no_sample_default)
    placeholder = (case.get("no_sample_default") or "01").encode()

    def observe_unknown(o, oid):
        if o["sample"].encode("shift_jis") not in sample_id:
            obs["unknown_sample_objects"] = obs.get("unknown_sample_objects", 0) + 1
            if oid != placeholder:
                obs["unknown_sample_objects_not_written_with_the_placeholder"] = obs.get("unknown_sample_objects_not_written_with_the_placeholder", 0) + 1

    def cmp_time(kind, col, t_mem, on_grid, beat_txt, beat_w, ms_w):
        """one written position against one in-memory time"""
        b_mem = tl.beat_of_ms(Fraction(t_mem))
        if on_grid:
            if Fraction(beat_txt) != beat_w:
                return (f"{kind}_position_on_grid", f"col {col}: chart time {t_mem} ms is beat {beat_txt} (on the grid) but the file puts it at beat {beat_w}")
            if tempo_ok and not long_bpm and abs(float(ms_w) - t_mem) > TOL_MS:
                return (f"{kind}_time_on_grid", f"col {col}: chart {t_mem} ms, file denotes {float(ms_w)} ms (beat {beat_w})")
        elif abs(beat_w - b_mem) > Fraction(1, 192) + Fraction(1, 10**9):
            return (f"{kind}_time_off_grid", f"col {col}: chart time {t_mem} ms = beat {float(b_mem)}, file puts it at beat {beat_w} = {float(beat_w)}: {float(abs(beat_w - b_mem) * 192)} x 1/192 beat away")
        return None

    for col in sorted({o["col"] for o in case["objs"]} | {h[0] for h in den.hits} | {h[0] for h in den.holds}):
        mh = sorted((o for o in hits if o["col"] == col), key=lambda o: o["t"])
        wh = [h for h in den.hits if h[0] == col]
        ml = sorted((o for o in holds if o["col"] == col), key=lambda o: o["t"])
        wl = [h for h in den.holds if h[0] == col]
        if len(mh) != len(wh) or len(ml) != len(wl):
            fails.append(("lane", f"column {col}: file has {len(wh)} hits / {len(wl)} holds, chart has {len(mh)} / {len(ml)}"))
            break
        for o, (c, ms, smp, beat, oid) in zip(mh, wh):
            r = cmp_time("hit", col, o["t"], o["grid"], o["beat"], beat, ms)
            if r:
                fails.append(r)
                break
            want_id = sample_id.get(o["sample"].encode("shift_jis"))
            if want_id is not None and oid != want_id:
                fails.append(("known_sample_id", f"hit col {col} at {o['t']} ms has sample {o['sample']!r} = #WAV{want_id.decode()} but is written as object {oid.decode()}"))
                break
            observe_unknown(o, oid)
        for o, (c, ms, ln_ms, smp, hb, tb, oid) in zip(ml, wl):
            r = cmp_time("hold_head", col, o["t"], o["grid"], o["beat"], hb, ms)
            r = r or cmp_time("hold_tail", col, o["t"] + o["len"], o["grid_tail"], o["beat_tail"], tb, ms + ln_ms)
            if r:
                fails.append(r)
                break
            want_id = sample_id.get(o["sample"].encode("shift_jis"))
            if want_id is not None and oid != want_id:
                fails.append(("known_sample_id", f"hold col {col} at {o['t']} ms has sample {o['sample']!r} = #WAV{want_id.decode()} but its head is object {oid.decode()}"))
                break
            observe_unknown(o, oid)
    return fails, obs


def _write_file_fails(case, data):
    """write_file(path, layout[, placeholder]) must leave exactly write(layout[, placeholder]) - which is checked to denote the chart - in the
    file, whatever the path held before (`file_before`: a new path, an empty file, a longer / shorter old text, the export of another chart,
    an earlier export of this very chart object: the earlier write of its history, or one with another placeholder id)"""
    import os
    import pathlib
    import shutil
    import tempfile
    import warnings

    before = case.get("file_before", "empty")
    d = tempfile.mkdtemp(prefix="c05_")
    path = os.path.join(d, "out chart.bms")
    clause = "write_file_equals_write" if before in ("empty", "absent") else "write_file_replaces_existing_file"
    try:
        with warnings.catch_warnings():
            warnings.simplefilter("ignore")
            first_path = None
            if before == "empty":
                open(path, "wb").close()
            elif before == "longer_text":
                with open(path, "wb") as f:
                    f.write(b"#TITLE old export\r\n#BPM 99\r\n#LNOBJ ZZ\r\n#BPM01 99.000\r\n\r\n" + b"".join(b"#%03d11:0A0B0C0DZZ00\r\n" % (i % 1000) for i in range(len(data) // 20 + 40)))
            elif before == "shorter_text":
                with open(path, "wb") as f:
                    f.write(b"#TITLE x")
            elif before == "other_chart" and case.get("other"):
                mo, _ = build_map(case["other"])
                _call_write(mo, case["other"], path=path)
            elif before == "same_path_twice":
                first_path = path
            m2, _ = prepare(case, first_path=first_path)
            n_before = os.path.getsize(path) if os.path.exists(path) else None
            _call_write(m2, case, path=pathlib.Path(path) if case.get("path_kind") == "Path" else path)
        with open(path, "rb") as f:
            got = f.read()
        if got != data:
            how = ("the new text stands BEHIND older content" if got.endswith(data) else "the new text is followed by older content" if got.startswith(data) else "the content differs")
            return [(clause, f"write_file(path, {case['layout']}) onto a path that held {before if n_before is not None else 'nothing'} ({n_before} bytes) left {len(got)} bytes in the file; write({case['layout']}) gives {len(data)} bytes: {how}")]
    except EditStepError:
        return []
    except Exception as e:  # noqa
        return [(clause, f"write_file raised {type(e).__name__}: {e}")]
    finally:
        shutil.rmtree(d, ignore_errors=True)
    return []


def _tempo_table_fails(case, data):
    """Charts with MORE tempo points than the format has measures (000..999) but within the documented number (ids 01..ZZ): the data lines of
    measures >= 1000 are outside the format and not judged; judged is (a) that the writer produces bytes at all (write_raises, by the caller),
    (b) the #BPMxx table: one entry per tempo point, pairwise distinct two-character base-36 ids, the values of the chart (3 decimals),
    (c) every tempo data line of a measure 000..999 refers to the entry holding the tempo of THAT measure line."""
    want = [(int(m), float(b)) for m, b in case["tempo"]]
    table = {}
    for ln in data.split(b"\r\n"):
        mt = re.match(rb"^#BPM([0-9A-Za-z]{2}) +(\S+)\s*$", ln.strip())
        if mt:
            if mt.group(1).upper() in table:
                return [("tempo_id_table", f"id {mt.group(1)!r} is defined twice in the #BPMxx table")]
            table[mt.group(1).upper()] = float(mt.group(2))
    if len(table) != len(want):
        return [("tempo_id_table", f"the #BPMxx table has {len(table)} entries for {len(want)} tempo points")]
    if sorted(round(v, 3) for v in table.values()) != sorted(round(b, 3) for _, b in want):
        return [("tempo_id_table", "the values of the #BPMxx table are not the tempo values of the chart")]
    by_measure = dict(want)
    seen = set()
    for ln in data.split(b"\r\n"):
        mt = re.match(rb"^#(\d{3})08:((?:[0-9A-Za-z]{2})+)\s*$", ln.strip())
        if not mt:
            continue
        ids = [mt.group(2)[i:i + 2].upper() for i in range(0, len(mt.group(2)), 2)]
        if any(i != b"00" for i in ids[1:]) or ids[0] not in table:
            return [("tempo_id_table", f"line {ln.strip()[:40]!r}: expected one defined tempo id on the measure line")]
        m = int(mt.group(1))
        seen.add(m)
        if m not in by_measure or abs(table[ids[0]] - by_measure[m]) > 5.0001e-4:
            return [("tempo_id_table", f"measure {m}: line {ln.strip()[:40]!r} selects tempo {table[ids[0]]}, the chart has {by_measure.get(m)} there")]
    need = {m for m, _ in want if m <= 999}
    if seen != need:
        return [("tempo_id_table", f"tempo data lines for measures {sorted(need ^ seen)[:5]} missing / unexpected")]
    return []


CLAUSES = (
    "tempo_id_table write_file_equals_write write_file_replaces_existing_file write_raises line_syntax file_well_formed tempo_timeline object_merged_or_dropped lane hit_position_on_grid hit_time_on_grid hit_time_off_grid "
    "hold_head_position_on_grid hold_head_time_on_grid hold_head_time_off_grid hold_tail_position_on_grid hold_tail_time_on_grid hold_tail_time_off_grid known_sample_id read_then_ln_end_id_cleared"
).split()


def _grid_cases():
    """every layout x every column it offers x (hit | hold) x (on grid | off grid), after one tempo change."""
    for name in LAYOUT_NAMES:
        for col in columns_of(name):
            tempo = [[0, "150"], [1, "177.5"]]
            tl = MemTimeline(tempo)
            for kind in ("hit", "hold"):
                for p, g in ((Fraction(4 + 7, 1) / 1 - Fraction(5, 96), True), (Fraction(5) + Fraction(123457, 10**6), False)):
                    t = float(tl.ms_of_beat(p))
                    o = dict(kind=kind, col=col, t=t, grid=g, beat=str(p) if g else None, sample="k.wav")
                    if kind == "hold":
                        p2 = p + Fraction(3, 2)
                        o.update(len=float(tl.ms_of_beat(p2)) - t, grid_tail=g, beat_tail=str(p2) if g else None)
                    yield dict(layout=name, tempo=tempo, lnobj="ZZ", samples={"0K": "k.wav"}, objs=[o], meta=dict(title="grid", artist="", version="", as_bytes=False))


TEMPO_COUNTS_BEYOND_THE_MEASURES = (1001, 1259, 1260, 1294)     # (24) boundary of the id space: 1260 = Z0 in base 36, 1294 = ZY, the last count the writer documents


def _many_tempo_case(rng, n):
    c = gen_case(rng, "BME", n_tempo=2, density=8, int_ms=False, far=False, notes="both", labels=dict(bpms="default", hits="default", holds="default"))
    pool = BPM_POOL
    c["tempo"] = [[m, pool[(m * 7) % len(pool)]] for m in range(n)]  # one tempo point on every measure line 0..n-1
    tl = MemTimeline(c["tempo"])
    objs = []
    for k in range(40):
        p = Fraction(rng.randrange(0, 4 * n * 48), 48)
        objs.append(dict(kind="hit", col=k % 8, t=float(tl.ms_of_beat(p)), grid=True, beat=str(p), sample=""))
    seen, keep = set(), []
    for o in objs:
        if (o["col"], o["beat"]) not in seen:
            seen.add((o["col"], o["beat"]))
            keep.append(o)
    c["objs"] = keep
    return c


def _edge_cases(rng):
    """a fixed family (whatever the seed): every layout x charts lacking one kind of object / any object, with 1..4 tempo points,
    empty lists made by the constructor and by a filter; own placeholder id with 01 as LN end id, through write() and write_file();
    every way of calling; every history; int-typed and numpy-typed columns; far measures"""
    for li, name in enumerate(LAYOUT_NAMES):
        for notes in NOTE_SHAPES[1:]:
            for n_tempo, via in ((1, "ctor"), (2, "filter"), (4, "ctor")):
                yield gen_case(rng, name, notes=notes, n_tempo=n_tempo, empty_via=via, far=False)
        for via_file in (False, True):
            yield gen_case(rng, name, placeholder=b36(rng.randrange(2, 1296)).decode(), lnobj="01", via_file=via_file, density=4)
        for call in CALLS[1:]:
            yield gen_case(rng, name, call=call, via_file=rng.random() < 0.5)
        for history in HISTORIES[2:]:
            yield gen_case(rng, name, history=history)
        yield gen_case(rng, name, int_ms=True, far=False)
        yield gen_case(rng, name, far=True, n_tempo=rng.choice([2, 3, 5]))
        yield gen_case(rng, name, notes="none", far=True, n_tempo=3)
        # call - legitimate change - call again; what the target of write_file held before; ends of the value ranges
        # (4 of the 7 edit histories and 4 of the 6 path states per layout, rotating: each is met under 2..3 layouts here)
        for j in range(4):
            yield gen_case(rng, name, history=EDIT_HISTORIES[(4 * li + j) % len(EDIT_HISTORIES)], int_ms=False, via_file=rng.random() < 0.3)
            yield gen_case(rng, name, via_file=True, file_before=FILE_BEFORE[(4 * li + j) % len(FILE_BEFORE)], density=rng.choice([2, 8]))
        yield gen_case(rng, name, via_file=True, file_before="same_path_twice", history=rng.choice(EDIT_HISTORIES))
        yield gen_case(rng, name, wide_bpm=True, n_tempo=rng.choice([2, 3, 4]), far=False)
        yield gen_case(rng, name, last_measure=True, n_tempo=rng.choice([1, 2, 3]), density=4)
        yield gen_case(rng, name, placeholder="ZZ", lnobj=rng.choice(["01", "ZY"]), density=4)
        for sp in ("zz_sample_lnobj_other", "zz_sample_no_lnobj", "sample_01", "own_sample_each"):
            yield gen_case(rng, name, special=sp, density=4, int_ms=False)


def _read_origin_cases(rng, n_random):
    """ORIGIN read-then-changed, a family of its own that is generated AFTER every other case (so the charts of the older families stay, seed by
    seed, what they were): per layout 3 charts with long notes (1 through write_file), 1 with id ZZ as an ordinary sample beside another LN end
    id, 1 read from a text with #LNOBJ ZZ that then holds a chart without long notes and without LN end id in which ZZ is an ordinary sample id
    (clause of its own); then n_random charts of the general mixture"""
    for name in LAYOUT_NAMES:
        for j in range(3):
            yield gen_case(rng, name, history=READ_HISTORY, notes="both", special="", density=rng.choice([4, 8]), via_file=(j == 2))
        yield gen_case(rng, name, history=READ_HISTORY, special="zz_sample_lnobj_other", density=4, int_ms=False)
        yield gen_case(rng, name, history=READ_HISTORY, special="zz_sample_no_lnobj", src_lnobj="ZZ", notes="no_holds", density=4, int_ms=False, via_file=False)
    for i in range(n_random):
        yield gen_case(rng, LAYOUT_NAMES[i % 5], history=READ_HISTORY, last_measure=False)


def _dims(case):
    """which of the enumerated dimensions a case exercises (for the evidence)"""
    kinds = {o["kind"] for o in case["objs"]}
    lab = case.get("labels") if isinstance(case.get("labels"), dict) else {}
    d = []
    d.append("notes:" + ("none" if not kinds else "hits_only" if kinds == {"hit"} else "holds_only" if kinds == {"hold"} else "both"))
    if not kinds and len(case["tempo"]) > 1:
        d.append("no_notes_with_tempo_changes")
    if len(case["objs"]) == 1:
        d.append("one_object")
    for k in ("bpms", "hits", "holds"):
        if lab.get(k) not in (None, "default"):
            d.append(f"labels_{k}_non_default")
    if case.get("no_sample_default"):
        d.append("own_placeholder")
        if case["lnobj"] == "01":
            d.append("own_placeholder_and_lnobj_01")
        if any(o["kind"] == "hold" and o["sample"] not in case["samples"].values() for o in case["objs"]):
            d.append("own_placeholder_and_hold_with_unknown_sample")
    d.append("call:" + case.get("call", "kw"))
    d.append("history:" + case.get("history", "fresh"))
    if case.get("via_file"):
        d.append("file_before:" + case.get("file_before", "empty"))
    if any(b in BPM_WIDE for _, b in case["tempo"]):
        d.append("bpm_from_the_ends_of_the_range")
    if case["tempo"][-1][0] == 999 or any(o["t"] + o.get("len", 0.0) >= MemTimeline(case["tempo"]).ms_of_beat(Fraction(4 * 999)) for o in case["objs"]):
        d.append("measure_999")
    d.append("num:" + case.get("num", "float"))
    if case.get("via_file"):
        d.append("write_file:" + case.get("path_kind", "str"))
    if case["tempo"][-1][0] >= 40:
        d.append("far_measures")
    if any(o["t"] == 0.0 for o in case["objs"]):
        d.append("object_at_time_0")
    if case.get("misc"):
        d.append("extra_header_entries")
    if not case.get("lnobj_set", True):
        d.append("lnobj_left_at_class_default")
    if any(k != k.upper() for k in case["samples"]):
        d.append("lower_case_ids")
    if case.get("special"):
        d.append("special:" + case["special"])
    if case.get("source"):
        src_ln = [ln.split(" ", 1)[1].strip() for ln in case["source"]["lines"] if ln.upper().startswith("#LNOBJ ")]
        d.append("read_from_text_then_changed")
        if src_ln and src_ln[-1].upper() != case["lnobj"].upper() and "hold" in kinds:
            d.append("read_from_text_then_LN_end_id_changed_with_long_notes")
        if not src_ln and "hold" in kinds:
            d.append("read_from_text_without_LNOBJ_then_long_notes_added")
    if "ZZ" in case["samples"] and any(o["sample"] == case["samples"]["ZZ"] for o in case["objs"]):
        d.append("object_with_sample_id_ZZ" + ("_no_lnobj_line" if case["lnobj"] == "" else ""))
    times = {}
    for o in case["objs"]:
        times.setdefault(o["t"], set()).add(o["col"])
    if any(len(v) > 1 for v in times.values()):
        d.append("chord_same_time_in_two_lanes")
    return d


@bounded("C05", note="in-memory charts written by the real BMSMap.write(note_channel_config) and re-interpreted by the independent BMS interpreter den_bms: objects, lanes, times, tempo timeline, line syntax; all five layouts")
def bms_write_vs_interpreter(rep):
    rng = rep.rng
    N = rep.n(300, 2000)
    big = rep.n(300, 1000)
    n_read = rep.n(35, 300)
    grid = list(_grid_cases())
    edge = list(_edge_cases(rng))
    rep.bound = (
        f"grid: {len(grid)} single-object charts (5 layouts x every column x hit|hold x on|off grid after a tempo change); edge: {len(edge)} charts (5 layouts x [no hits | no holds | no notes at all | one hit | one hold] x 1, 2, 4 tempo points "
        f"with empty lists from the constructor / left by a filter; own placeholder id + LN end id 01 through write() and write_file(); positional / class / default-layout calls; second write of one chart, another chart written before; "
        f"int-typed whole-ms columns; measures up to 999; every edit history; write_file onto every kind of earlier path content; tempo values {BPM_WIDE}; tempo point and objects in measure 999; placeholder id ZZ); random: {N} charts over 5 layouts, 1..6 tempo points on measure lines "
        f"(bpm pool of {len(BPM_POOL)} values with <= 3 decimals), 1..6 columns of the layout, 1..16 objects per column (half of the charts: all inside a 1..2 measure window) on the grid (denominators {GRID_DENS}) and off it (1e-6 beat raster, "
        f"1e-7 beat beside a grid point, half way between two 1/192 positions), >= 1/24 beat apart within a lane, objects at time 0 / on tempo points / on measure lines / at the same time in several lanes, 40% long notes, "
        f"samples known / unknown / empty (non-ASCII and ':' '#' in file names, 1/10 lower-case ids), str and bytes metadata (Shift-JIS multi-byte incl. wave dash, full-width space, 0x5C trail bytes; tab, ':' '#' '//' inside), extra header entries; "
        f"mixtures: 22% charts lacking a kind of object (no hits / no holds / no notes / exactly one), row labels of EACH of the tempo, hit and hold lists default / gappy reversed / offset / reversed / permuted / permuted by sorted() (3/8 default), "
        f"tempo rows out of time order (35%), 30% own no_sample_default id (then LN end id 01 in 40%), calls keyword / positional / via the class / layout defaulted, 30% write_file (str and pathlib paths) onto a path that is {' / '.join(FILE_BEFORE)} "
        f"(longer / shorter old text, the export of another chart, an earlier export of the same chart object), "
        f"32% with a history (the same chart written before with another placeholder; another chart built and written before and still alive), "
        f"20% call - change - call again: the chart object first holds another legal chart and is written, is then changed into the chart of the case by public operations only "
        f"(all times doubled and tempos halved, undone by the list property setters / the stack / rate(2); every object in another lane, undone by the column setters / the stack; "
        f"without its last hit, hold and tempo point, then <list> = <list>.append(item); a different chart, then every list and field assigned anew) and written again, "
        f"8% tempo values from the ends of the range ({BPM_WIDE[0]} .. {BPM_WIDE[6]}; on-grid demanded only where the float time is within 1e-9 beat of the grid point), 10% int-typed whole-ms columns, 25% numpy scalars, 8% tempo points 40..150 measures apart; "
        f"1 chart with {big} tempo points (one per measure line); charts without notes with {TEMPO_COUNTS_BEYOND_THE_MEASURES} tempo points (quick: the last two), more than the format has measures, judged on write completing and on the #BPMxx id table + the tempo lines of measures 000..999 only (tempo_id_table); 1/10 of the charts with > 3-decimal bpms (tempo tolerance 0.0005 there); "
        f"(16) ids that are special only through an optional header / argument as ordinary #WAV ids used by objects: 6% id ZZ (the class default of the LN end id) while the LN end id is another one, 6% id ZZ in a chart without long notes whose "
        f"ln_end_channel is b'' (no #LNOBJ line at all), 5% id 01 (write()'s default placeholder) as a known sample; (14) 12% of the charts give EVERY object a sample and #WAV id of its own; each of the four also once per layout in the edge family; "
        f"ORIGIN read-then-changed (history {READ_HISTORY}), a family generated after all others: {n_read} charts of the general mixture and 5 charts per layout (3 with long notes, 1 of them through write_file, 1 with id ZZ as an ordinary sample beside another LN end id, "
        f"1 read from a text with #LNOBJ ZZ and then holding a chart without long notes, ln_end_channel b'' and ZZ as an ordinary sample id: clause {STALE_LNOBJ_CLAUSE}) sit in a chart object that was READ by the real BMSMap.read "
        f"from a small plain BMS text kept in the case (one or two tempos, 1..3 measures, 1..4 #WAV ids, 0..3 other headers, 1/6 lower-case header names; #LNOBJ present in 80%, in 3 of 4 texts another id than the chart's LN end id, 1/4 with a #WAV entry of its own), "
        f"was written once as read (50%), and was then changed into the chart of the case through public fields only: ln_end_channel, title, artist, version assigned, the samples table assigned or cleared-and-updated in place, entries ADDED to misc "
        f"(what the reader left there stays), the hit / hold / tempo lists assigned before or after the fields"
    )
    rep.rule = ("a case is one chart + layout + the way write is called + what happened to the chart object / the target path before; the written bytes are interpreted with the DOCUMENTED channel table of the layout "
                "(Writerside/topics/reamber/bms/Channel.md), not with the writer's own; non-trivial when it has >= 2 objects or >= 2 tempo points; "
                "a case whose edit step itself raises is counted (edit_step_raised) and not judged")
    seen = {}
    dims = {}
    observed = dict(bpm_rounded_to_3_decimals_cases=0, bpm_rounded_to_3_decimals_max_dev=0.0, unknown_sample_objects=0, unknown_sample_objects_not_written_with_the_placeholder=0)

    def one(case):
        rep.case(case, nontrivial=len(case["objs"]) >= 2 or len(case["tempo"]) >= 2)
        for d in _dims(case):
            dims[d] = dims.get(d, 0) + 1
        fails, obs = run_case(case)
        if "edit_step_raised" in obs:
            observed.setdefault("edit_step_raised", []).append(obs["edit_step_raised"])
        for what, d in fails:
            seen[what] = seen.get(what, 0) + 1
            rep.fail(what, case, d)
        if "bpm_rounded_to_3_decimals_max_dev" in obs:
            observed["bpm_rounded_to_3_decimals_cases"] += 1
            observed["bpm_rounded_to_3_decimals_max_dev"] = max(observed["bpm_rounded_to_3_decimals_max_dev"], obs["bpm_rounded_to_3_decimals_max_dev"])
        for k in ("unknown_sample_objects", "unknown_sample_objects_not_written_with_the_placeholder"):
            observed[k] += obs.get(k, 0)

    for case in grid:
        if rep.out_of_time(15, 120):
            break
        one(case)
    for case in edge:
        if rep.out_of_time(25, 180):
            break
        one(case)
    one(_many_tempo_case(rng, big))
    # the documented NUMBER of tempo points (two-character base-36 ids) is larger than the number of measure lines (1000): such charts leave the
    # format in their data lines, but the writer documents them and the id table is decided (clause tempo_id_table; no raise: write_raises)
    for n_t in (TEMPO_COUNTS_BEYOND_THE_MEASURES if rep.tier != "quick" else TEMPO_COUNTS_BEYOND_THE_MEASURES[2:]):
        c = _many_tempo_case(random.Random(n_t), n_t)
        c["objs"] = []
        c["tempo_table_only"] = True
        one(c)
    for i in range(N):
        if rep.out_of_time(40, 420):
            break
        one(gen_case(rng, LAYOUT_NAMES[i % 5], long_bpm=(i % 10 == 9)))
    for case in _read_origin_cases(rng, n_read):
        if rep.out_of_time(50, 480):
            break
        one(case)
    rep.extra["cases_per_dimension"] = dict(sorted(dims.items()))

    # documented limit: "up to 1295 tempo points".  Tempo points sit on distinct measure lines, the format has
    # measures 000..999, so more than 1000 points cannot be written at all; what the writer does at the documented
    # number is only OBSERVED here (never a failure).
    if rep.tier != "quick":
        for n in (1294, 1295):
            try:
                c = _many_tempo_case(rng, n)
                c["objs"] = []
                data, _ = write_real(c)
                dl = [l.strip() for l in data.split(b"\r\n") if re.match(rb"^#[0-9]", l.strip())]
                bad = [l for l in dl if not _DATA_LINE.match(l)]
                observed[f"write_with_{n}_tempo_points"] = f"returns {len(data)} bytes, {len(dl)} data lines; {len(bad)} of them fail `#mmmcc:` (measure >= 1000 printed with 4 digits), e.g. {bad[0][:16] if bad else None!r}"
            except Exception as e:  # noqa
                observed[f"write_with_{n}_tempo_points"] = f"{type(e).__name__}: {str(e)[:120]}"
    rep.extra["observed"] = observed
    rep.extra["failures_by_clause"] = seen


@replayer("bms_write_vs_interpreter")
def _replay(case, what):
    failed, _ = run_case(case)
    hit = [d for w, d in failed if w == what]
    return (bool(hit), hit[0] if hit else "passes")
