"""C05 (BMS writing) - bounded stand-in.

In-memory charts (hit / hold / tempo lists built directly) are written by the REAL `BMSMap.write(note_channel_config=...)`;
the bytes are interpreted by the independent BMS interpreter `den_bms` (contracts/C04_bounded.py, written from the format
description) and compared with the chart: one object per hit, head + #LNOBJ pair per hold, right lane, time exact on the
snap grid / within 1/192 beat off it, tempo timeline reproduced, every line syntactically valid.
"""
from __future__ import annotations

import re
from fractions import Fraction

from pyvc.dsl import bounded
from pyvc.bounded import replayer

from contracts.C04_bounded import den_bms, note_lanes, layout_of, LAYOUT_NAMES, b36

TOL_MS = 1e-3
GRID_DENS = (1, 2, 3, 4, 6, 8, 12, 16, 24, 32, 48, 96, 5, 7, 9, 64)  # all <= 96: points of the snap grid
BPM_POOL = ["60", "90", "120", "150", "177.5", "200", "128.571", "89.99", "240", "333.333", "45.25"]
#: tempo values with more than 3 decimals: the writer prints `#BPMxx` with 3 decimals; only OBSERVED (rep.extra)
BPM_LONG = ["128.5714285714", "177.77777", "99.99951"]
MIN_GAP = Fraction(1, 24)  # beats between two objects of one lane: > 1/96, so no two share a grid slot

_HEADER_LINE = re.compile(rb"^#[A-Za-z][A-Za-z0-9]*( .*)?$")
_DATA_LINE = re.compile(rb"^#[0-9]{3}[0-9A-Za-z]{2}:([0-9A-Za-z]{2})+$")


# ----------------------------------------------------------------------------------------------- in-memory timeline


class MemTimeline:
    """Exact view of the in-memory tempo list: tempo point i at 4*measure_i beats and Fraction(offset_i) ms."""

    def __init__(self, tempo):
        # tempo: [(measure, bpm_text)], first at measure 0; offsets are computed the way a user would: in floats
        self.measures = [m for m, _ in tempo]
        self.bpm_f = [float(b) for _, b in tempo]
        offs = [0.0]
        for i in range(1, len(tempo)):
            offs.append(offs[-1] + (tempo[i][0] - tempo[i - 1][0]) * 240000.0 / self.bpm_f[i - 1])
        self.off_f = offs
        self.off = [Fraction(o) for o in offs]
        self.bpm = [Fraction(b) for b in self.bpm_f]

    def ms_of_beat(self, beat: Fraction) -> Fraction:
        i = max(k for k, m in enumerate(self.measures) if 4 * m <= beat)
        return self.off[i] + (beat - 4 * self.measures[i]) * 60000 / self.bpm[i]

    def beat_of_ms(self, t: Fraction) -> Fraction:
        i = max([k for k, o in enumerate(self.off) if o <= t] or [0])
        return 4 * self.measures[i] + (t - self.off[i]) * self.bpm[i] / 60000


# ----------------------------------------------------------------------------------------------- generator


def gen_case(rng, layout_name, *, n_tempo=None, long_bpm=False, density=None):
    lanes = sorted(note_lanes(layout_of(layout_name)).values())
    n_tempo = n_tempo if n_tempo is not None else rng.choice([1, 1, 2, 2, 3, 4, 6])
    measures = [0]
    for _ in range(n_tempo - 1):
        measures.append(measures[-1] + rng.choice([1, 1, 2, 3]))
    pool = BPM_POOL + (BPM_LONG if long_bpm else [])
    tempo = [[m, rng.choice(pool)] for m in measures]
    if long_bpm and not any(b in BPM_LONG for _, b in tempo):
        tempo[rng.randrange(len(tempo))][1] = rng.choice(BPM_LONG)
    total = measures[-1] + rng.choice([1, 2, 3])
    tl = MemTimeline(tempo)

    lnobj = rng.choice(["ZZ", "ZZ", "ZY", "0Z"])
    n_s = rng.randrange(0, 6)
    ids = set()
    while len(ids) < n_s:
        i = b36(rng.randrange(1, 1296)).decode()
        if i != lnobj:
            ids.add(i)
    samples = {i: f"snd {k}.wav" for k, i in enumerate(sorted(ids))}

    objs = []  # dict(kind, col, beat (text of a Fraction | None), t, len, grid, sample)
    density = density if density is not None else rng.choice([2, 4, 8, 16])
    # half of the charts crowd their objects into a window of 1..2 measures (several objects per written line)
    w0 = rng.randrange(0, total) if rng.random() < 0.5 else 0
    w1 = min(total, w0 + rng.choice([1, 2])) if rng.random() < 0.5 or w0 else total
    for col in rng.sample(lanes, rng.randrange(1, min(len(lanes), 6) + 1)):
        pos = []
        for _ in range(rng.randrange(1, density + 1)):
            if rng.random() < 0.6:
                d = rng.choice(GRID_DENS)
                pos.append((Fraction(rng.randrange(4 * w0 * d, 4 * w1 * d), d), True))
            else:
                pos.append((Fraction(rng.randrange(4 * w0 * 10**6, 4 * w1 * 10**6), 10**6), False))  # arbitrary time
        pos.sort()
        kept = []
        for p, g in pos:
            if g is False and (p % 1).denominator <= 96:
                g = True
            if not kept or p - kept[-1][0] >= MIN_GAP:
                kept.append((p, g))
        i = 0
        while i < len(kept):
            p, g = kept[i]
            smp = rng.choice(list(samples.values()) + ["", "not in table.wav"])
            t = float(tl.ms_of_beat(p))
            if i + 1 < len(kept) and rng.random() < 0.4:
                p2, g2 = kept[i + 1]
                t2 = float(tl.ms_of_beat(p2))
                objs.append(dict(kind="hold", col=col, t=t, len=t2 - t, grid=bool(g), grid_tail=bool(g2), beat=str(p) if g else None, beat_tail=str(p2) if g2 else None, sample=smp))
                i += 2
            else:
                objs.append(dict(kind="hit", col=col, t=t, grid=bool(g), beat=str(p) if g else None, sample=smp))
                i += 1
    rng.shuffle(objs)
    meta = dict(title=rng.choice(["", "a title", "題名"]), artist=rng.choice(["", "someone"]), version=rng.choice(["", "12"]), as_bytes=rng.random() < 0.5)
    order = list(range(len(tempo)))
    if len(order) > 1 and rng.random() < 0.35:
        rng.shuffle(order)
    return dict(layout=layout_name, tempo=tempo, lnobj=lnobj, samples=samples, objs=objs, meta=meta, tempo_row_order=order,
                labels="gappy" if rng.random() < 0.3 else "default", via_file=rng.random() < 0.15)


def build_map(case):
    from reamber.bms import BMSMap, BMSHit, BMSHold
    from reamber.bms.BMSBpm import BMSBpm
    from reamber.bms.lists import BMSBpmList
    from reamber.bms.lists.notes import BMSHitList, BMSHoldList

    tl = MemTimeline(case["tempo"])
    m = BMSMap()
    bpm_rows = [BMSBpm(offset=o, bpm=b, metronome=4) for o, b in zip(tl.off_f, tl.bpm_f)]
    # a chart is a set of timed objects: the tempo rows may be stored in any order (append without sort)
    perm = case.get("tempo_row_order")
    if perm is not None and len(perm) == len(bpm_rows):
        bpm_rows = [bpm_rows[i] for i in perm]
    m.bpms = BMSBpmList(bpm_rows)
    if case.get("labels") == "gappy" and len(bpm_rows):
        # the row labels of a list are arbitrary (after rate / stack edits / filters they are not 0..n-1)
        m.bpms = BMSBpmList(m.bpms.df.set_axis([3 * i + 2 for i in range(len(bpm_rows))][::-1]))
    m.hits = BMSHitList([BMSHit(offset=o["t"], column=o["col"], sample=o["sample"].encode("shift_jis")) for o in case["objs"] if o["kind"] == "hit"])
    m.holds = BMSHoldList([BMSHold(offset=o["t"], column=o["col"], length=o["len"], sample=o["sample"].encode("shift_jis")) for o in case["objs"] if o["kind"] == "hold"])
    m.samples = {k.encode(): v.encode("shift_jis") for k, v in case["samples"].items()}
    m.ln_end_channel = case["lnobj"].encode()
    enc = (lambda s: s.encode("shift_jis")) if case["meta"]["as_bytes"] else (lambda s: s)
    m.title, m.artist, m.version = enc(case["meta"]["title"]), enc(case["meta"]["artist"]), enc(case["meta"]["version"])
    return m, tl


def write_real(case):
    import warnings

    m, tl = build_map(case)
    with warnings.catch_warnings():
        warnings.simplefilter("ignore")
        return m.write(note_channel_config=layout_of(case["layout"])), tl


def _active(points, t):
    cur = points[0][1]
    for pt, pb in points:
        if pt <= t:
            cur = pb
    return cur


def _cmp_timelines(got, want, tol_t, tol_b):
    """Compare two tempo timelines as FUNCTIONS time -> active bpm (redundant points do not matter): on every
    interval between consecutive breakpoints of either list that is wider than 2*tol_t the active bpms agree
    within tol_b.  -> (ok, detail, max bpm deviation)"""
    cuts = sorted({t for t, _ in got} | {t for t, _ in want})
    cuts.append(cuts[-1] + 1000.0)
    dev = 0.0
    for a, b in zip(cuts, cuts[1:]):
        if b - a <= 2 * tol_t:
            continue
        mid = (a + b) / 2
        g, w = _active(got, mid), _active(want, mid)
        dev = max(dev, abs(g - w))
        if abs(g - w) > tol_b:
            return False, f"at {mid} ms the file's tempo is {g}, the chart's is {w} (file {got[:6]}, chart {want[:6]})", dev
    return True, "", dev


def run_case(case):
    """-> (failures [(clause, detail)], observations dict)"""
    obs = {}
    fails = []
    lay = layout_of(case["layout"])
    try:
        data, tl = write_real(case)
    except Exception as e:  # noqa
        return [("write_raises", f"{type(e).__name__}: {e}")], obs
    if not isinstance(data, (bytes, bytearray)):
        return [("write_raises", f"write returned {type(data).__name__}, not bytes")], obs
    if case.get("via_file"):
        # write_file(path, layout) must put exactly write(layout) into the file
        import os
        import tempfile
        import warnings

        m2, _ = build_map(case)
        fd, path = tempfile.mkstemp(suffix=".bms")
        os.close(fd)
        try:
            with warnings.catch_warnings():
                warnings.simplefilter("ignore")
                m2.write_file(path, note_channel_config=lay)
            with open(path, "rb") as f:
                got = f.read()
            if got != bytes(data):
                fails.append(("write_file_equals_write", f"write_file(path, {case['layout']}) wrote {len(got)} bytes that differ from write({case['layout']})"))
        except Exception as e:  # noqa
            fails.append(("write_file_equals_write", f"write_file raised {type(e).__name__}: {e}"))
        finally:
            os.unlink(path)

    # ---- every line syntactically valid
    for ln in data.replace(b"\r\n", b"\n").split(b"\n"):
        s = ln.strip()
        if not s:
            continue
        if not (_DATA_LINE.match(s) if re.match(rb"^#[0-9]", s) else _HEADER_LINE.match(s)):
            fails.append(("line_syntax", f"line {s[:80]!r} is neither `#KEY value` nor `#mmmcc:` + an even number of base-36 characters"))
            break
    den = den_bms(data, lay)
    if den.bad_lines and not any(w == "line_syntax" for w, _ in fails):
        fails.append(("line_syntax", f"{den.bad_lines[:2]}"))
    if den.problems:
        fails.append(("file_well_formed", "; ".join(den.problems[:3])))

    # ---- tempo timeline
    want_t = [(float(o), float(b)) for o, b in zip(tl.off, tl.bpm)]
    got_t = [(float(t), float(b)) for t, b in den.tempo]
    long_bpm = any(len(b.partition(".")[2]) > 3 for _, b in case["tempo"])
    # tempo values with more than 3 decimals are printed rounded by the writer: tolerated (0.0005) and observed only
    ok, detail, dev = _cmp_timelines(got_t, want_t, TOL_MS if not long_bpm else 1.0, 5.0001e-4 if long_bpm else 1e-9)
    if not ok:
        fails.append(("tempo_timeline", detail))
    if long_bpm:
        obs["bpm_rounded_to_3_decimals_max_dev"] = dev
    tempo_ok = not any(w == "tempo_timeline" for w, _ in fails)

    # ---- objects
    hits = [o for o in case["objs"] if o["kind"] == "hit"]
    holds = [o for o in case["objs"] if o["kind"] == "hold"]
    n_w, n_m = len(den.hits) + len(den.holds), len(hits) + len(holds)
    if len(den.hits) != len(hits) or len(den.holds) != len(holds):
        fails.append(("object_merged_or_dropped", f"file denotes {len(den.hits)} hits + {len(den.holds)} holds, chart has {len(hits)} + {len(holds)}"))
        return fails, obs
    sample_id = {v.encode("shift_jis"): k.encode() for k, v in case["samples"].items()}

    def cmp_time(kind, col, t_mem, on_grid, beat_txt, beat_w, ms_w):
        """one written position against one in-memory time"""
        b_mem = tl.beat_of_ms(Fraction(t_mem))
        if on_grid:
            if Fraction(beat_txt) != beat_w:
                return (f"{kind}_position_on_grid", f"col {col}: chart time {t_mem} ms is beat {beat_txt} (on the grid) but the file puts it at beat {beat_w}")
            if tempo_ok and not long_bpm and abs(float(ms_w) - t_mem) > TOL_MS:
                return (f"{kind}_time_on_grid", f"col {col}: chart {t_mem} ms, file denotes {float(ms_w)} ms (beat {beat_w})")
        elif abs(beat_w - b_mem) > Fraction(1, 192) + Fraction(1, 10**9):
            return (f"{kind}_time_off_grid", f"col {col}: chart time {t_mem} ms = beat {float(b_mem)}, file puts it at beat {beat_w} = {float(beat_w)}: {float(abs(beat_w - b_mem) * 192)} x 1/192 beat away")
        return None

    for col in sorted({o["col"] for o in case["objs"]} | {h[0] for h in den.hits} | {h[0] for h in den.holds}):
        mh = sorted((o for o in hits if o["col"] == col), key=lambda o: o["t"])
        wh = [h for h in den.hits if h[0] == col]
        ml = sorted((o for o in holds if o["col"] == col), key=lambda o: o["t"])
        wl = [h for h in den.holds if h[0] == col]
        if len(mh) != len(wh) or len(ml) != len(wl):
            fails.append(("lane", f"column {col}: file has {len(wh)} hits / {len(wl)} holds, chart has {len(mh)} / {len(ml)}"))
            break
        for o, (c, ms, smp, beat, oid) in zip(mh, wh):
            r = cmp_time("hit", col, o["t"], o["grid"], o["beat"], beat, ms)
            if r:
                fails.append(r)
                break
            want_id = sample_id.get(o["sample"].encode("shift_jis"))
            if want_id is not None and oid != want_id:
                fails.append(("known_sample_id", f"hit col {col} at {o['t']} ms has sample {o['sample']!r} = #WAV{want_id.decode()} but is written as object {oid.decode()}"))
                break
        for o, (c, ms, ln_ms, smp, hb, tb, oid) in zip(ml, wl):
            r = cmp_time("hold_head", col, o["t"], o["grid"], o["beat"], hb, ms)
            r = r or cmp_time("hold_tail", col, o["t"] + o["len"], o["grid_tail"], o["beat_tail"], tb, ms + ln_ms)
            if r:
                fails.append(r)
                break
            want_id = sample_id.get(o["sample"].encode("shift_jis"))
            if want_id is not None and oid != want_id:
                fails.append(("known_sample_id", f"hold col {col} at {o['t']} ms has sample {o['sample']!r} = #WAV{want_id.decode()} but its head is object {oid.decode()}"))
                break
    return fails, obs


CLAUSES = (
    "write_raises line_syntax file_well_formed tempo_timeline object_merged_or_dropped lane hit_position_on_grid hit_time_on_grid hit_time_off_grid "
    "hold_head_position_on_grid hold_head_time_on_grid hold_head_time_off_grid hold_tail_position_on_grid hold_tail_time_on_grid hold_tail_time_off_grid known_sample_id"
).split()


def _grid_cases():
    """every layout x every column it offers x (hit | hold) x (on grid | off grid), after one tempo change."""
    for name in LAYOUT_NAMES:
        for col in sorted(note_lanes(layout_of(name)).values()):
            tempo = [[0, "150"], [1, "177.5"]]
            tl = MemTimeline(tempo)
            for kind in ("hit", "hold"):
                for p, g in ((Fraction(4 + 7, 1) / 1 - Fraction(5, 96), True), (Fraction(5) + Fraction(123457, 10**6), False)):
                    t = float(tl.ms_of_beat(p))
                    o = dict(kind=kind, col=col, t=t, grid=g, beat=str(p) if g else None, sample="k.wav")
                    if kind == "hold":
                        p2 = p + Fraction(3, 2)
                        o.update(len=float(tl.ms_of_beat(p2)) - t, grid_tail=g, beat_tail=str(p2) if g else None)
                    yield dict(layout=name, tempo=tempo, lnobj="ZZ", samples={"0K": "k.wav"}, objs=[o], meta=dict(title="grid", artist="", version="", as_bytes=False))


def _many_tempo_case(rng, n):
    c = gen_case(rng, "BME", n_tempo=2, density=8)
    pool = BPM_POOL
    c["tempo"] = [[m, pool[(m * 7) % len(pool)]] for m in range(n)]  # one tempo point on every measure line 0..n-1
    tl = MemTimeline(c["tempo"])
    objs = []
    for k in range(40):
        p = Fraction(rng.randrange(0, 4 * n * 48), 48)
        objs.append(dict(kind="hit", col=k % 8, t=float(tl.ms_of_beat(p)), grid=True, beat=str(p), sample=""))
    seen, keep = set(), []
    for o in objs:
        if (o["col"], o["beat"]) not in seen:
            seen.add((o["col"], o["beat"]))
            keep.append(o)
    c["objs"] = keep
    return c


@bounded("C05", note="in-memory charts written by the real BMSMap.write(note_channel_config) and re-interpreted by the independent BMS interpreter den_bms: objects, lanes, times, tempo timeline, line syntax; all five layouts")
def bms_write_vs_interpreter(rep):
    rng = rep.rng
    N = rep.n(300, 2000)
    big = rep.n(300, 1000)
    grid = list(_grid_cases())
    rep.bound = (
        f"grid: {len(grid)} single-object charts (5 layouts x every column x hit|hold x on|off grid after a tempo change); random: {N} charts over 5 layouts, 1..6 tempo points on measure lines "
        f"(bpm pool of {len(BPM_POOL)} values with <= 3 decimals), 1..6 columns of the layout, 1..16 objects per column (half of the charts: all inside a 1..2 measure window) on the grid (denominators {GRID_DENS}) and at arbitrary times (1e-6 beat raster), "
        f">= 1/24 beat apart within a lane, 40% long notes, samples known / unknown / empty, str and bytes metadata; 1 chart with {big} tempo points (one per measure line); 1/10 of the charts with > 3-decimal bpms (tempo tolerance 0.0005 there)"
    )
    rep.rule = "a case is one chart + layout; non-trivial when it has >= 2 objects or >= 2 tempo points"
    seen = {}
    observed = dict(bpm_rounded_to_3_decimals_cases=0, bpm_rounded_to_3_decimals_max_dev=0.0)

    def one(case):
        rep.case(case, nontrivial=len(case["objs"]) >= 2 or len(case["tempo"]) >= 2)
        fails, obs = run_case(case)
        for what, d in fails:
            seen[what] = seen.get(what, 0) + 1
            rep.fail(what, case, d)
        if "bpm_rounded_to_3_decimals_max_dev" in obs:
            observed["bpm_rounded_to_3_decimals_cases"] += 1
            observed["bpm_rounded_to_3_decimals_max_dev"] = max(observed["bpm_rounded_to_3_decimals_max_dev"], obs["bpm_rounded_to_3_decimals_max_dev"])

    for case in grid:
        if rep.out_of_time(15, 120):
            break
        one(case)
    one(_many_tempo_case(rng, big))
    for i in range(N):
        if rep.out_of_time(40, 420):
            break
        one(gen_case(rng, LAYOUT_NAMES[i % 5], long_bpm=(i % 10 == 9)))

    # documented limit: "up to 1295 tempo points".  Tempo points sit on distinct measure lines, the format has
    # measures 000..999, so more than 1000 points cannot be written at all; what the writer does at the documented
    # number is only OBSERVED here (never a failure).
    if rep.tier != "quick":
        for n in (1294, 1295):
            try:
                c = _many_tempo_case(rng, n)
                c["objs"] = []
                data, _ = write_real(c)
                dl = [l.strip() for l in data.split(b"\r\n") if re.match(rb"^#[0-9]", l.strip())]
                bad = [l for l in dl if not _DATA_LINE.match(l)]
                observed[f"write_with_{n}_tempo_points"] = f"returns {len(data)} bytes, {len(dl)} data lines; {len(bad)} of them fail `#mmmcc:` (measure >= 1000 printed with 4 digits), e.g. {bad[0][:16] if bad else None!r}"
            except Exception as e:  # noqa
                observed[f"write_with_{n}_tempo_points"] = f"{type(e).__name__}: {str(e)[:120]}"
    rep.extra["observed"] = observed
    rep.extra["failures_by_clause"] = seen


@replayer("bms_write_vs_interpreter")
def _replay(case, what):
    failed, _ = run_case(case)
    hit = [d for w, d in failed if w == what]
    return (bool(hit), hit[0] if hit else "passes")
