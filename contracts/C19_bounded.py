"""C19 bounded stand-in: the real `dominant_bpm`, `scroll_speed`, `sv_normalize` on small charts against exact
rational oracles written from the property statement.

Readings fixed in the design note (so that the oracle does not demand more than the statement):
 * "the last object" = the timed object with the largest offset among ALL lists of the chart (notes by their head,
   SVs, tempo points, and for StepMania also stops);
 * among SVs sharing one time, the last in list order is the active one; an SV that shares its time with a tempo
   point is active from that time on (the tempo point is not "the next" one).
The statement speaks about charts, not about how their lists were put together, so the generator varies everything a
chart's DataFrame-backed lists can differ in without being a different chart: row order (time order, shuffled,
reversed), row labels (default, permuted by .sorted() / append(sort=True), offset / gappy after a filter, reversed,
duplicated, negative), column types (float, int, numpy scalars, object columns after append), the time scale (negative,
very large, sub-millisecond, several times inside one millisecond), zero-length holds, far-away tempi and overrides,
every way of passing the override, the order and repetition of the three calls.  The oracle always works on the rows
READ BACK from the built chart in row order (so "last in list order" is the row order the functions see).  A second check
runs HISTORIES: two charts alive at once, judged alternately, with changing overrides, after re-sorting a list and after
appending the normalising SVs to the chart.  Where the statement is silent (the speed before the first tempo point;
whether sv_normalize may touch its argument) nothing is asserted; the latter is counted as an observation, see
ASSERT_INPUT_UNCHANGED."""
from __future__ import annotations

from collections import Counter, defaultdict
from fractions import Fraction

from pyvc.dsl import bounded
from pyvc.bounded import replayer

# The statement says what sv_normalize RETURNS and is silent about its argument.  The tempo list of the argument gains
# a `multiplier` column on the current tree (design note F14); with False this is only counted in the evidence
# (extra.sv_normalize_changed_its_argument), with True it becomes the failing clause `sv_normalize_leaves_chart_unchanged`.
ASSERT_INPUT_UNCHANGED = False

TIME_GRID = [0.0, 100.0, 200.0, 300.0, 400.0, 600.0, 800.0, 1000.25]      # dyadic: float sums of differences are exact
# alternative time scales (all dyadic, so that ties in total active time stay exact in floating point)
GRIDS = {
    "base": TIME_GRID,
    "negative": [t - 450.0 for t in TIME_GRID],                            # objects and tempo points before 0 ms
    "large": [t + 3600000.0 for t in TIME_GRID],                           # an hour into the file
    "fraction": [0.5, 100.5, 200.25, 300.9990234375, 400.125, 600.0625, 800.5, 1000.25],   # x.5 / x.999 / sub-ms digits
    "tight": [0.0, 0.25, 0.5, 1.0, 1.5, 2.0, 3.0, 4.75],                   # several times inside one millisecond
}
BPMS = [60.0, 100.0, 120.0, 177.5, 240.0]
BPMS_FAR = [7.5, 1920.0]                                                   # more than 10x away from the others
# dimension 23 (near-ties): DISTINCT tempo values that agree to two decimals (re-timed sections) next to one clean value; every value is
# its own group of the definition, however close the others are
BPMS_NEAR = [175.001, 175.004, 175.0049, 174.996, 200.0]
MULTS = [0.5, 0.75, 1.0, 1.25, 2.0]
MULTS_WIDE = [0.0, -1.0, 10.0, 0.015625, 1000.0]                           # the whole range of a float multiplier: zero, negative, tiny, huge
OVERRIDES = [None, 100, 177.5]
OVERRIDES_MORE = [1, 0.75, 60.0, 1000]
OVERRIDES_WIDE = [0.0009765625, 1048576.0]                                 # any override > 0: 2**-10, 2**20
EDITS = ["scale_bpm", "stack_shift", "shift_each", "rate2", "rate_half", "append_bpm", "append_bpm_sorted", "append_note", "append_sv", "set_sv_mults", "new_bpm_list"]
HOLD_LENGTHS = [50.0, 2000.0]
SV_GAMES = ["osu", "qua"]
OTHER_GAMES = ["sm", "bms", "o2j", "base"]
KINDS = ["bpms", "svs", "hits", "holds"]
JUNK_T = -99999.0                                                          # rows that a filter removes again
REL = 1e-9


def _game(game):
    if game == "osu":
        from reamber.osu import OsuMap as M
        return M, {}
    if game == "sm":
        from reamber.sm import SMMap as M
        return M, {}
    if game == "qua":
        from reamber.quaver import QuaMap as M
        return M, {"keysounds": []}
    if game == "bms":
        from reamber.bms import BMSMap as M
        return M, {}
    if game == "o2j":
        from reamber.o2jam import O2JMap as M
        return M, {}
    from reamber.base.Map import Map as M
    return M, {}


def _mk_list(cls, rows, mk, lay):
    """One list of the chart from its rows (in construction order) through PUBLIC list operations only.
    lay = {"via": ...}: ctor | sorted | sorted_reverse | append_sorted | append_list | filter | labels."""
    import numpy as np

    lay = lay or {}
    via = lay.get("via", "ctor")
    items = [mk(r) for r in rows]
    if via == "ctor" or not items:
        return cls(items)
    if via == "sorted":
        return cls(items).sorted()
    if via == "sorted_reverse":
        return cls(items).sorted(reverse=True)
    if via == "append_sorted":                                  # the last row is appended to a list of the others
        return cls(items[:-1]).append(items[-1], sort=True)
    if via == "append_list":                                    # two lists joined
        k = lay["split"]
        return cls(items[:k]).append(cls(items[k:]), sort=bool(lay.get("sort")))
    if via == "filter":                                         # junk rows interleaved, then removed by a mask / after()
        junk = set(lay["junk_at"])
        full, keep, it = [], [], iter(items)
        for p in range(len(items) + len(junk)):
            if p in junk:
                jr = list(rows[0])
                jr[0] = type(rows[0][0])(JUNK_T)
                full.append(mk(jr))
                keep.append(False)
            else:
                full.append(next(it))
                keep.append(True)
        lst = cls(full)
        return lst.after(JUNK_T) if lay.get("by") == "after" else lst[np.array(keep)]
    if via == "labels":                                         # a list made from a DataFrame that carries these row labels
        return cls(cls(items).df.set_axis(lay["labels"]))
    raise ValueError(via)


def _build(case):
    M, kw = _game(case["game"])
    m = M()
    if case.get("np_scalars"):
        import numpy as np

        def num(x):
            return np.int64(x) if isinstance(x, int) else np.float64(x)
    else:
        def num(x):
            return x
    lay = case.get("layout") or {}
    H, L, B = type(m.hits)._item_class(), type(m.holds)._item_class(), type(m.bpms)._item_class()
    m.hits = _mk_list(type(m.hits), case["hits"], lambda r: H(offset=num(r[0]), column=r[1], **kw), lay.get("hits"))
    m.holds = _mk_list(type(m.holds), case["holds"], lambda r: L(offset=num(r[0]), column=r[1], length=num(r[2]), **kw), lay.get("holds"))
    m.bpms = _mk_list(type(m.bpms), case["bpms"], lambda r: B(offset=num(r[0]), bpm=num(r[1])), lay.get("bpms"))
    if case["game"] in SV_GAMES:
        S = type(m.svs)._item_class()
        m.svs = _mk_list(type(m.svs), case["svs"], lambda r: S(offset=num(r[0]), multiplier=num(r[1])), lay.get("svs"))
    if case["game"] == "sm" and case.get("stops"):
        from reamber.sm import SMStop
        from reamber.sm.lists import SMStopList

        m.stops = SMStopList([SMStop(offset=t, length=ln) for t, ln in case["stops"]])
    return m


def _effective(m, case, sanity=True):
    """The chart as the functions see it: every list's rows read back in ROW order."""
    eff = dict(case)
    eff["bpms"] = [[t, b] for t, b in zip(m.bpms.offset.tolist(), m.bpms.bpm.tolist())]
    eff["hits"] = [[t, c] for t, c in zip(m.hits.offset.tolist(), m.hits.column.tolist())]
    eff["holds"] = [[t, c, ln] for t, c, ln in zip(m.holds.offset.tolist(), m.holds.column.tolist(), m.holds.length.tolist())]
    eff["svs"] = [[t, x] for t, x in zip(m.svs.offset.tolist(), m.svs.multiplier.tolist())] if case["game"] in SV_GAMES else []
    if case["game"] == "sm":
        eff["stops"] = [[t, ln] for t, ln in zip(m.stops.offset.tolist(), m.stops.length.tolist())]
    if sanity:                                                   # the construction recipes only reorder / relabel rows
        for k in KINDS + ["stops"]:
            a = sorted([float(x) for x in r] for r in eff.get(k, []))
            b = sorted([float(x) for x in r] for r in (case.get(k) or []))
            if a != b:
                raise AssertionError(f"generator: list {k} was built as {a}, the case says {b}")
    return eff


def _F(x):
    return Fraction(float(x))


# ---------------------------------------------------------------------------------------------- oracles (from the statement)
def _last_object(case):
    ts = [t for t, _ in case["bpms"]] + [t for t, _ in case["hits"]] + [t for t, _, _ in case["holds"]]
    if case["game"] in SV_GAMES:
        ts += [t for t, _ in case["svs"]]
    if case["game"] == "sm":
        ts += [t for t, _ in case.get("stops", [])]
    return max(_F(t) for t in ts)


def _active_totals(case):
    """bpm value -> total active time between the first tempo point and the last object."""
    tp = sorted((_F(t), float(b)) for t, b in case["bpms"])
    end = _last_object(case)
    tot = defaultdict(Fraction)
    for i, (t, b) in enumerate(tp):
        nxt = tp[i + 1][0] if i + 1 < len(tp) else end
        tot[b] += max(Fraction(0), min(nxt, end) - t)
    return dict(tot)


def _dominant_set(case):
    tot = _active_totals(case)
    best = max(tot.values())
    return sorted(b for b, v in tot.items() if v == best)


def _active_bpm(case, x):
    c = [(_F(t), float(b)) for t, b in case["bpms"] if _F(t) <= x]
    return max(c)[1] if c else None


def _active_sv(case, x):
    """An SV lasts until the next SV or tempo point; a tempo point without an SV at its time means multiplier 1."""
    if case["game"] not in SV_GAMES:
        return Fraction(1)
    tb = max(_F(t) for t, _ in case["bpms"] if _F(t) <= x)
    sv = [(_F(t), i) for i, (t, _) in enumerate(case["svs"]) if tb <= _F(t) <= x]
    if not sv:
        return Fraction(1)
    ts = max(t for t, _ in sv)
    return _F(case["svs"][max(i for t, i in sv if t == ts)][1])     # last in list order among those sharing the time


def _close(a, b):
    return abs(Fraction(float(a)) - b) <= REL * max(abs(b), 1)


def _freeze(m):
    out = {}
    for k, v in m.objs.items():
        # dimension 15: values, row labels, the dtype of every column and of the row labels, the class of the list
        out[k] = (list(v.df.columns), repr(v.df.to_numpy().tolist()), repr(v.df.index.tolist()), repr(v.df.dtypes.tolist()), str(v.df.index.dtype), type(v).__name__)
    return out


def _override(case):
    ov = case["override"]
    if ov is not None and case.get("override_np"):
        import numpy as np

        return np.int64(ov) if isinstance(ov, int) else np.float64(ov)
    return ov


def _call(fn, m, case):
    """Every way of handing over the override: positionally, by keyword, or (no override) not at all."""
    ov = _override(case)
    how = case.get("call", "positional")
    if how == "omitted" and ov is None:
        return fn(m)
    if how == "keyword":
        return fn(m, override_bpm=ov)
    return fn(m, ov)


# ---------------------------------------------------------------------------------------------- one case
def _judge(m, case, observe=None, sanity=True):
    """Run the three functions on the built chart `m` (in the order case['order']) against the statement."""
    from reamber.algorithms.utils import dominant_bpm
    from reamber.algorithms.analysis import scroll_speed
    from reamber.algorithms.generate import sv_normalize

    failed = []
    given = case
    case = _effective(m, given, sanity)                       # rows as the functions see them
    ov = case["override"]
    doms = _dominant_set(case)
    refs = [Fraction(float(ov))] if ov is not None else [Fraction(b) for b in doms]
    t1 = min(_F(t) for t, _ in case["bpms"])

    def dominant():
        # --- dominant bpm: a bpm value whose total active time is maximal (ties: any maximiser)
        try:
            d = float(dominant_bpm(m))
            if d not in doms:
                failed.append(("dominant_bpm_is_a_maximiser", f"got {d}; active totals {({k: float(v) for k, v in _active_totals(case).items()})}, last object at {float(_last_object(case))}"))
        except Exception as ex:
            failed.append(("dominant_bpm_completes", f"{type(ex).__name__}: {ex}"))

    def scroll():
        # --- scroll speed at every breakpoint = active bpm / reference * active SV
        try:
            s = _call(scroll_speed, m, given)
            pts = [(Fraction(float(x)), float(v)) for x, v in zip(s.index.tolist(), s.tolist())]
            verdicts = []
            for ref in refs:
                bad = None
                for x, v in pts:
                    if x < t1:
                        continue                                     # statement silent before the first tempo point
                    want = Fraction(_active_bpm(case, x)) / ref * _active_sv(case, x)
                    if v != v or not _close(v, want):
                        bad = f"at {float(x)}: got {v}, want {float(want)} (bpm {_active_bpm(case, x)}, reference {float(ref)}, SV {float(_active_sv(case, x))})"
                        break
                verdicts.append(bad)
            if all(b is not None for b in verdicts):
                what = "scroll_speed_uses_override" if ov is not None and all(
                    _close(v, Fraction(_active_bpm(case, x)) / Fraction(b) * _active_sv(case, x)) for b in doms[:1] for x, v in pts if x >= t1) else "scroll_speed_at_breakpoints"
                failed.append((what, verdicts[0]))
            # every tempo point and every SV is a breakpoint
            have = {x for x, _ in pts}
            need = {_F(t) for t, _ in case["bpms"]} | ({_F(t) for t, _ in case["svs"]} if case["game"] in SV_GAMES else set())
            if not need <= have:
                failed.append(("breakpoints_cover_tempo_and_sv_points", f"missing {sorted(float(x) for x in need - have)} in {sorted(float(x) for x in have)}"))
        except Exception as ex:
            failed.append(("scroll_speed_completes", f"{type(ex).__name__}: {ex}"))

    def normalize():
        # --- SV normalisation: one SV per tempo point, at its time, multiplier * bpm == reference
        if case["game"] not in SV_GAMES:
            return
        before = _freeze(m)
        try:
            r = _call(sv_normalize, m, given)
            if type(r) is not type(m.svs):
                failed.append(("sv_normalize_returns_the_charts_sv_class", f"{type(r).__name__} for {type(m.svs).__name__}"))
            got = sorted((Fraction(float(t)), float(x)) for t, x in zip(r.offset.tolist(), r.multiplier.tolist()))
            tp = sorted((_F(t), float(b)) for t, b in case["bpms"])
            if [t for t, _ in got] != [t for t, _ in tp]:
                failed.append(("sv_normalize_one_sv_per_tempo_point", f"times {[float(t) for t, _ in got]} for tempo points {[float(t) for t, _ in tp]}"))
            else:
                ok = [all(_close(x * b, ref) for (_, x), (_, b) in zip(got, tp)) for ref in refs]
                if not any(ok):
                    failed.append(("sv_normalize_multiplier_times_bpm_is_reference", f"multipliers {[x for _, x in got]} for bpms {[b for _, b in tp]}, reference {[float(r_) for r_ in refs]}"))
        except Exception as ex:
            failed.append(("sv_normalize_completes", f"{type(ex).__name__}: {ex}"))
        changed = _freeze(m) != before
        if changed and observe is not None:
            observe["sv_normalize_changed_its_argument"] += 1
        if changed and ASSERT_INPUT_UNCHANGED:
            after = _freeze(m)
            k = next(k for k in before if before[k] != after[k])
            failed.append(("sv_normalize_leaves_chart_unchanged", f"list {k}: columns {before[k][0]} -> {after[k][0]}; dtypes {before[k][3]} -> {after[k][3]}; labels {before[k][2]} -> {after[k][2]}"))

    steps = dict(d=dominant, s=scroll, n=normalize)
    for letter in given.get("order", "dsn"):
        steps[letter]()
    seen, out = set(), []
    for w, d in failed:
        if w not in seen:
            seen.add(w)
            out.append((w, d))
    return out


def _run_case(case, observe=None):
    return _judge(_build(case), case, observe)


# ---------------------------------------------------------------------------------------------- generation
def _random_layout(rng, rows):
    """How a list with these rows (already in the drawn row order) is put together; None = plain constructor."""
    n = len(rows)
    if n == 0:
        return None
    r = rng.random()
    if r < 0.16:
        return dict(via="sorted")
    if r < 0.22:
        return dict(via="sorted_reverse")
    if r < 0.34 and n >= 2:
        return dict(via="append_sorted")
    if r < 0.42 and n >= 2:
        return dict(via="append_list", split=rng.randrange(1, n), sort=rng.random() < 0.5)
    if r < 0.60:
        k = rng.choice([1, 1, 2, 3])
        return dict(via="filter", junk_at=sorted(rng.sample(range(n + k), k)) if rng.random() < 0.5 else list(range(k)), by=rng.choice(["mask", "after"]))
    q = rng.random()
    if q < 0.3:
        labels = rng.sample(range(n), n)                                  # permuted
    elif q < 0.45:
        labels = list(range(n - 1, -1, -1))                               # reversed
    elif q < 0.6:
        k = rng.randrange(1, 6)
        labels = list(range(k, k + n))                                    # offset
    elif q < 0.8:
        labels = sorted(rng.sample(range(3 * n + 2), n))                  # gappy
        if rng.random() < 0.5:
            rng.shuffle(labels)
    elif q < 0.9:
        labels = [rng.randrange(max(1, n - 1)) for _ in range(n)]         # duplicated labels
    else:
        labels = [x - n for x in rng.sample(range(n + 2), n)]             # negative labels
    return dict(via="labels", labels=labels)


def _random_case(rng, game, plain=False):
    """plain=True: the original scope only (sorted lists, default labels, floats, base time grid)."""
    gname = "base" if plain else rng.choice(["base"] * 11 + ["negative"] * 2 + ["large"] * 2 + ["fraction"] * 2 + ["tight"] * 3)
    grid = GRIDS[gname]
    int_typed = (not plain) and gname in ("base", "negative", "large") and rng.random() < 0.2
    if int_typed:
        grid = [int(t) for t in grid[:7]] + [int(grid[7]) + 100]          # integral times, given as python ints
    k = rng.randrange(1, 5)
    times = sorted(rng.sample(grid[:6], k))
    values = list(BPMS)
    if not plain and rng.random() < 0.12:
        values += BPMS_FAR
    near = (not plain) and (not int_typed) and rng.random() < 0.1
    if near:
        values = list(BPMS_NEAR)
    if int_typed and rng.random() < 0.7:
        values = [int(b) for b in values if float(b).is_integer()]        # an all-int bpm column
    pool = rng.sample(values, rng.randrange(1, min(k, 3) + 1))           # repeated bpm values
    if near and k >= 2:
        pool = rng.sample(values, min(k, 4))                             # as many distinct near values as tempo points
    bpms = [[t, rng.choice(pool)] for t in times]
    t1 = times[0]
    later = [t for t in grid if t >= t1]
    n_notes = rng.randrange(1, 4)
    lengths = HOLD_LENGTHS if plain else HOLD_LENGTHS + [0.0]             # zero-length holds
    if int_typed:
        lengths = [int(x) for x in lengths]
    hits, holds = [], []
    for _ in range(n_notes):
        t = rng.choice(later)
        if rng.random() < 0.6:
            hits.append([t, rng.randrange(4)])
        else:
            holds.append([t, rng.randrange(4), rng.choice(lengths)])      # long tails reach past everything else
    hits.sort()
    holds.sort()
    overrides = OVERRIDES if plain or rng.random() < 0.6 else OVERRIDES_MORE + (OVERRIDES_WIDE if rng.random() < 0.4 else [])
    mults = MULTS if plain or rng.random() < 0.85 else MULTS + MULTS_WIDE
    case = dict(game=game, bpms=bpms, hits=hits, holds=holds, override=rng.choice(overrides))
    if game in SV_GAMES:
        svs = []
        for _ in range(rng.randrange(0, 5)):
            r = rng.random()
            if r < 0.3:
                t = rng.choice(times)                                   # coincides with a tempo point
            elif r < 0.45 and svs:
                t = rng.choice(svs)[0]                                  # coincides with another SV
            elif r < 0.55 and t1 > grid[0]:
                t = rng.choice([x for x in grid if x < t1])             # before the first tempo point
            else:
                t = rng.choice(grid)
            svs.append([t, rng.choice(mults)])
        svs.sort(key=lambda e: e[0])                                    # stable: ties keep their drawn order
        case["svs"] = svs
    else:
        case["svs"] = []
    if game == "sm":
        case["stops"] = [[float(rng.choice(grid)), 25.0]] if rng.random() < 0.3 else []
    if plain:
        return case
    # ---- dimension 17: which KIND of object is the first / the last of the chart (a fifth of the cases forces one of the extremes)
    r = rng.random()
    if r < 0.1 and k >= 2:
        # every note (and SV) sits exactly on the FIRST tempo point: the later tempo points come after the last note, the last object of the
        # chart is a tempo point, the first note / first SV / first tempo point coincide
        for row in case["hits"] + case["holds"] + case["svs"]:
            row[0] = t1
        case["kind_order"] = "notes_on_first_tempo_point_tempo_points_last"
    elif r < 0.2 and game in SV_GAMES:
        # an SV is the very last object (after every note and tempo point) and, where the grid allows, another one the very first
        top = grid[7]
        for row in case["hits"] + case["holds"]:
            if row[0] >= top:
                row[0] = grid[6]
        case["svs"] = [e for e in case["svs"] if e[0] < top] + [[top, rng.choice(mults)]]
        if t1 > grid[0]:
            case["svs"].insert(0, [grid[0], rng.choice(mults)])
        case["svs"].sort(key=lambda e: e[0])
        case["kind_order"] = "sv_first_and_last"
    # ---- how the lists are put together: row order and row labels, for every list kind on its own
    layout = {}
    for kind in KINDS:
        rows = case[kind]
        if not rows or rng.random() < 0.4:
            continue
        if rng.random() < 0.7:
            rng.shuffle(rows)                                           # rows not in time order
        lay = _random_layout(rng, rows)
        if lay is not None and lay["via"] == "labels" and rng.random() < 0.3:
            rows.sort(key=lambda e: e[0])                               # foreign labels on time-ordered rows
        if lay is not None:
            layout[kind] = lay
    if layout:
        case["layout"] = layout
    if rng.random() < 0.1:
        case["np_scalars"] = True
    if case["override"] is not None and rng.random() < 0.2:
        case["override_np"] = True
    r = rng.random()
    if r < 0.3:
        case["call"] = "keyword"
    elif r < 0.5:
        case["call"] = "omitted"                                        # only differs from positional without an override
    if rng.random() < 0.4:
        order = rng.sample("dsn", 3)
        if rng.random() < 0.25:
            order.append(rng.choice("dsn"))                             # one of them a second time
        case["order"] = "".join(order)
    case["grid"] = gname + ("/int" if int_typed else "")
    return case


def _features(case):
    f = set()
    tot = _active_totals(case)
    if len(_dominant_set(case)) > 1:
        f.add("tie_in_active_time")
    if len(case["bpms"]) > len({b for _, b in case["bpms"]}):
        f.add("repeated_bpm_value")
    bt = {t for t, _ in case["bpms"]}
    st = [t for t, _ in case["svs"]]
    if any(t in bt for t in st):
        f.add("sv_on_tempo_point")
    if len(st) > len(set(st)):
        f.add("coincident_svs")
    if any(t < min(bt) for t in st):
        f.add("sv_before_first_tempo_point")
    last = _last_object(case)
    if st and max(_F(t) for t in st) == last and all(_F(t) < last for t, _ in case["hits"]) and all(_F(t) < last for t, _, _ in case["holds"]):
        f.add("last_object_is_an_sv")
    if max(_F(t) for t in bt) == last:
        f.add("last_object_is_a_tempo_point")
    if len(tot) > 1:
        f.add("several_bpm_values")
    # ---- the dimensions added for rows / labels / types / calls
    for kind, lay in (case.get("layout") or {}).items():
        f.add(f"{kind}_via_{lay['via']}")
        if lay["via"] == "labels" and len(set(lay["labels"])) < len(lay["labels"]):
            f.add(f"{kind}_duplicate_labels")
    for kind in KINDS:
        ts = [r[0] for r in case[kind]]
        if ts != sorted(ts):
            f.add(f"{kind}_rows_not_in_time_order")
    if not case["hits"]:
        f.add("no_hits")
    if not case["holds"]:
        f.add("no_holds")
    if any(ln == 0 for _, _, ln in case["holds"]):
        f.add("zero_length_hold")
    if min(bt) == min([r[0] for r in case["hits"]] + [r[0] for r in case["holds"]]):
        f.add("first_object_on_first_tempo_point")
    if any(b in BPMS_FAR for _, b in case["bpms"]):
        f.add("far_bpm")
    if len({b for _, b in case["bpms"]}) > len({round(float(b), 2) for _, b in case["bpms"]}):
        f.add("distinct_bpm_values_agreeing_to_two_decimals")
    if any(round(float(b), 2) != float(b) for b in _dominant_set(case)):
        f.add("dominant_bpm_has_more_than_two_decimals")
    if case.get("grid", "base") != "base":
        f.add("grid_" + case["grid"])
    for k in ("np_scalars", "override_np"):
        if case.get(k):
            f.add(k)
    if case.get("call"):
        f.add("call_" + case["call"])
    if case.get("order"):
        f.add("calls_reordered" if len(case["order"]) == 3 else "a_call_repeated")
    if case["override"] in OVERRIDES_MORE:
        f.add("override_far")
    if case["override"] in OVERRIDES_WIDE:
        f.add("override_extreme")
    if any(x in MULTS_WIDE for _, x in case["svs"]):
        f.add("sv_multiplier_zero_negative_or_extreme")
    return f


@bounded("C19", note="real dominant_bpm / scroll_speed / sv_normalize on small charts (1-4 tempo points, 0-4 SVs incl. coincident and early ones, overrides; lists in any row order, with any row labels, int / float / numpy typed, on five time scales) against exact rational oracles from the statement")
def tempo_analysis_vs_definitions(rep):
    rng = rep.rng
    N = rep.n(1000, 30000)
    rep.bound = (f"up to {N} seeded charts: 1..4 tempo points at distinct times of the first 6 grid times with bpm values drawn from 1..3 of {BPMS} (repeats, ties; 12%: also {BPMS_FAR}; 10% of the wider float-typed cases: from {BPMS_NEAR} instead, distinct values that agree to two decimals), "
                 f"1..3 notes (hits and holds, lengths {HOLD_LENGTHS + [0.0]}) at or after the first tempo point, override in {OVERRIDES} (60%) or {OVERRIDES_MORE}, 20% as numpy scalar, passed positionally / by keyword / omitted; "
                 f"osu and quaver (2/3 of the cases): 0..4 SVs with multipliers {MULTS} (15% of the wider cases also {MULTS_WIDE}; 16% of the overrides of the wider cases from {OVERRIDES_WIDE}), 30% on a tempo point, 15% on another SV, 10% before the first tempo point; "
                 "sm (30% with a stop), bms, o2j, base Map: dominant_bpm and scroll_speed without SVs. "
                 f"One case in 4 keeps the original scope (time-ordered lists, default labels, floats, grid {TIME_GRID}); in the others: time grid base / negative (-450..550) / large (+1 h) / "
                 "fraction (x.5, x.999, 1/16 ms) / tight (0.25 ms steps), 20% of the integral grids int-typed (python ints, all-int bpm column), 10% numpy scalars; EACH of the four lists (tempo, SV, hits, holds) "
                 "10%: every note and SV exactly on the FIRST tempo point, the other tempo points after the last note (the last object is a tempo point); 10% (osu / quaver): an SV as the very last object and, where the grid allows, as the very first; "
                 "the input snapshot of sv_normalize (counted, see assert_input_unchanged) holds values, row labels, column dtypes, label dtype and list class; EACH of the four lists independently in 60%: rows shuffled (70%) and built by .sorted() / .sorted(reverse=True) / append(item, sort=True) / append(list) / a filter (boolean mask or after()) that removes 1..3 interleaved rows / "
                 "from a DataFrame with permuted, reversed, offset, gappy, duplicated or negative row labels; 40%: the three functions in another order, 10% with one of them called twice")
    rep.rule = "a case is one (game, tempo points, SVs, notes, override, construction of each list, call form and order); non-trivial when it has >= 2 tempo points or >= 1 SV"
    order = ["osu", "qua", "osu", "qua", "sm", "bms", "osu", "qua", "o2j", "base", "osu", "qua"]
    feats = Counter()
    obs = Counter()
    for i in range(N):
        if rep.out_of_time(22, 300):
            break
        case = _random_case(rng, order[i % len(order)], plain=(i % 4 == 3))
        rep.case(case, nontrivial=(len(case["bpms"]) >= 2 or len(case["svs"]) >= 1))
        for f in _features(case):
            feats[f] += 1
        if case.get("kind_order"):
            feats["kind_order:" + case["kind_order"]] += 1
        for what, d in _run_case(case, obs):
            rep.fail(what, case, d)
    rep.extra["feature_counts"] = dict(sorted(feats.items()))
    rep.extra["sv_normalize_changed_its_argument"] = obs["sv_normalize_changed_its_argument"]
    rep.extra["assert_input_unchanged"] = ASSERT_INPUT_UNCHANGED


@replayer("tempo_analysis_vs_definitions")
def _replay(case, what):
    failed = _run_case(case)
    hit = [d for w, d in failed if w == what]
    return (bool(hit), hit[0] if hit else "passes")


# ---------------------------------------------------------------------------------------------- histories
def _edit_chart(m, game, kind):
    """A legitimate change of the chart object through public operations (the statement's preconditions are kept: the first
    tempo point stays at or before the first object, tempo points keep distinct times); -> the chart to go on with."""
    M, kw = _game(game)
    H, B = type(m.hits)._item_class(), type(m.bpms)._item_class()
    ends = [x for lst in m.objs.values() for x in lst.offset.tolist()]
    t_end = max(float(x) for x in ends)
    if kind == "scale_bpm":                     # in place, through the documented list property
        m.bpms.bpm *= 2
    elif kind == "stack_shift":                 # every list of the chart in place, through the stack
        st = m.stack()
        st.offset += 128.0
    elif kind == "shift_each":
        for lst in m.objs.values():
            lst.offset += -64.0
    elif kind == "rate2":
        return m.rate(2.0)
    elif kind == "rate_half":
        return m.rate(0.5)
    elif kind == "append_bpm":                  # a new list assigned; the new tempo point becomes the last object
        m.bpms = m.bpms.append(B(offset=t_end + 64.0, bpm=90.0))
    elif kind == "append_bpm_sorted":
        m.bpms = m.bpms.append(type(m.bpms)([B(offset=t_end + 32.0, bpm=480.0)]), sort=True)
    elif kind == "append_note":                 # a later last object: other active totals
        m.hits = m.hits.append(H(offset=t_end + 4096.0, column=1, **kw))
    elif kind == "append_sv":
        if game in SV_GAMES:
            S = type(m.svs)._item_class()
            m.svs = m.svs.append(S(offset=min(float(x) for x in m.bpms.offset.tolist()) + 16.0, multiplier=4.0))
    elif kind == "set_sv_mults":
        if game in SV_GAMES and len(m.svs.df):
            m.svs.multiplier = [[0.25, 1.5, 3.0][i % 3] for i in range(len(m.svs.df))]
    elif kind == "new_bpm_list":                # a freshly built list with the same first time
        t1 = min(float(x) for x in m.bpms.offset.tolist())
        m.bpms = type(m.bpms)([B(offset=t1 + 48.0, bpm=200.0), B(offset=t1, bpm=50.0)])
    else:
        raise ValueError(kind)
    return m


def _run_history(case, observe=None):
    """Two charts alive at once; each step judges one of them (possibly with another override, after re-sorting one of
    its lists, after appending the normalising SVs to it) against the statement for the chart AS IT IS THEN."""
    from reamber.algorithms.generate import sv_normalize

    maps = dict(a=_build(case["a"]), b=_build(case["b"]))
    cur = dict(a=dict(case["a"]), b=dict(case["b"]))
    failed = []
    for i, st in enumerate(case["steps"]):
        on = st["on"]
        m, c = maps[on], dict(cur[on])
        if "override" in st:
            c["override"] = st["override"]
            c.pop("override_np", None)
        if "call" in st:
            c["call"] = st["call"]
        if "order" in st:
            c["order"] = st["order"]
        if st.get("resort"):                                          # a list of the chart replaced by a re-sorted one
            kind, rev = st["resort"]
            if kind != "svs" or c["game"] in SV_GAMES:
                setattr(m, kind, getattr(m, kind).sorted(reverse=rev))
        if st.get("edit"):                                            # the SAME chart object changed through public operations since it was last judged
            try:
                m = maps[on] = _edit_chart(m, c["game"], st["edit"])
            except Exception:  # noqa  (an edit that reamber refuses is not this property's business)
                continue
        if st.get("append_norm") and c["game"] in SV_GAMES:           # the documented use: svs = svs.append(sv_normalize(m))
            try:
                m.svs = m.svs.append(_call(sv_normalize, m, c), sort=bool(st.get("sort")))
            except Exception as ex:
                failed.append(("sv_normalize_completes", f"step {i}: {type(ex).__name__}: {ex}"))
                continue
        cur[on] = c
        for w, d in _judge(m, c, observe, sanity=False):
            failed.append((w, f"step {i} on chart {on}: {d}"))
    seen, out = set(), []
    for w, d in failed:
        if w not in seen:
            seen.add(w)
            out.append((w, d))
    return out


def _random_history(rng):
    games = ["osu", "qua", "osu", "qua", "sm", "base", "bms", "o2j"]
    a = _random_case(rng, rng.choice(games[:4]), plain=rng.random() < 0.3)
    b = _random_case(rng, rng.choice(games), plain=rng.random() < 0.3)
    for c in (a, b):
        c.pop("order", None)
    steps = [dict(on="a"), dict(on="b")]
    for _ in range(rng.randrange(2, 5)):
        st = dict(on=rng.choice("aab"))
        r = rng.random()
        if r < 0.4:
            st["override"] = rng.choice(OVERRIDES + OVERRIDES_MORE)
            st["call"] = rng.choice(["positional", "keyword", "omitted"])
        elif r < 0.65:
            st["append_norm"] = True
            st["sort"] = rng.random() < 0.5
        elif r < 0.85:
            st["resort"] = [rng.choice(KINDS), rng.random() < 0.5]
        else:
            st["order"] = "".join(rng.sample("dsn", 3))
        if rng.random() < 0.45:
            st = dict(on=st["on"], edit=rng.choice(EDITS))             # judge - change the same object - judge again
        steps.append(st)
    return dict(a=a, b=b, steps=steps)


@bounded("C19", note="histories: two charts alive at once, the three functions called on them alternately with changing overrides, after re-sorting a list and after appending the normalising SVs to the chart; every step judged by the same oracles on the chart as it is then")
def tempo_analysis_histories(rep):
    rng = rep.rng
    N = rep.n(220, 6000)
    rep.bound = (f"up to {N} seeded histories over two charts drawn as in tempo_analysis_vs_definitions (chart a osu / quaver, chart b any game): both built first, then 4..6 steps; "
                 "a step judges chart a or b as it is, or first changes the override (any of " + f"{OVERRIDES + OVERRIDES_MORE}" + ", any call form), re-sorts one of its lists (either direction), "
                 "permutes the call order, or appends sv_normalize(chart) to the chart's SVs (sorted or not); 45% of the steps instead CHANGE the same chart object through public operations "
                 f"since it was last judged ({', '.join(EDITS)}: bpm column *= 2, every list shifted through the stack / one by one, rate(2) / rate(0.5), a tempo point / note / SV appended, "
                 "SV multipliers set in place, a new tempo list assigned) and judge it as it is then")
    rep.rule = "a case is one (chart a, chart b, steps); all have two charts and >= 4 judged steps; non-trivial when a step changes a chart or its override"
    obs = Counter()
    kinds = Counter()
    for _ in range(N):
        if rep.out_of_time(20, 300):
            break
        case = _random_history(rng)
        rep.case(case, nontrivial=any(len(s) > 1 for s in case["steps"]))
        for s in case["steps"]:
            kinds["judged_steps"] += 1
            if "edit" in s:
                kinds["edit_" + s["edit"]] += 1
            for k in ("override", "append_norm", "resort", "order", "edit"):
                if k in s:
                    kinds["steps_with_" + k] += 1
        for what, d in _run_history(case, obs):
            rep.fail(what, case, d)
    rep.extra["step_counts"] = dict(kinds)
    rep.extra["sv_normalize_changed_its_argument"] = obs["sv_normalize_changed_its_argument"]


@replayer("tempo_analysis_histories")
def _replay_history(case, what):
    failed = _run_history(case)
    hit = [d for w, d in failed if w == what]
    return (bool(hit), hit[0] if hit else "passes")
