"""C19 bounded stand-in: the real `dominant_bpm`, `scroll_speed`, `sv_normalize` on small charts against exact
rational oracles written from the property statement.

Readings fixed in the design note (so that the oracle does not demand more than the statement):
 * "the last object" = the timed object with the largest offset among ALL lists of the chart (notes by their head,
   SVs, tempo points, and for StepMania also stops);
 * among SVs sharing one time, the last in list order is the active one; an SV that shares its time with a tempo
   point is active from that time on (the tempo point is not "the next" one).
Input lists are SORTED by time (row-order dependence belongs to another property).  Where the statement is silent
(the speed before the first tempo point; whether sv_normalize may touch its argument) nothing is asserted; the
latter is counted as an observation, see ASSERT_INPUT_UNCHANGED."""
from __future__ import annotations

from collections import Counter, defaultdict
from fractions import Fraction

from pyvc.dsl import bounded
from pyvc.bounded import replayer

# The statement says what sv_normalize RETURNS and is silent about its argument.  The tempo list of the argument gains
# a `multiplier` column on the current tree (design note F14); with False this is only counted in the evidence
# (extra.sv_normalize_changed_its_argument), with True it becomes the failing clause `sv_normalize_leaves_chart_unchanged`.
ASSERT_INPUT_UNCHANGED = False

TIME_GRID = [0.0, 100.0, 200.0, 300.0, 400.0, 600.0, 800.0, 1000.25]      # dyadic: float sums of differences are exact
BPMS = [60.0, 100.0, 120.0, 177.5, 240.0]
MULTS = [0.5, 0.75, 1.0, 1.25, 2.0]
OVERRIDES = [None, 100, 177.5]
SV_GAMES = ["osu", "qua"]
OTHER_GAMES = ["sm", "bms", "o2j", "base"]
REL = 1e-9


def _game(game):
    if game == "osu":
        from reamber.osu import OsuMap as M
        return M, {}
    if game == "sm":
        from reamber.sm import SMMap as M
        return M, {}
    if game == "qua":
        from reamber.quaver import QuaMap as M
        return M, {"keysounds": []}
    if game == "bms":
        from reamber.bms import BMSMap as M
        return M, {}
    if game == "o2j":
        from reamber.o2jam import O2JMap as M
        return M, {}
    from reamber.base.Map import Map as M
    return M, {}


def _build(case):
    M, kw = _game(case["game"])
    m = M()
    H, L, B = type(m.hits)._item_class(), type(m.holds)._item_class(), type(m.bpms)._item_class()
    m.hits = type(m.hits)([H(offset=t, column=c, **kw) for t, c in case["hits"]])
    m.holds = type(m.holds)([L(offset=t, column=c, length=ln, **kw) for t, c, ln in case["holds"]])
    m.bpms = type(m.bpms)([B(offset=t, bpm=b) for t, b in case["bpms"]])
    if case["game"] in SV_GAMES:
        S = type(m.svs)._item_class()
        m.svs = type(m.svs)([S(offset=t, multiplier=x) for t, x in case["svs"]])
    if case["game"] == "sm" and case.get("stops"):
        from reamber.sm import SMStop
        from reamber.sm.lists import SMStopList

        m.stops = SMStopList([SMStop(offset=t, length=ln) for t, ln in case["stops"]])
    return m


def _F(x):
    return Fraction(float(x))


# ---------------------------------------------------------------------------------------------- oracles (from the statement)
def _last_object(case):
    ts = [t for t, _ in case["bpms"]] + [t for t, _ in case["hits"]] + [t for t, _, _ in case["holds"]]
    if case["game"] in SV_GAMES:
        ts += [t for t, _ in case["svs"]]
    if case["game"] == "sm":
        ts += [t for t, _ in case.get("stops", [])]
    return max(_F(t) for t in ts)


def _active_totals(case):
    """bpm value -> total active time between the first tempo point and the last object."""
    tp = sorted((_F(t), float(b)) for t, b in case["bpms"])
    end = _last_object(case)
    tot = defaultdict(Fraction)
    for i, (t, b) in enumerate(tp):
        nxt = tp[i + 1][0] if i + 1 < len(tp) else end
        tot[b] += max(Fraction(0), min(nxt, end) - t)
    return dict(tot)


def _dominant_set(case):
    tot = _active_totals(case)
    best = max(tot.values())
    return sorted(b for b, v in tot.items() if v == best)


def _active_bpm(case, x):
    c = [(_F(t), float(b)) for t, b in case["bpms"] if _F(t) <= x]
    return max(c)[1] if c else None


def _active_sv(case, x):
    """An SV lasts until the next SV or tempo point; a tempo point without an SV at its time means multiplier 1."""
    if case["game"] not in SV_GAMES:
        return Fraction(1)
    tb = max(_F(t) for t, _ in case["bpms"] if _F(t) <= x)
    sv = [(_F(t), i) for i, (t, _) in enumerate(case["svs"]) if tb <= _F(t) <= x]
    if not sv:
        return Fraction(1)
    ts = max(t for t, _ in sv)
    return _F(case["svs"][max(i for t, i in sv if t == ts)][1])     # last in list order among those sharing the time


def _close(a, b):
    return abs(Fraction(float(a)) - b) <= REL * max(abs(b), 1)


def _freeze(m):
    out = {}
    for k, v in m.objs.items():
        out[k] = (list(v.df.columns), repr(v.df.to_numpy().tolist()))
    return out


# ---------------------------------------------------------------------------------------------- one case
def _run_case(case, observe=None):
    from reamber.algorithms.utils import dominant_bpm
    from reamber.algorithms.analysis import scroll_speed
    from reamber.algorithms.generate import sv_normalize

    failed = []
    m = _build(case)
    ov = case["override"]
    doms = _dominant_set(case)

    # --- dominant bpm: a bpm value whose total active time is maximal (ties: any maximiser)
    try:
        d = float(dominant_bpm(m))
        if d not in doms:
            failed.append(("dominant_bpm_is_a_maximiser", f"got {d}; active totals {({k: float(v) for k, v in _active_totals(case).items()})}, last object at {float(_last_object(case))}"))
    except Exception as ex:
        failed.append(("dominant_bpm_completes", f"{type(ex).__name__}: {ex}"))

    refs = [Fraction(float(ov))] if ov is not None else [Fraction(b) for b in doms]
    t1 = min(_F(t) for t, _ in case["bpms"])

    # --- scroll speed at every breakpoint = active bpm / reference * active SV
    try:
        s = scroll_speed(m, ov)
        pts = [(Fraction(float(x)), float(v)) for x, v in zip(s.index.tolist(), s.tolist())]
        verdicts = []
        for ref in refs:
            bad = None
            for x, v in pts:
                if x < t1:
                    continue                                     # statement silent before the first tempo point
                want = Fraction(_active_bpm(case, x)) / ref * _active_sv(case, x)
                if v != v or not _close(v, want):
                    bad = f"at {float(x)}: got {v}, want {float(want)} (bpm {_active_bpm(case, x)}, reference {float(ref)}, SV {float(_active_sv(case, x))})"
                    break
            verdicts.append(bad)
        if all(b is not None for b in verdicts):
            what = "scroll_speed_uses_override" if ov is not None and all(
                _close(v, Fraction(_active_bpm(case, x)) / Fraction(b) * _active_sv(case, x)) for b in doms[:1] for x, v in pts if x >= t1) else "scroll_speed_at_breakpoints"
            failed.append((what, verdicts[0]))
        # every tempo point and every SV is a breakpoint
        have = {x for x, _ in pts}
        need = {_F(t) for t, _ in case["bpms"]} | ({_F(t) for t, _ in case["svs"]} if case["game"] in SV_GAMES else set())
        if not need <= have:
            failed.append(("breakpoints_cover_tempo_and_sv_points", f"missing {sorted(float(x) for x in need - have)} in {sorted(float(x) for x in have)}"))
    except Exception as ex:
        failed.append(("scroll_speed_completes", f"{type(ex).__name__}: {ex}"))

    # --- SV normalisation: one SV per tempo point, at its time, multiplier * bpm == reference
    if case["game"] in SV_GAMES:
        before = _freeze(m)
        try:
            r = sv_normalize(m, ov)
            if type(r) is not type(m.svs):
                failed.append(("sv_normalize_returns_the_charts_sv_class", f"{type(r).__name__} for {type(m.svs).__name__}"))
            got = sorted((Fraction(float(t)), float(x)) for t, x in zip(r.offset.tolist(), r.multiplier.tolist()))
            tp = sorted((_F(t), float(b)) for t, b in case["bpms"])
            if [t for t, _ in got] != [t for t, _ in tp]:
                failed.append(("sv_normalize_one_sv_per_tempo_point", f"times {[float(t) for t, _ in got]} for tempo points {[float(t) for t, _ in tp]}"))
            else:
                ok = [all(_close(x * b, ref) for (_, x), (_, b) in zip(got, tp)) for ref in refs]
                if not any(ok):
                    failed.append(("sv_normalize_multiplier_times_bpm_is_reference", f"multipliers {[x for _, x in got]} for bpms {[b for _, b in tp]}, reference {[float(r_) for r_ in refs]}"))
        except Exception as ex:
            failed.append(("sv_normalize_completes", f"{type(ex).__name__}: {ex}"))
        changed = _freeze(m) != before
        if changed and observe is not None:
            observe["sv_normalize_changed_its_argument"] += 1
        if changed and ASSERT_INPUT_UNCHANGED:
            after = _freeze(m)
            k = next(k for k in before if before[k] != after[k])
            failed.append(("sv_normalize_leaves_chart_unchanged", f"list {k}: columns {before[k][0]} -> {after[k][0]}"))
    return failed


# ---------------------------------------------------------------------------------------------- generation
def _random_case(rng, game):
    k = rng.randrange(1, 5)
    times = sorted(rng.sample(TIME_GRID[:6], k))
    pool = rng.sample(BPMS, rng.randrange(1, min(k, 3) + 1))           # repeated bpm values
    bpms = [[t, rng.choice(pool)] for t in times]
    t1 = times[0]
    later = [t for t in TIME_GRID if t >= t1]
    n_notes = rng.randrange(1, 4)
    hits, holds = [], []
    for _ in range(n_notes):
        t = rng.choice(later)
        if rng.random() < 0.6:
            hits.append([t, rng.randrange(4)])
        else:
            holds.append([t, rng.randrange(4), rng.choice([50.0, 2000.0])])    # long tails reach past everything else
    hits.sort()
    holds.sort()
    case = dict(game=game, bpms=bpms, hits=hits, holds=holds, override=rng.choice(OVERRIDES))
    if game in SV_GAMES:
        svs = []
        for _ in range(rng.randrange(0, 5)):
            r = rng.random()
            if r < 0.3:
                t = rng.choice(times)                                   # coincides with a tempo point
            elif r < 0.45 and svs:
                t = rng.choice(svs)[0]                                  # coincides with another SV
            elif r < 0.55 and t1 > 0:
                t = rng.choice([x for x in TIME_GRID if x < t1])        # before the first tempo point
            else:
                t = rng.choice(TIME_GRID)
            svs.append([t, rng.choice(MULTS)])
        svs.sort(key=lambda e: e[0])                                    # stable: ties keep their drawn order
        case["svs"] = svs
    else:
        case["svs"] = []
    if game == "sm":
        case["stops"] = [[rng.choice(TIME_GRID), 25.0]] if rng.random() < 0.3 else []
    return case


def _features(case):
    f = set()
    tot = _active_totals(case)
    if len(_dominant_set(case)) > 1:
        f.add("tie_in_active_time")
    if len(case["bpms"]) > len({b for _, b in case["bpms"]}):
        f.add("repeated_bpm_value")
    bt = {t for t, _ in case["bpms"]}
    st = [t for t, _ in case["svs"]]
    if any(t in bt for t in st):
        f.add("sv_on_tempo_point")
    if len(st) > len(set(st)):
        f.add("coincident_svs")
    if any(t < min(bt) for t in st):
        f.add("sv_before_first_tempo_point")
    last = _last_object(case)
    if st and max(_F(t) for t in st) == last and all(_F(t) < last for t, _ in case["hits"]) and all(_F(t) < last for t, _, _ in case["holds"]):
        f.add("last_object_is_an_sv")
    if max(_F(t) for t in bt) == last:
        f.add("last_object_is_a_tempo_point")
    if len(tot) > 1:
        f.add("several_bpm_values")
    return f


@bounded("C19", note="real dominant_bpm / scroll_speed / sv_normalize on small sorted charts (1-4 tempo points, 0-4 SVs incl. coincident and early ones, overrides) against exact rational oracles from the statement")
def tempo_analysis_vs_definitions(rep):
    rng = rep.rng
    N = rep.n(1000, 30000)
    rep.bound = (f"up to {N} seeded charts with sorted lists: 1..4 tempo points at distinct times of {TIME_GRID[:6]} with bpm values drawn from 1..3 of {BPMS} (repeats, ties), "
                 f"1..3 notes (hits and holds, tails up to 2000 ms) at or after the first tempo point on {TIME_GRID}, override in {OVERRIDES}; "
                 f"osu and quaver (2/3 of the cases): 0..4 SVs with multipliers {MULTS}, 30% on a tempo point, 15% on another SV, 10% before the first tempo point; "
                 "sm (30% with a stop), bms, o2j, base Map: dominant_bpm and scroll_speed without SVs")
    rep.rule = "a case is one (game, tempo points, SVs, notes, override); non-trivial when it has >= 2 tempo points or >= 1 SV"
    order = ["osu", "qua", "osu", "qua", "sm", "bms", "osu", "qua", "o2j", "base", "osu", "qua"]
    feats = Counter()
    obs = Counter()
    for i in range(N):
        if rep.out_of_time(22, 300):
            break
        case = _random_case(rng, order[i % len(order)])
        rep.case(case, nontrivial=(len(case["bpms"]) >= 2 or len(case["svs"]) >= 1))
        for f in _features(case):
            feats[f] += 1
        for what, d in _run_case(case, obs):
            rep.fail(what, case, d)
    rep.extra["feature_counts"] = dict(feats)
    rep.extra["sv_normalize_changed_its_argument"] = obs["sv_normalize_changed_its_argument"]
    rep.extra["assert_input_unchanged"] = ASSERT_INPUT_UNCHANGED


@replayer("tempo_analysis_vs_definitions")
def _replay(case, what):
    failed = _run_case(case)
    hit = [d for w, d in failed if w == what]
    return (bool(hit), hit[0] if hit else "passes")
