"""C08 bounded stand-ins: converting between games preserves chart content exactly, from any source state.

The REAL converters (`<A>To<B>.convert`, `O2JToSM.convert_merge`) are run on source charts built in memory from
objects and read from the fixtures in /repo/rsc/maps, after histories of source operations (filtered, sorted in
reverse, appended to, modified through stacking, rate-changed, deep-copied; every sequence of <= 2 operations,
seeded sequences of 3).  The oracle is the property statement: the expected content is what the SOURCE holds right
before the call, read positionally through its public lists (never through row labels), and the expectations about
the result are the statement's clauses, not reamber's code.

One function per source game (they run in parallel): c08_from_osu, c08_from_quaver, c08_from_sm, c08_from_bms,
c08_from_o2jam.

Clause ids (`what`); a suffix `_after_relabel` is added to the three content clauses, to svs_carried and to
defaults_no_missing_values when some
list of the source does not carry the default row labels 0..n-1 (i.e. after a filter / reverse sort / stack / rate;
suspected defect F9: `ConvertBase.cast` copies by row label):
  no_exception                       the converter returns
  target_chart_types                 result charts are the target game's chart class and their lists the target's list classes
  one_chart_per_source_chart         as many target charts as source charts (suspected F11: convert_merge)
  hits_equal / holds_equal / bpms_equal   (offset, column [+ shift]) / (offset, column [+ shift], length) / (offset, bpm)
                                     of the target are exactly those of the source (as multisets)
  svs_carried                        osu <-> Quaver: (offset, multiplier) carried over (suspected F10: OsuToQua)
  fields_exact                       every list of the result has exactly its class's declared fields (suspected F7: `index`)
  defaults_no_missing_values         no NaN / None in the fields the statement does not map (suspected F8: keysounds)
  metadata_title / _artist / _creator / _difficulty_name   wherever both games have the field
  source_untouched                   lists (values, order, fields) and metadata of the source are the same after the call
  earlier_result_unchanged_by_later_call   a result still satisfies every clause above after the converter was called again (on the
                                     same source / on another source): results of separate calls do not influence each other
Two classes of source keep a clause of their own (one root cause each, so that `no_exception` stays exercised next to them):
  no_exception_source_without_notes        some source chart has neither hits nor holds (the converters that derive the Quaver mode /
                                     StepMania chart type from the highest USED column have nothing to derive it from)
  no_exception_sm_type_without_key_count   SMToQua on a set with a chart type for which the library's public table
                                     `SMMapChartTypes.get_keys` has no key count: it must not crash (TypeError ...), and must return
                                     when raise_bad_mode=False was passed; a ValueError refusal otherwise is not a failure

Source dimensions besides the histories (see `_content`, `_new_memory_bases`): each list empty on its own, charts with no tempo point /
nothing at all, one-element lists, ties and boundary values, int-typed columns, numpy scalars, 4 and 7 keys, every StepMania chart
type (with and without a key count in reamber's table), sets of 0..5 charts with empty charts first / in the middle / only,
metadata with format separators, double-byte punctuation, empty strings; every optional argument (move_right_by, raise_bad_mode);
calls through the class and through an instance; the same source converted twice, another source converted in between.
Further: sources whose first lane(s) are empty with NEGATIVE explicit shifts (-1, -2: a shift to the left inside the lanes);
convert - change the same source object through public operations (`CHANGES`) - convert again: the second result is what
the statement says for the source as it is then (same clause ids, the detail says so) and stays so when observed twice;
`fields_exact` also takes the target game's fields from the DATA (a chart read from a bundled file of the target game), not only
from the list classes' own property tables.
"""
from __future__ import annotations

import copy
import glob
import inspect
import itertools
import logging
import math
import os
import warnings

from pyvc.dsl import bounded
from pyvc.bounded import replayer

MAPS = "/repo/rsc/maps"

# ----------------------------------------------------------------------------- games (vocabulary from the statement)


def _game(name):
    if name == "osu":
        from reamber.osu.OsuMap import OsuMap

        return dict(name=name, multi=False, chart=OsuMap, container=OsuMap, read=OsuMap.read_file, glob="osu/*.osu", sv=True,
                    title=lambda s, c: s.title, artist=lambda s, c: s.artist, creator=lambda s, c: s.creator, diff=lambda s, c: s.version)
    if name == "quaver":
        from reamber.quaver.QuaMap import QuaMap

        return dict(name=name, multi=False, chart=QuaMap, container=QuaMap, read=QuaMap.read_file, glob="qua/*.qua", sv=True,
                    title=lambda s, c: s.title, artist=lambda s, c: s.artist, creator=lambda s, c: s.creator, diff=lambda s, c: s.difficulty_name)
    if name == "sm":
        from reamber.sm.SMMapSet import SMMapSet
        from reamber.sm.SMMap import SMMap

        # SM has no free-text difficulty name: as a SOURCE its difficulty (Beginner..Edit) is the name; as a target: unspecified
        return dict(name=name, multi=True, chart=SMMap, container=SMMapSet, read=SMMapSet.read_file, glob="sm/*.sm", sv=False,
                    title=lambda s, c: s.title, artist=lambda s, c: s.artist, creator=lambda s, c: s.credit, diff=None,
                    diff_src=lambda s, c: str(c.difficulty))
    if name == "bms":
        from reamber.bms.BMSMap import BMSMap

        dec = lambda b: b.decode("shift_jis") if isinstance(b, (bytes, bytearray)) else b  # noqa
        return dict(name=name, multi=False, chart=BMSMap, container=BMSMap, read=BMSMap.read_file, glob="bms/*", sv=False,
                    title=lambda s, c: dec(s.title), artist=lambda s, c: dec(s.artist), creator=None, diff=lambda s, c: dec(s.version))
    if name == "o2jam":
        from reamber.o2jam.O2JMapSet import O2JMapSet
        from reamber.o2jam.O2JMap import O2JMap

        return dict(name=name, multi=True, chart=O2JMap, container=O2JMapSet, read=O2JMapSet.read_file, glob="o2jam/*.ojn", sv=False,
                    title=lambda s, c: s.title, artist=lambda s, c: s.artist, creator=lambda s, c: s.creator, diff=None,
                    diff_src=lambda s, c: str(s.level[[id(m) for m in s.maps].index(id(c))]))
    raise ValueError(name)


def _converters():
    import reamber.algorithms.convert as C

    # name -> (source game, target game, callable, name of the explicit column shift argument or None)
    t = {}
    for n in dir(C):
        if "To" in n and n[0].isupper() and hasattr(getattr(C, n), "convert"):
            a, b = n.split("To")
            g = {"Osu": "osu", "Qua": "quaver", "SM": "sm", "BMS": "bms", "O2J": "o2jam"}
            cls = getattr(C, n)
            sig = inspect.signature(cls.convert)
            shift = "move_right_by" if "move_right_by" in sig.parameters else None
            t[n] = (g[a], g[b], cls.convert, shift)
            if hasattr(cls, "convert_merge"):
                sigm = inspect.signature(cls.convert_merge)
                t[n + ".convert_merge"] = (g[a], g[b], cls.convert_merge, "move_right_by" if "move_right_by" in sigm.parameters else None)
    return t


# ----------------------------------------------------------------------------- in-memory sources ("built from objects")

META = {
    "ascii": dict(title="Title of 1 Song", artist="The Artist", creator="mapper_01", diff="Insane 4K"),
    # shift_jis-encodable, so that every target (BMS stores shift_jis bytes) can hold it
    "kana": dict(title="曲の名前", artist="アーティスト", creator="譜面", diff="難"),
    # separators of the five file formats and white space INSIDE the values (nothing is parsed on the way: a converter copies)
    "punct": dict(title="Re:Start, #1 // mix; [a=b] 100% |x|", artist="A  B\tC & D", creator="x:y,z", diff="7K [Lv.12] ~ Another: #2"),
    # shift_jis double-byte punctuation: wave dash U+301C, ideographic space U+3000, full-width forms, half-width katakana
    "wide": dict(title="\u301c夜\u3000明け\u301c", artist="ｆｕｌｌ\u3000ｗｉｄｔｈ", creator="ﾊﾝｶｸ", diff="ＡＮＯＴＨＥＲ！"),
    # every text field empty
    "blank": dict(title="", artist="", creator="", diff=""),
}

# number of columns per StepMania chart type (StepMania's StepsType table; only used to place objects in legal columns)
SM_TYPE_KEYS = {
    "dance-single": 4, "dance-double": 8, "dance-solo": 6, "dance-couple": 8, "dance-threepanel": 3, "dance-routine": 8,
    "pump-single": 5, "pump-halfdouble": 6, "pump-double": 10, "pump-couple": 10, "pump-routine": 10, "kb7-single": 7,
    "kickbox-human": 4, "kickbox-quadarm": 4, "kickbox-insect": 6, "kickbox-arachnid": 8, "para-single": 5,
    "bm-single5": 6, "bm-versus5": 6, "bm-double5": 12, "bm-single7": 8, "bm-double7": 16, "bm-versus7": 8,
    "ez2-single": 5, "ez2-double": 10, "ez2-real": 7, "pnm-five": 5, "pnm-nine": 9,
    "techno-single4": 4, "techno-single5": 5, "techno-single8": 8, "techno-double4": 8, "techno-double5": 10, "techno-double8": 16,
    "ds3ddx-single": 8, "maniax-single": 4, "maniax-double": 8,
    # not in reamber's table: a StepMania type it does not list, and a made-up one
    "lights-cabinet": 8, "xx-unknown": 4,
}
# key counts a target game can hold (osu!mania 1-18, Quaver 4 and 7, BMS up to 2 x (7 + scratch), O2Jam 7)
TARGET_KEYS = {"osu": set(range(1, 19)), "quaver": {4, 7}, "sm": set(SM_TYPE_KEYS.values()), "bms": set(range(1, 17)), "o2jam": {7}}


def _content(variant, keys, k=0):
    """Plain content of one chart: the LAST rows use the highest column so that every history keeps the key count."""
    top = keys - 1
    if variant == "full":
        hits = [(100.0 + 7 * k, 0), (-50.5, 1), (200.25, 2 % keys), (200.25, top), (975.0, top), (1500.0, top)]
        holds = [(150.0, 1, 100.0), (400.5 + k, 0, 50.25), (800.0, top, 0.0), (1200.0, top, 300.0)]
        bpms = [(0.0, 120.0), (1000.0, 180.5 + k), (2000.0, 90.0)]
        svs = [(0.0, 1.5), (500.0, 0.5), (500.0, 2.0), (1500.0, 1.0)]
    elif variant == "unsorted":
        hits = [(900.0, 1), (100.0 + k, 0), (500.0, top), (300.0, 2 % keys), (700.0, top)]
        holds = [(600.0, 0, 10.0), (100.0, top, 450.0 + k), (350.0, top, 25.0)]
        bpms = [(1000.0, 200.0), (0.0, 100.0 + k), (500.0, 150.0)]
        svs = [(700.0, 0.25), (0.0, 1.0), (300.0, 3.0)]
    elif variant == "sparse":
        hits = [(0.0, 0), (10.0 + k, top), (20.0, top)]
        holds = []
        bpms = [(-10.0, 60.0)]
        svs = []
    # ---- each list empty on its own, empty charts, one-element lists
    elif variant == "hits_only":
        hits = [(0.0, 0), (250.0 + k, 1 % keys), (250.0 + k, top), (999.999, top)]
        holds = []
        bpms = [(0.0, 150.0), (480.0, 75.0 + k)]
        svs = [(0.0, 1.0)]
    elif variant == "holds_only":
        hits = []
        holds = [(0.0, 0, 125.5), (300.0 + k, top, 0.0), (300.0 + k, 1 % keys, 1000.0), (2000.0, top, 62.5)]
        bpms = [(0.0, 200.0)]
        svs = [(100.0, 0.75), (200.0, 1.25)]
    elif variant == "no_notes":
        hits, holds = [], []
        bpms = [(0.0, 120.0), (2000.0, 60.0 + k)]
        svs = [(0.0, 2.0)]
    elif variant == "no_tempo":
        hits = [(10.0, 0), (20.0 + k, top)]
        holds = [(30.0, top, 5.0)]
        bpms = []
        svs = []
    elif variant == "empty":
        hits, holds, bpms, svs = [], [], [], []
    elif variant == "single":
        hits = [(123.456 + k, top)]
        holds = [(789.0, top, 10.0)]
        bpms = [(5.0, 140.0)]
        svs = [(5.0, 0.8)]
    # ---- ties and boundaries: coincident objects / tempo points / SVs with different values, duplicates, time 0, end == start,
    #      a hold ending exactly at 0, negative and very large times, values needing more than 6 significant digits, extreme SVs
    elif variant == "ties":
        hits = [(0.0, 0), (0.0, top), (1234567.891, 1), (1234567.891, 1), (-0.5, top), (-3600000.0, 0), (86400000.125, top), (0.001, top)]
        holds = [(0.0, 1, 0.0), (1000.0, top, 0.001), (1000.0, top, 250.0), (-2000.0, 0, 2000.0), (7654321.987, top, 3600000.5), (7654321.987, 0, 3600000.5)]
        bpms = [(0.0, 120.0), (0.0, 240.0), (1000.0, 173.33333333333334), (1000.0, 60.0), (1234567.891, 0.5 + k), (-5000.0, 1000000.0)]
        svs = [(0.0, 1.0), (0.0, 0.01), (1000.0, -1.0), (1000.0, 0.0), (2000.0, 10.5), (1234567.891, 1.123456789), (-5000.0, 1.0)]
    # ---- (17) which KIND of element comes first / last: an SV, then a hold, then a hit, all before the first tempo point; a tempo point after the last note
    elif variant == "kinds_a":
        svs = [(-900.0, 0.5), (100.0, 2.0)]
        holds = [(-700.0, top, 300.0 + k)]
        hits = [(-500.0, 0), (50.0 + k, top)]
        bpms = [(0.0, 120.0), (400.0, 90.0)]
    # ---- (17) the first element of every kind on ONE time (tempo point, hit, hold, SV), a hold alone before that in another lane order, an SV last
    elif variant == "kinds_b":
        bpms = [(-1000.0, 100.0 + k), (0.0, 200.0)]
        hits = [(-1000.0, top), (300.0, 0)]
        holds = [(-1000.0, 0, 250.0), (600.0, top, 100.0)]
        svs = [(-1000.0, 1.75), (5000.0, 0.25)]
    # ---- whole numbers given as python ints (int-typed columns where the list class keeps them)
    elif variant == "ints":
        hits = [(0, 0), (500, 1), (500, top), (-250, top), (4000 + k, top)]
        holds = [(1000, 0, 500), (1500, top, 0), (3000 + k, top, 125)]
        bpms = [(0, 120), (2000, 60 + k), (-1000, 240)]
        svs = [(0, 1), (2000, 2)]
    # ---- values given as numpy scalars of several widths
    elif variant == "numpy":
        import numpy as np

        hits = [(np.float64(0.0), np.int64(0)), (np.float32(250.5), np.int32(1)), (np.int64(500 + k), np.int8(top)), (np.float64(1e-3), np.uint8(top))]
        holds = [(np.float64(100.25), np.int64(0), np.float32(0.5)), (np.int32(1000), np.int16(top), np.int64(250 + k))]
        bpms = [(np.float64(0.0), np.float32(120.5)), (np.int64(2000), np.int64(60 + k))]
        svs = [(np.float32(0.0), np.float64(1.25)), (np.int64(10), np.int64(2))]
    else:
        raise ValueError(variant)
    return dict(hits=hits, holds=holds, bpms=bpms, svs=svs)


def _mk_item(item_cls, **content):
    """Item from objects: content fields given, every other REQUIRED constructor argument from the declared default."""
    sig = inspect.signature(item_cls.__init__)
    kw = dict(content)
    for n, p in sig.parameters.items():
        if n in ("self", "kwargs") or n in kw or p.default is not inspect.Parameter.empty:
            continue
        kw[n] = copy.deepcopy(item_cls._props[n][1])
    return item_cls(**kw)


def _fill_chart(chart, content, sv):
    H, L, B = type(chart.objs["hits"]), type(chart.objs["holds"]), type(chart.objs["bpms"])
    chart.hits = H([_mk_item(H._item_class(), offset=o, column=c) for o, c in content["hits"]])
    chart.holds = L([_mk_item(L._item_class(), offset=o, column=c, length=ln) for o, c, ln in content["holds"]])
    chart.bpms = B([_mk_item(B._item_class(), offset=o, bpm=b) for o, b in content["bpms"]])
    if sv:
        S = type(chart.objs["svs"])
        # from the dict form: the item form of OsuSv carries a field the list does not declare (a C16 matter)
        chart.svs = S.from_dict([dict(offset=o, multiplier=m) for o, m in content["svs"]]) if content["svs"] else S([])
    return chart


def _lifted(content, lift):
    """the same content with every note `lift` columns further right (the lowest used column becomes `lift`)"""
    if not lift:
        return content
    return dict(content, hits=[(o, c + lift) for o, c in content["hits"]], holds=[(o, c + lift, ln) for o, c, ln in content["holds"]])


def _build_memory(game, variant, meta, keys=None, charts=None, lift=0):
    """`keys`: key count of the chart of a single-chart game (default 4; the last rows use the highest column).
    `charts`: for the two set games, a list of [variant, StepMania chart type or None] replacing the default layout of the set
    (any number of charts for StepMania, three for O2Jam).
    `lift`: the notes use the columns lift..keys-1 only (the first `lift` lanes are empty), so that a shift to the LEFT by up to
    `lift` stays inside the lanes."""
    _plain_content = globals()["_content"]

    def _content(variant, keys, k=0):  # noqa  (shadows the module function inside this builder only)
        return _lifted(_plain_content(variant, keys - lift, k), lift)

    g = _game(game)
    md = META[meta]
    enc = (lambda s: s.encode("shift_jis")) if game == "bms" else (lambda s: s)
    if not g["multi"]:
        keys = keys or 4
        m = _fill_chart(g["chart"](), _content(variant, keys), g["sv"])
        m.title, m.artist = enc(md["title"]), enc(md["artist"])
        if game == "osu":
            m.creator, m.version, m.circle_size = md["creator"], md["diff"], keys
            m.title_unicode, m.artist_unicode = md["title"], md["artist"]
        elif game == "quaver":
            from reamber.quaver.QuaMapMeta import QuaMapMode

            m.creator, m.difficulty_name, m.mode = md["creator"], md["diff"], {4: QuaMapMode.KEYS_4, 7: QuaMapMode.KEYS_7}[keys]
        elif game == "bms":
            m.version = enc(md["diff"])
        return m
    s = g["container"]()
    s.title, s.artist = md["title"], md["artist"]
    if game == "sm":
        from reamber.sm.SMMapMeta import SMMapDifficulty

        s.credit, s.offset = md["creator"], 0.0
        out = []
        if charts is None:
            for k, (v, d) in enumerate(zip([variant, "unsorted" if variant != "unsorted" else "full"], [SMMapDifficulty.HARD, SMMapDifficulty.CHALLENGE])):
                c = _fill_chart(g["chart"](), _content(v, 4, k), False)
                c.difficulty, c.difficulty_val = d, 9 + k
                out.append(c)
        else:
            diffs = [SMMapDifficulty.BEGINNER, SMMapDifficulty.EASY, SMMapDifficulty.MEDIUM, SMMapDifficulty.HARD, SMMapDifficulty.CHALLENGE, SMMapDifficulty.EDIT]
            for k, (v, typ) in enumerate(charts):
                c = _fill_chart(g["chart"](), _content(v, SM_TYPE_KEYS.get(typ, 4), k), False)
                c.chart_type, c.difficulty, c.difficulty_val = typ, diffs[k % 6], 1 + 3 * k
                c.description = f"chart {k} of {len(charts)}"
                out.append(c)
        s.maps = out
    else:
        s.creator = md["creator"]
        s.level = [3, 17, 42, 0]
        vs = [v for v, _ in charts] if charts is not None else [variant, "unsorted" if variant != "unsorted" else "full", "full" if variant == "sparse" else "sparse"]
        s.maps = [_fill_chart(g["chart"](), _content(v, 7, k), False) for k, v in enumerate(vs)]
    return s


_MAPPED = ("offset", "column", "length", "bpm", "multiplier")


def _fill_all(game, src):
    """(14) every OTHER field of the source non-default, non-empty and different from its siblings: every text / bytes attribute of the
    set and of each chart that is still empty gets a text naming the attribute, osu's title_unicode / artist_unicode get texts of their own,
    and every numeric column of every list that the statement does not map gets values of its own (different per column and row)."""
    import numpy as np

    holders = [src] + (list(src.maps) if _game(game)["multi"] else [])
    for hi, holder in enumerate(holders):
        for k, v in list(vars(holder).items()):
            if k in ("objs", "maps"):
                continue
            if k in ("tags", "initial_scroll_velocity"):
                continue  # (declared as a list / a number; their empty-text default is not a text field)
            tag = f"{k} of {'set' if hi == 0 else 'chart %d' % (hi - 1)}"
            if isinstance(v, str) and v == "":
                setattr(holder, k, tag)
            elif isinstance(v, (bytes, bytearray)) and len(v) == 0:
                setattr(holder, k, tag.encode("ascii"))
    if game == "osu":
        src.title_unicode, src.artist_unicode = "Unicode title of its own", "Unicode artist of its own"
    for ci, c in enumerate(_charts(game, src)):
        j = 0
        for k, L in c.objs.items():
            for name in list(L.df.columns):
                if name in _MAPPED or len(L) == 0:
                    continue
                col = L.df[name]
                j += 1
                if col.dtype.kind in "iu":
                    vals = np.arange(len(L)) % 3 + 1 + (j % 2)  # 1..4: inside what every such column (sample sets, volumes, metronomes) can hold
                elif col.dtype.kind == "f":
                    vals = (np.arange(len(L)) % 3 + 1 + (j % 2)).astype(float)
                elif col.dtype.kind == "O" and all(isinstance(v, str) and v == "" for v in col):
                    vals = np.array([f"{name} {i}.wav" for i in range(len(L))], dtype=object)
                elif col.dtype.kind == "O" and all(isinstance(v, bytes) and v == b"" for v in col):
                    vals = np.array([f"{name} {i}.wav".encode("ascii") for i in range(len(L))], dtype=object)
                else:
                    continue
                try:
                    setattr(L, name, vals.astype(col.dtype))
                except Exception:  # noqa  (a column without a public setter stays as it is)
                    pass
    return src


def _source_keys(game, base):
    """Key counts of the charts of an in-memory source (None for a fixture: not known without reading reamber's own fields)."""
    if base["kind"] != "memory":
        return None
    if game == "sm":
        return [SM_TYPE_KEYS.get(t, 4) for _, t in base["charts"]] if base.get("charts") is not None else [4, 4]
    if game == "o2jam":
        return [7]
    return [base.get("keys") or 4]


_FIXTURES = {}


def _load_fixture(game, path):
    key = (game, path)
    if key not in _FIXTURES:
        g = _game(game)
        with warnings.catch_warnings():
            warnings.simplefilter("ignore")
            _FIXTURES[key] = g["read"](path)
    return _FIXTURES[key].deepcopy()


def _charts(game, src):
    return list(src.maps) if _game(game)["multi"] else [src]


# ----------------------------------------------------------------------------- histories

OPS = ["filter", "sort_reverse", "append", "stack", "rate", "deepcopy"]
# further producers of row-label states: ascending sort (labels permuted when the rows were not in time order), an append that
# sorts (the new row lands in the middle), a filter that takes a middle row out of EVERY list (a gap inside the labels)
OPS_EXTRA = ["sort", "append_sort", "filter_middle"]


def _apply_op(game, src, op):
    import numpy as np

    g = _game(game)
    if op == "deepcopy":
        return src.deepcopy()
    if op == "rate":
        return src.rate(1.25)
    if op == "stack":
        # through stacking: every list of every chart gets its offsets moved by 1 ms
        for c in _charts(game, src):
            c.stack().offset += 1
        return src
    for c in _charts(game, src):
        for k in list(c.objs):
            L = c.objs[k]
            n = len(L)
            if op == "sort_reverse":
                if n:
                    setattr(c, k, L.sorted(reverse=True))
            elif op == "append":
                if n and k in ("hits", "holds", "bpms", "svs"):
                    it = L[n - 1]
                    it.offset = float(max(L.offset)) + 10.0
                    setattr(c, k, L.append(it))
            elif op == "sort":
                if n:
                    setattr(c, k, L.sorted())
            elif op == "append_sort":
                if n and k in ("hits", "holds", "bpms", "svs"):
                    it = L[n - 1]
                    it.offset = (float(min(L.offset)) + float(max(L.offset))) / 2 + 0.125
                    setattr(c, k, L.append(it, sort=True))
            elif op == "filter_middle":
                if n >= 3:
                    setattr(c, k, L[np.arange(n) != n // 2])  # never the last row: the key count stays
            elif op == "filter":
                if n < 2:
                    continue
                if k == "hits":
                    # drop the earliest hit(s): .after() is exclusive
                    t = float(min(L.offset))
                    new = L.after(t)
                    if len(new):
                        setattr(c, k, new)
                else:
                    # a boolean mask: tempo points lose a middle (or the second of two) row, the other lists their first
                    drop = (n // 2 if n > 2 else 1) if k == "bpms" else 0
                    mask = np.arange(n) != drop
                    setattr(c, k, L[mask])
    return src


# legitimate changes of a source that was converted already (the SAME object is then converted again): the history operations
# that work in place or assign a new list, rate() (a new object made from the converted one), and in-place edits through the
# list properties / the stack / the metadata attributes
CHANGES = ["edit_offsets", "edit_bpm", "mirror_columns", "retitle", "stack", "append", "append_sort", "filter", "filter_middle", "sort_reverse", "rate"]


def _apply_change(game, src, op):
    if op in OPS or op in OPS_EXTRA:
        return _apply_op(game, src, op)
    if op == "retitle":
        new = "Changed title 2"
        src.title = new.encode("shift_jis") if game == "bms" else new
        if game == "osu":
            src.title_unicode = new
        return src
    for c in _charts(game, src):
        if op == "edit_offsets":
            # in place through the list properties
            if len(c.hits):
                c.hits.offset += 2.5
            if len(c.holds):
                c.holds.offset -= 0.25
                c.holds.length *= 2
            if len(c.bpms):
                c.bpms.offset += 7
        elif op == "edit_bpm":
            if len(c.bpms):
                c.bpms.bpm *= 2
        elif op == "mirror_columns":
            # through the stack: every note to the mirrored lane (the lowest and the highest used lane stay used)
            cols = [float(x) for L in (c.hits, c.holds) for x in L.column]
            if cols:
                s = c.stack()
                s.column = (max(cols) + min(cols)) - s.column
        else:
            raise ValueError(op)
    return src


def _histories(rng, n_random):
    yield []
    for a in OPS:
        yield [a]
    for a in OPS:
        for b in OPS:
            yield [a, b]
    for _ in range(n_random):
        yield [rng.choice(OPS) for _ in range(3)]


# ----------------------------------------------------------------------------- observation helpers


def _isnan(x):
    return x is None or (isinstance(x, float) and math.isnan(x))


def _col(L, name):
    return L.df[name].to_numpy().tolist() if name in L.df.columns else None


def _tuples(L, names):
    cols = [_col(L, n) for n in names]
    if any(c is None for c in cols):
        return None
    return list(zip(*cols)) if cols and len(L) else []


def _default_labels(L):
    return list(L.df.index) == list(range(len(L.df)))


def _snapshot(game, src):
    """Everything the statement calls 'the source': per chart, per list, the frame; plus the metadata."""
    lists = [{k: (type(L), L.df.copy(deep=True)) for k, L in c.objs.items()} for c in _charts(game, src)]
    meta = {}
    for holder in [src] + (list(src.maps) if _game(game)["multi"] else []):
        meta[id(holder)] = {k: copy.deepcopy(v) for k, v in vars(holder).items() if k not in ("objs", "maps")}
    return lists, meta


def _snapshot_diff(game, src, snap):
    lists, meta = snap
    charts = _charts(game, src)
    if len(charts) != len(lists):
        return f"the source has {len(charts)} charts, had {len(lists)}"
    for i, (c, ls) in enumerate(zip(charts, lists)):
        if list(c.objs) != list(ls):
            return f"chart {i}: lists {list(c.objs)}, were {list(ls)}"
        for k, (tp, df) in ls.items():
            L = c.objs[k]
            if type(L) is not tp:
                return f"chart {i}.{k}: class {type(L).__name__}, was {tp.__name__}"
            if list(L.df.columns) != list(df.columns) or len(L.df) != len(df) or not L.df.reset_index(drop=True).equals(df.reset_index(drop=True)):
                return f"chart {i}.{k}: content changed"
            if list(L.df.index) != list(df.index):
                return f"chart {i}.{k}: row labels changed"
            if [str(t) for t in L.df.dtypes] != [str(t) for t in df.dtypes]:
                return f"chart {i}.{k}: column types changed: {dict(L.df.dtypes.astype(str))}, were {dict(df.dtypes.astype(str))}"
            if type(L.df.index) is not type(df.index):
                return f"chart {i}.{k}: row label type {type(L.df.index).__name__}, was {type(df.index).__name__}"
    for holder in [src] + (list(src.maps) if _game(game)["multi"] else []):
        now = {k: v for k, v in vars(holder).items() if k not in ("objs", "maps")}
        was = meta.get(id(holder))
        if was is None or set(now) != set(was):
            return "metadata fields changed"
        for k in now:
            try:
                same = now[k] == was[k]
                same = bool(same) if not hasattr(same, "all") else bool(same.all())
            except Exception:
                same = True
            if not same:
                return f"metadata {k}: {now[k]!r}, was {was[k]!r}"
            if type(now[k]) is not type(was[k]):
                return f"metadata {k}: type {type(now[k]).__name__} ({now[k]!r}), was {type(was[k]).__name__} ({was[k]!r})"
    return None


def _flatten_result(tgt_game, res):
    """-> list of (holder of set-level metadata, chart) or None when the shape is not charts of the target game."""
    g = _game(tgt_game)
    out = []

    def one(x):
        if g["multi"] and isinstance(x, g["container"]):
            for c in x.maps:
                out.append((x, c))
            return True
        if not g["multi"] and isinstance(x, g["chart"]):
            out.append((x, x))
            return True
        return False

    if isinstance(res, (list, tuple)):
        for x in res:
            if not one(x):
                return None
        return out
    return out if one(res) else None


def _multiset_diff(got, want):
    """None when equal as multisets; else a short description."""
    nan_rows = [r for r in got if any(_isnan(v) for v in r)]
    if nan_rows:
        return f"{len(nan_rows)} of {len(got)} target rows have missing values, e.g. {nan_rows[0]}; source rows e.g. {want[:2]}"
    try:
        g = sorted((tuple(float(v) for v in r) for r in got))
        w = sorted((tuple(float(v) for v in r) for r in want))
    except Exception as ex:  # noqa
        return f"values not numeric: {type(ex).__name__}: {ex}"
    if len(g) != len(w):
        return f"{len(g)} target rows, {len(w)} source rows"
    if g != w:
        bad = [(a, b) for a, b in zip(g, w) if a != b][:2]
        return f"{sum(1 for a, b in zip(g, w) if a != b)} of {len(w)} rows differ, e.g. target {bad[0][0]} vs source {bad[0][1]}"
    return None


# ----------------------------------------------------------------------------- one case


def _build_source(case):
    game = case["src"]
    b = case["base"]
    if b["kind"] == "memory":
        src = _build_memory(game, b["variant"], b["meta"], keys=b.get("keys"), charts=b.get("charts"), lift=b.get("lift", 0))
        if b.get("fill"):
            src = _fill_all(game, src)
    else:
        src = _load_fixture(game, b["path"])
    for op in case["ops"]:
        src = _apply_op(game, src, op)
    return src


def _run_case(case, src=None):
    """case: dict(src=game, base={kind, variant, meta | path}, ops=[...], converter=name, args={...}) -> [(what, detail)]
    or the string 'skip:<reason>' when the target game cannot hold the source's key count."""
    prev = logging.root.manager.disable
    logging.disable(logging.WARNING)
    try:
        with warnings.catch_warnings():
            warnings.simplefilter("ignore")
            return _run_case_inner(case, src)
    finally:
        logging.disable(prev)


_CONV_CACHE = {}
_PROTO_CACHE = {}


def _conv(name):
    if not _CONV_CACHE:
        _CONV_CACHE.update(_converters())
    return _CONV_CACHE[name]


def _proto_lists(tgame):
    """list name -> list class of a freshly constructed chart of the target game."""
    if tgame not in _PROTO_CACHE:
        _PROTO_CACHE[tgame] = {k: type(L) for k, L in _game(tgame)["chart"]().objs.items()}
    return _PROTO_CACHE[tgame]


_DATA_FIELDS = {}


def _data_fields(tgame):
    """list name -> sorted field names, taken from the DATA: the lists of a chart of the target game read from a bundled file
    (not from the list classes' own property tables).  {} when no bundled file of the game can be read."""
    if tgame not in _DATA_FIELDS:
        out = {}
        for rel in QUICK_FIXTURES[tgame]:
            try:
                with warnings.catch_warnings():
                    warnings.simplefilter("ignore")
                    c = _charts(tgame, _load_fixture(tgame, os.path.join(MAPS, rel)))[0]
                out = {k: sorted(str(x) for x in L.df.columns) for k, L in c.objs.items()}
                break
            except Exception:  # noqa  (reading is another property's business)
                continue
        _DATA_FIELDS[tgame] = out
    return _DATA_FIELDS[tgame]


def _callable(case):
    """The converter as the case calls it: through the class (default) or through an instance of it."""
    sgame, tgame, fn, shift_name = _conv(case["converter"])
    if case.get("call") == "instance":
        import reamber.algorithms.convert as C

        cname, _, meth = case["converter"].partition(".")
        fn = getattr(getattr(C, cname)(), meth or "convert")
    return fn


def _expectations(sgame, src):
    """What the source holds right now, read positionally: (charts, per-chart content, per-chart metadata, relabelled?)."""
    gs = _game(sgame)
    charts = _charts(sgame, src)
    relabelled = any(not _default_labels(L) for c in charts for L in c.objs.values())
    want = []
    for c in charts:
        w = dict(hits=_tuples(c.hits, ["offset", "column"]), holds=_tuples(c.holds, ["offset", "column", "length"]), bpms=_tuples(c.bpms, ["offset", "bpm"]))
        if gs["sv"]:
            w["svs"] = _tuples(c.svs, ["offset", "multiplier"])
        want.append(w)
    want_meta = []
    for c in charts:
        wm = {}
        for f in ("title", "artist", "creator"):
            wm[f] = gs[f](src, c) if gs[f] else None
        wm["diff"] = gs["diff"](src, c) if gs["diff"] else None
        wm["diff_contains"] = gs["diff_src"](src, c) if gs.get("diff_src") else None
        want_meta.append(wm)
    return charts, want, want_meta, relabelled


def _from_source(text):
    """what a non-ASCII text of a BMS source may become in a target: itself, or its ASCII transliteration"""
    from unidecode import unidecode

    return (text, unidecode(text))


def _check_result(sgame, tgame, res, n_charts, want, want_meta, sfx, shift, content_only=False):
    """The statement's clauses about one returned value: [(what, detail)] (not de-duplicated)."""
    gs, gt = _game(sgame), _game(tgame)
    failed = []
    flat = _flatten_result(tgame, res)
    if flat is None:
        failed.append(("target_chart_types", f"result {type(res).__name__} is not made of {gt['container'].__name__}"))
        return failed
    if len(flat) != n_charts:
        failed.append(("one_chart_per_source_chart", f"{len(flat)} target charts for {n_charts} source charts"))
    proto = _proto_lists(tgame)
    for i, (holder, tc) in enumerate(flat):
        # --- chart and list classes of the target game
        bad = [f"{k}: {type(L).__name__}" for k, L in tc.objs.items() if k in proto and type(L) is not proto[k]]
        if set(tc.objs) != set(proto):
            bad.append(f"lists {sorted(tc.objs)} vs declared {sorted(proto)}")
        if bad:
            failed.append(("target_chart_types", f"chart {i}: {bad}"))
        # --- declared fields only, no missing values in the fields the statement does not map
        for k, L in tc.objs.items():
            decl = list(type(L).props().names)
            cols = [str(c) for c in L.df.columns]
            if sorted(cols) != sorted(decl):
                failed.append(("fields_exact", f"chart {i}.{k} ({type(L).__name__}): fields {cols}, declared {decl}, extra {[c for c in cols if c not in decl]}, missing {[c for c in decl if c not in cols]}"))
            data = _data_fields(tgame).get(k)
            if data is not None and sorted(cols) != data:
                # the target game's fields as the DATA show them: the same list of a chart read from a bundled file of that game
                failed.append(("fields_exact", f"chart {i}.{k} ({type(L).__name__}): fields {sorted(cols)}, the same list of a {tgame} chart read from a bundled file has {data}"))
            mapped = {"hits": ("offset", "column"), "holds": ("offset", "column", "length"), "bpms": ("offset", "bpm"), "svs": ("offset", "multiplier")}.get(k, ())
            for cname in decl:
                if cname in mapped or cname not in L.df.columns:
                    continue
                vals = L.df[cname].tolist()
                nn = sum(1 for v in vals if _isnan(v))
                if nn:
                    failed.append(("defaults_no_missing_values" + sfx, f"chart {i}.{k}.{cname}: {nn} of {len(vals)} values missing (declared default {type(L).props().defaults[decl.index(cname)]!r})"))
        if len(flat) != n_charts:
            continue
        w = want[i]
        # --- content
        for k, names, what in (("hits", ["offset", "column"], "hits_equal"), ("holds", ["offset", "column", "length"], "holds_equal"), ("bpms", ["offset", "bpm"], "bpms_equal")):
            got = _tuples(tc.objs[k], names) if k in tc.objs else None
            if got is None:
                failed.append((what + sfx, f"chart {i}.{k}: the target has no {names}"))
                continue
            exp = w[k]
            if "column" in names and shift:
                exp = [(r[0], r[1] + shift) + tuple(r[2:]) for r in exp]
            dd = _multiset_diff(got, exp)
            if dd:
                failed.append((what + sfx, f"chart {i}.{k}{' (columns + ' + str(shift) + ')' if shift and 'column' in names else ''}: {dd}"))
        if gs["sv"] and gt["sv"]:
            got = _tuples(tc.objs["svs"], ["offset", "multiplier"]) if "svs" in tc.objs else None
            dd = "the target has no svs" if got is None else _multiset_diff(got, w["svs"])
            if dd:
                failed.append(("svs_carried" + sfx, f"chart {i}.svs: {dd}"))
        # --- metadata wherever both games have the field
        wm = want_meta[i]
        for f in ("title", "artist", "creator"):
            if wm[f] is None or gt[f] is None:
                continue
            try:
                got = gt[f](holder, tc)
            except Exception as ex:  # noqa
                got = f"<{type(ex).__name__}: {ex}>"
            if isinstance(wm[f], str) and sgame == "bms" and not wm[f].isascii():
                # BMS stores shift_jis bytes.  "Comes from the source" is read as: the decoded text itself or its ASCII transliteration
                # (every shipped BMS converter romanises with unidecode); characters silently dropped / stray bytes are neither
                if got not in _from_source(wm[f]):
                    failed.append(("metadata_" + f, f"chart {i}: target {f} {got!r} is neither the source's text {wm[f]!r} nor its transliteration {_from_source(wm[f])[1]!r}"))
                continue
            if got != wm[f]:
                failed.append(("metadata_" + f, f"chart {i}: target {f} {got!r}, source {wm[f]!r}"))
        if gt["diff"] is not None:
            try:
                got = gt["diff"](holder, tc)
            except Exception as ex:  # noqa
                got = f"<{type(ex).__name__}: {ex}>"
            if wm["diff"] is not None:
                if isinstance(wm["diff"], str) and sgame == "bms" and not wm["diff"].isascii():
                    if got not in _from_source(wm["diff"]):
                        failed.append(("metadata_difficulty_name", f"chart {i}: target difficulty name {got!r} is neither the source's text {wm['diff']!r} nor its transliteration {_from_source(wm['diff'])[1]!r}"))
                elif got != wm["diff"]:
                    failed.append(("metadata_difficulty_name", f"chart {i}: target difficulty name {got!r}, source {wm['diff']!r}"))
            elif wm["diff_contains"] is not None:
                if not isinstance(got, str) or wm["diff_contains"] not in got:
                    failed.append(("metadata_difficulty_name", f"chart {i}: target difficulty name {got!r} does not carry the source's {wm['diff_contains']!r}"))
    return failed


def _run_case_inner(case, src):
    sgame, tgame, _fn, shift_name = _conv(case["converter"])
    fn = _callable(case)
    if src is None:
        src = _build_source(case)
    failed = []
    args = dict(case.get("args") or {})
    shift = 0
    if shift_name:
        shift = args[shift_name] if shift_name in args else inspect.signature(_fn).parameters[shift_name].default
    charts, want, want_meta, relabelled = _expectations(sgame, src)
    sfx = "_after_relabel" if relabelled else ""
    keys = _source_keys(sgame, case["base"])
    if sgame == "bms" and keys is not None:
        # A BMS chart declares no key count: the lanes in use (as the chart is when it is handed over, e.g. after a
        # filter) are all there is, so that is the key count a target game has to be able to hold.
        used = [int(c) for ch in charts for L in (ch.hits, ch.holds) for c in L.column.tolist()]
        keys = [max(used) + 1] if used else keys
    holdable = keys is not None and all(k in TARGET_KEYS[tgame] for k in keys)
    # a source that gives no key count at all (no notes, or no chart): *ToSM / *ToQua have nothing to derive the mode from
    snap = _snapshot(sgame, src)

    try:
        res = fn(src, **args)
    except Exception as ex:  # noqa
        msg = f"{type(ex).__name__}: {ex}"
        refusal = isinstance(ex, ValueError) and "supported" in str(ex)
        if refusal and case["base"]["kind"] == "fixture":
            return "skip:" + msg
        if keys is not None and not holdable and args.get("raise_bad_mode", True) is not False:
            # the target game cannot hold a chart with that many keys: whether / how a converter refuses it is not stated
            return "skip:" + f"{tgame} cannot hold {sorted(set(k for k in keys if k not in TARGET_KEYS[tgame]))} keys: " + msg
        d = _snapshot_diff(sgame, src, snap)
        if d:
            failed.append(("source_untouched", d))
        what = "no_exception"
        if sgame == "sm" and tgame == "quaver":
            from reamber.sm.SMMapMeta import SMMapChartTypes

            # a class of its own (one root cause): StepMania chart types for which the library's public table has no key count
            nokeys = sorted({str(c.chart_type) for c in charts if SMMapChartTypes.get_keys(c.chart_type) is None})
            if nokeys and refusal and args.get("raise_bad_mode", True) is not False:
                # the library does not know these types' key count, so it cannot name a Quaver mode: a refusal (ValueError
                # '... isn't supported') is the unsupported-mode behaviour, which the statement does not regulate
                return "skip:" + msg
            if nokeys:
                what, msg = "no_exception_sm_type_without_key_count", msg + f" (chart types without a key count in SMMapChartTypes.get_keys: {nokeys}; raise_bad_mode={args.get('raise_bad_mode', 'omitted')})"
        if what == "no_exception" and any(not len(c.hits) and not len(c.holds) for c in charts):
            # a class of its own (one root cause): a source chart without any note gives the converters that derive the
            # mode / chart type from the highest used column nothing to derive it from
            what, msg = "no_exception_source_without_notes", msg + f" (source charts without notes: {[i for i, c in enumerate(charts) if not len(c.hits) and not len(c.holds)]}; raise_bad_mode={args.get('raise_bad_mode', 'omitted')})"
        return [(what, f"{case['converter']} raised {msg}")] + failed

    d = _snapshot_diff(sgame, src, snap)
    if d:
        failed.append(("source_untouched", d))
    failed += _check_result(sgame, tgame, res, len(charts), want, want_meta, sfx, shift)

    # ---- repetition: the same source converted a second time; another source converted in between.  The second result
    #      must satisfy every clause like the first, and the first result must still be what it was (its own clause).
    # ---- call - legitimate change - call again: the SAME source object is changed through public operations and converted
    #      again; the second result must be what the statement says for the source AS IT IS NOW (same clause ids)
    if case.get("change"):
        tag = f"after the converted source was changed ({', '.join(case['change'])}) and converted again: "
        try:
            for op in case["change"]:
                src = _apply_change(sgame, src, op)
        except Exception:  # noqa  (the operations themselves are other properties' business)
            src = None
        if src is not None:
            charts2, want2, want_meta2, relabelled2 = _expectations(sgame, src)
            sfx2 = "_after_relabel" if relabelled2 else ""
            snap2 = _snapshot(sgame, src)
            try:
                res2 = fn(src, **args)
            except Exception as ex:  # noqa
                failed.append(("no_exception", tag + f"{case['converter']} raised {type(ex).__name__}: {ex}"))
                res2 = None
            d = _snapshot_diff(sgame, src, snap2)
            if d:
                failed.append(("source_untouched", tag + d))
            if res2 is not None:
                failed += [(w, tag + dt) for w, dt in _check_result(sgame, tgame, res2, len(charts2), want2, want_meta2, sfx2, shift)]
                # the same result object observed twice
                again = {w for w, _ in _check_result(sgame, tgame, res2, len(charts2), want2, want_meta2, sfx2, shift)}
                if again - {w for w, _ in failed}:
                    failed.append(("earlier_result_unchanged_by_later_call", tag + f"the second result observed once more fails {sorted(again)}"))

    later = []
    if case.get("again"):
        try:
            res2 = fn(src, **args)
        except Exception as ex:  # noqa
            failed.append(("no_exception", f"{case['converter']} raised {type(ex).__name__}: {ex} when called a second time on the same source"))
            res2 = None
        if res2 is not None:
            d = _snapshot_diff(sgame, src, snap)
            if d:
                failed.append(("source_untouched", "after the second call on the same source: " + d))
            failed += [(w, "second call on the same source: " + dt) for w, dt in _check_result(sgame, tgame, res2, len(charts), want, want_meta, sfx, shift)]
            later.append("a second call on the same source")
    if case.get("then"):
        other = _build_source(dict(src=sgame, base=case["then"]["base"], ops=case["then"].get("ops", [])))
        try:
            fn(other, **args)
            later.append(f"a call on another source ({case['then']['base'].get('variant') or os.path.basename(case['then']['base'].get('path', ''))})")
        except Exception:  # noqa  (that call is another case's business)
            pass
    if later:
        before = {w for w, _ in failed}
        for w, dt in _check_result(sgame, tgame, res, len(charts), want, want_meta, sfx, shift):
            if w not in before:
                failed.append(("earlier_result_unchanged_by_later_call", f"after {' and '.join(later)} the first result fails {w}: {dt}"))
                break
    seen, uniq = set(), []
    for wht, dt in failed:
        if wht not in seen:
            seen.add(wht)
            uniq.append((wht, dt))
    return uniq


# ----------------------------------------------------------------------------- drivers

QUICK_FIXTURES = {
    "osu": ["osu/AddictionCut.osu", "osu/TribalTrialEXH.osu", "osu/Gravity.osu"],
    "quaver": ["qua/NeuroCloud.qua"],
    "sm": ["sm/Escapes.sm", "sm/Gravity.sm"],
    "bms": ["bms/coldBreath.bme", "bms/searoad.bml"],
    "o2jam": ["o2jam/o2ma178.ojn"],
}


def _arg_variants(conv_name, shift_name, fn, lift=0):
    """Every optional argument of the converter with its default (omitted), the default given explicitly, and other values.
    `lift`: the source leaves its first `lift` lanes empty: the explicit shift also takes the NEGATIVE values -1..-lift
    (a shift to the left that stays inside the lanes); they come right after the omitted form."""
    out = [{}]
    params = inspect.signature(fn).parameters
    if shift_name:
        out += [{shift_name: -k} for k in range(1, lift + 1)]
        out += [{shift_name: 0}, {shift_name: 1}, {shift_name: 3}, {shift_name: 8}]
    if "raise_bad_mode" in params:
        out += [{"raise_bad_mode": True}, {"raise_bad_mode": False}]
    return out


def _other_arguments(fn, shift_name):
    return [n for n in list(inspect.signature(fn).parameters)[1:] if n not in (shift_name, "raise_bad_mode")]


NEW_VARIANTS = ["hits_only", "holds_only", "no_notes", "no_tempo", "empty", "single", "ties", "ints", "numpy", "kinds_a", "kinds_b"]


def _new_memory_bases(game, rng):
    """In-memory sources along the dimensions the three original ones hold fixed: each list empty on its own / empty charts /
    one-element lists, ties and boundary values, int-typed columns, 7 keys, every StepMania chart type, sets of 0 / 1 / 5 charts
    with an empty chart in the middle, metadata with separators, double-byte punctuation, empty strings."""
    mk = lambda **kw: dict(kind="memory", **kw)  # noqa
    wide = "wide" if game != "bms" else "punct"  # BMS: the non-ASCII sets are added below, at the end of the family
    if not _game(game)["multi"]:
        out = [mk(variant=v, meta="ascii") for v in NEW_VARIANTS]
        out += [mk(variant="full", meta="ascii", keys=7), mk(variant="unsorted", meta="punct", keys=7), mk(variant="ties", meta=wide, keys=7)]
        out += [mk(variant="sparse", meta="blank"), mk(variant="full", meta="punct"), mk(variant="hits_only", meta=wide)]
        if game == "bms":
            # (25) non-ASCII shift_jis metadata of a BMS source: the target holds the text or its transliteration (_from_source)
            out += [mk(variant="full", meta="wide"), mk(variant="sparse", meta="kana", keys=7)]
        # charts whose first lane(s) are empty: every converter, and a negative explicit shift where the converter has one
        out += [mk(variant="full", meta="ascii", lift=1), mk(variant="unsorted", meta="ascii", keys=7, lift=2), mk(variant="ties", meta="ascii", keys=7, lift=1)]
        out[:0] = [mk(variant="full", meta="ascii", fill=True), mk(variant="kinds_a", meta="ascii", keys=7, fill=True)]  # (14), first: a truncated quick run reaches them
        return out
    if game == "o2jam":
        sets = [["hits_only", "no_notes", "holds_only"], ["full", "empty", "unsorted"], ["ties", "single", "ints"], ["no_tempo", "numpy", "full"], ["empty", "empty", "empty"]]
        out = [mk(variant="set", meta="ascii", charts=[[v, None] for v in vs]) for vs in sets]
        out += [mk(variant="full", meta="punct"), mk(variant="sparse", meta=wide), mk(variant="unsorted", meta="blank")]
        # sets whose first lane(s) are empty (lanes numbered from 1 / from 2): a negative explicit shift stays inside the lanes
        out += [mk(variant="full", meta="ascii", lift=1), mk(variant="set", meta="ascii", charts=[["ties", None], ["hits_only", None], ["ints", None]], lift=2),
                mk(variant="set", meta="ascii", charts=[["holds_only", None], ["numpy", None], ["single", None]], lift=1)]
        # (14) / (17); last, so that a quick run cut short by the time budget keeps reaching the sources above as before
        out += [mk(variant="full", meta="ascii", fill=True), mk(variant="set", meta="ascii", charts=[["kinds_a", None], ["kinds_b", None], ["full", None]])]
        return out
    # StepMania: any number of charts, any chart type
    ds, kb = "dance-single", "kb7-single"
    out = [
        mk(variant="set", meta="ascii", charts=[]),
        mk(variant="set", meta="ascii", charts=[["full", ds]]),
        mk(variant="set", meta="ascii", charts=[["full", ds], ["empty", ds], ["unsorted", kb], ["no_notes", "dance-solo"], ["holds_only", "dance-double"]]),
        mk(variant="set", meta="ascii", charts=[["hits_only", ds], ["holds_only", kb], ["no_tempo", ds], ["single", kb]]),
        mk(variant="set", meta="punct", charts=[["ties", ds], ["ints", kb], ["numpy", kb]]),
        mk(variant="set", meta="ascii", charts=[["empty", ds], ["empty", ds]]),
        mk(variant="full", meta=wide),
        mk(variant="sparse", meta="blank"),
        mk(variant="full", meta="ascii", lift=1),  # first lane empty
    ]
    out.insert(9, mk(variant="set", meta="ascii", charts=[["full", ds], ["unsorted", kb]], fill=True))  # (14), after the fixed sources, before the chart-type sets
    out.insert(10, mk(variant="set", meta="ascii", charts=[["kinds_a", ds], ["kinds_b", kb]]))  # (17)
    # every chart type of the table (those reamber has a key count for and those it has none for), 5 per set, in seeded order
    # (the types Quaver can hold, 4 and 7 keys, in sets of their own so that SMToQua has to convert them)
    cyc = ["full", "unsorted", "hits_only", "sparse", "single"]
    for types in ([t for t in sorted(SM_TYPE_KEYS) if SM_TYPE_KEYS[t] in TARGET_KEYS["quaver"]], [t for t in sorted(SM_TYPE_KEYS) if SM_TYPE_KEYS[t] not in TARGET_KEYS["quaver"]]):
        rng.shuffle(types)
        for i in range(0, len(types), 5):
            out.append(mk(variant="set", meta="ascii", charts=[[cyc[(i + j) % 5], t] for j, t in enumerate(types[i : i + 5])]))
    return out


def _from_game(game):
    def fn(rep):
        rng = rep.rng
        convs = {n: c for n, c in _converters().items() if c[0] == game}
        paths = sorted(glob.glob(os.path.join(MAPS, _game(game)["glob"])))
        if rep.tier == "quick":
            paths = [p for p in paths if os.path.relpath(p, MAPS) in QUICK_FIXTURES[game]]
        bases = [dict(kind="memory", variant=v, meta=m) for v, m in (("full", "ascii"), ("unsorted", "kana"), ("sparse", "ascii"))]
        new_bases = _new_memory_bases(game, rng)
        unreadable = []
        for p in paths:
            try:
                with warnings.catch_warnings():
                    warnings.simplefilter("ignore")
                    prev = logging.root.manager.disable
                    logging.disable(logging.WARNING)
                    try:
                        _load_fixture(game, p)
                    finally:
                        logging.disable(prev)
                bases.append(dict(kind="fixture", path=p))
            except Exception as ex:  # noqa  (reading is another property's business)
                unreadable.append(f"{os.path.basename(p)}: {type(ex).__name__}")
        n_random = rep.n(8, 60)
        singles = OPS + OPS_EXTRA
        n_new_single, n_new_pair = rep.n(1, len(singles)), rep.n(1, 6)
        rep.bound = (
            f"converters {sorted(convs)} x sources of {game}: 3 charts built from objects (full / unsorted / sparse, ASCII and shift_jis-encodable metadata) + "
            f"{len(bases) - 3} fixtures read from rsc/maps ({', '.join(os.path.basename(b['path']) for b in bases if b['kind'] == 'fixture')}) x "
            f"histories: every sequence of <= 2 operations over {OPS} (43) + {n_random} seeded sequences of 3 over {singles}; "
            f"+ {len(new_bases)} further sources built from objects x (no history, {n_new_single} seeded single operations and {n_new_pair} seeded pairs over {singles}): "
            f"charts with {NEW_VARIANTS} content (each list empty on its own, no tempo point, nothing at all, one-element lists; coincident hits / holds / tempo points / SVs with "
            "different values, duplicates, time 0, zero-length holds, a hold ending at 0, negative and > 1e7 ms times, 10-significant-digit values, SV multipliers 0 / negative / > 10; int-typed columns; numpy scalars of several widths), "
            "4 and 7 keys, metadata with ':' ',' '#' '//' ';' tab and double spaces / wave dash, ideographic space, full-width and half-width forms / empty strings"
            + (f", StepMania sets of 0, 1, 2, 3, 4, 5 charts (empty charts first, in the middle, only) and every chart type of {sorted(SM_TYPE_KEYS)}" if game == "sm" else "")
            + (", O2Jam sets with an empty / note-less / tempo-less chart first, in the middle, last, only" if game == "o2jam" else "")
            + "; sources whose first 1 / 2 lanes are empty (among the further sources); arguments: omitted, explicit column shift 0/1/3/8 and, on the sources with empty first lanes, every NEGATIVE shift "
            "that stays inside the lanes (-1, -2), raise_bad_mode True/False where the converter has them (all on the no-history sources built from objects, one seeded choice elsewhere - half of them negative "
            "on the sources with empty first lanes); "
            "seeded 15% of the cases call through an instance of the converter class, 10% convert the same source twice, 8% convert another source in between and re-read the first result, "
            f"10% convert, then change the SAME source object by 1-2 of {CHANGES} (in-place edits of offsets / lengths / tempo through the list properties, columns through the stack, the title, "
            "appended items, newly assigned lists, rate()) and convert it again: the second result is held against the source as it is then, and observed twice; "
            "the fields of every result list are also compared with the fields of the same list of a chart READ from a bundled file of the target game; "
            "(14) two of the further sources (placed first) have EVERY other text / bytes attribute of the set and of each chart non-empty and named after itself, osu's title_unicode / artist_unicode different from title / artist, "
            "and every numeric column the statement does not map (sample sets, volumes, metronomes ...) filled with values of its own; (15) source_untouched also compares every column's dtype, the row-label type and the TYPE of every attribute, "
            "on every history state (fresh, rate(), stack edit, append ...); (17) contents kinds_a / kinds_b: an SV, a hold and a hit before the first tempo point, a tempo point after the last note, the first element of all four kinds on one time, an SV last"
        )
        rep.rule = "a case is (converter, arguments, way of calling, base chart, history, repetition); non-trivial when the history has at least one operation"
        rep.extra["arguments_not_varied"] = {n: _other_arguments(c[2], c[3]) for n, c in convs.items() if _other_arguments(c[2], c[3])}
        skipped = {}
        dims = rep.extra.setdefault("cases_by_dimension", {})

        def work():
            """(phase, base, history, all argument variants?) in an order that spreads a truncated run over every source."""
            for base in bases + new_bases:
                yield "1 every source, no history", base, [], base["kind"] == "memory"
            for base in new_bases:
                hs = [[op] for op in rng.sample(singles, n_new_single)] + [[rng.choice(singles), rng.choice(singles)] for _ in range(n_new_pair)]
                for ops in hs:
                    yield "2 further sources, seeded histories", base, ops, False
            for a in OPS:
                for base in bases:
                    yield "3 original sources, one operation", base, [a], False
            for a in OPS:
                for b in OPS:
                    for base in bases:
                        yield "4 original sources, two operations", base, [a, b], False
            for _ in range(n_random):
                for base in bases:
                    yield "5 original sources, three seeded operations", base, [rng.choice(singles) for _ in range(3)], False

        done = rep.extra.setdefault("source_states_done_by_phase", {})
        for phase, base, ops, all_args in work():
            if rep.out_of_time(45, 600):
                rep.extra["stopped_early"] = f"in phase {phase}"
                break
            done[phase] = done.get(phase, 0) + 1
            proto = dict(src=game, base=base, ops=ops)
            try:
                logging.disable(logging.WARNING)
                with warnings.catch_warnings():
                    warnings.simplefilter("ignore")
                    src0 = _build_source(proto)
            except Exception as ex:  # noqa  (the history operations are other properties' business)
                k = f"history failed: {type(ex).__name__}"
                skipped[k] = skipped.get(k, 0) + 1
                continue
            finally:
                logging.disable(logging.NOTSET)
            for name, (sg, tg, f, shift_name) in sorted(convs.items()):
                lift = base.get("lift", 0)
                variants = _arg_variants(name, shift_name, f, lift)
                n_neg = lift if shift_name else 0  # the negative shifts sit at variants[1 : 1 + n_neg]
                if not all_args:
                    # every argument value is exercised on the in-memory charts with no history; elsewhere one seeded choice
                    # (on a source with empty first lanes: half of the choices a negative shift)
                    variants = [variants[rng.randrange(1, 1 + n_neg)] if n_neg and rng.random() < 0.5 else variants[rng.randrange(len(variants))]]
                elif base in new_bases and len(variants) > 3:
                    variants = [variants[0]] + variants[1 : 1 + n_neg] + [variants[rng.randrange(1 + n_neg, len(variants))]]
                for args in variants:
                    case = dict(proto, converter=name, args=args)
                    x = rng.random()
                    if x < 0.15:
                        case["call"] = "instance"
                    x = rng.random()
                    if x < 0.10:
                        case["again"] = True
                    elif x < 0.18:
                        case["then"] = dict(base=rng.choice([b for b in bases[:3] + new_bases if b is not base]), ops=[rng.choice(singles)] if rng.random() < 0.5 else [])
                    elif x < 0.28:
                        case["change"] = [rng.choice(CHANGES) for _ in range(rng.choice([1, 1, 2]))]
                    # the converter must leave the source untouched (checked), so one source serves all of them; a case that
                    # changes its source after converting it builds a source of its own
                    r = _run_case(case, src=None if "change" in case else src0)
                    if isinstance(r, str):
                        skipped[r[:80]] = skipped.get(r[:80], 0) + 1
                        continue
                    rep.case(case, nontrivial=bool(ops))
                    for dname, on in (("new_source", base in new_bases), ("fixture", base["kind"] == "fixture"), ("through_instance", "call" in case), ("same_source_twice", "again" in case),
                                      ("other_source_in_between", "then" in case), ("explicit_argument", bool(args)), ("history", bool(ops)),
                                      ("source_changed_and_converted_again", "change" in case), ("first_lanes_empty", bool(base.get("lift"))),
                                      ("negative_explicit_shift", any(isinstance(v, int) and not isinstance(v, bool) and v < 0 for v in args.values()))):
                        if on:
                            dims[dname] = dims.get(dname, 0) + 1
                    for what, d in r:
                        rep.fail(what, case, d)
                        cnt = rep.extra.setdefault("failing_cases_by_clause", {})
                        cnt[what] = cnt.get(what, 0) + 1
                        byc = rep.extra.setdefault("failing_converters_by_clause", {})
                        byc.setdefault(what, [])
                        if name not in byc[what]:
                            byc[what].append(name)
        rep.extra["skipped"] = skipped
        rep.extra["unreadable_fixtures"] = unreadable

    fn.__name__ = f"c08_from_{game}"
    fn.__qualname__ = fn.__name__
    return fn


def _replay(case, what):
    r = _run_case(case)
    if isinstance(r, str):
        return (False, r)
    hit = [d for w, d in r if w == what]
    return (bool(hit), hit[0] if hit else "passes")


for _g in ("osu", "quaver", "sm", "bms", "o2jam"):
    _f = _from_game(_g)
    bounded("C08", note=f"every converter from {_g}: content, fields, metadata, chart count, source untouched, repeated calls; in-memory (incl. empty lists / charts, ties, int-typed, every chart type and optional argument) and fixture sources after histories of <= 2 (seeded 3) operations")(_f)
    replayer(_f.__name__)(_replay)
