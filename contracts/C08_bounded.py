"""C08 bounded stand-ins: converting between games preserves chart content exactly, from any source state.

The REAL converters (`<A>To<B>.convert`, `O2JToSM.convert_merge`) are run on source charts built in memory from
objects and read from the fixtures in /repo/rsc/maps, after histories of source operations (filtered, sorted in
reverse, appended to, modified through stacking, rate-changed, deep-copied; every sequence of <= 2 operations,
seeded sequences of 3).  The oracle is the property statement: the expected content is what the SOURCE holds right
before the call, read positionally through its public lists (never through row labels), and the expectations about
the result are the statement's clauses, not reamber's code.

One function per source game (they run in parallel): c08_from_osu, c08_from_quaver, c08_from_sm, c08_from_bms,
c08_from_o2jam.

Clause ids (`what`); a suffix `_after_relabel` is added to the three content clauses, to svs_carried and to
defaults_no_missing_values when some
list of the source does not carry the default row labels 0..n-1 (i.e. after a filter / reverse sort / stack / rate;
suspected defect F9: `ConvertBase.cast` copies by row label):
  no_exception                       the converter returns
  target_chart_types                 result charts are the target game's chart class and their lists the target's list classes
  one_chart_per_source_chart         as many target charts as source charts (suspected F11: convert_merge)
  hits_equal / holds_equal / bpms_equal   (offset, column [+ shift]) / (offset, column [+ shift], length) / (offset, bpm)
                                     of the target are exactly those of the source (as multisets)
  svs_carried                        osu <-> Quaver: (offset, multiplier) carried over (suspected F10: OsuToQua)
  fields_exact                       every list of the result has exactly its class's declared fields (suspected F7: `index`)
  defaults_no_missing_values         no NaN / None in the fields the statement does not map (suspected F8: keysounds)
  metadata_title / _artist / _creator / _difficulty_name   wherever both games have the field
  source_untouched                   lists (values, order, fields) and metadata of the source are the same after the call
"""
from __future__ import annotations

import copy
import glob
import inspect
import itertools
import logging
import math
import os
import warnings

from pyvc.dsl import bounded
from pyvc.bounded import replayer

MAPS = "/repo/rsc/maps"

# ----------------------------------------------------------------------------- games (vocabulary from the statement)


def _game(name):
    if name == "osu":
        from reamber.osu.OsuMap import OsuMap

        return dict(name=name, multi=False, chart=OsuMap, container=OsuMap, read=OsuMap.read_file, glob="osu/*.osu", sv=True,
                    title=lambda s, c: s.title, artist=lambda s, c: s.artist, creator=lambda s, c: s.creator, diff=lambda s, c: s.version)
    if name == "quaver":
        from reamber.quaver.QuaMap import QuaMap

        return dict(name=name, multi=False, chart=QuaMap, container=QuaMap, read=QuaMap.read_file, glob="qua/*.qua", sv=True,
                    title=lambda s, c: s.title, artist=lambda s, c: s.artist, creator=lambda s, c: s.creator, diff=lambda s, c: s.difficulty_name)
    if name == "sm":
        from reamber.sm.SMMapSet import SMMapSet
        from reamber.sm.SMMap import SMMap

        # SM has no free-text difficulty name: as a SOURCE its difficulty (Beginner..Edit) is the name; as a target: unspecified
        return dict(name=name, multi=True, chart=SMMap, container=SMMapSet, read=SMMapSet.read_file, glob="sm/*.sm", sv=False,
                    title=lambda s, c: s.title, artist=lambda s, c: s.artist, creator=lambda s, c: s.credit, diff=None,
                    diff_src=lambda s, c: str(c.difficulty))
    if name == "bms":
        from reamber.bms.BMSMap import BMSMap

        dec = lambda b: b.decode("shift_jis") if isinstance(b, (bytes, bytearray)) else b  # noqa
        return dict(name=name, multi=False, chart=BMSMap, container=BMSMap, read=BMSMap.read_file, glob="bms/*", sv=False,
                    title=lambda s, c: dec(s.title), artist=lambda s, c: dec(s.artist), creator=None, diff=lambda s, c: dec(s.version))
    if name == "o2jam":
        from reamber.o2jam.O2JMapSet import O2JMapSet
        from reamber.o2jam.O2JMap import O2JMap

        return dict(name=name, multi=True, chart=O2JMap, container=O2JMapSet, read=O2JMapSet.read_file, glob="o2jam/*.ojn", sv=False,
                    title=lambda s, c: s.title, artist=lambda s, c: s.artist, creator=lambda s, c: s.creator, diff=None,
                    diff_src=lambda s, c: str(s.level[[id(m) for m in s.maps].index(id(c))]))
    raise ValueError(name)


def _converters():
    import reamber.algorithms.convert as C

    # name -> (source game, target game, callable, name of the explicit column shift argument or None)
    t = {}
    for n in dir(C):
        if "To" in n and n[0].isupper() and hasattr(getattr(C, n), "convert"):
            a, b = n.split("To")
            g = {"Osu": "osu", "Qua": "quaver", "SM": "sm", "BMS": "bms", "O2J": "o2jam"}
            cls = getattr(C, n)
            sig = inspect.signature(cls.convert)
            shift = "move_right_by" if "move_right_by" in sig.parameters else None
            t[n] = (g[a], g[b], cls.convert, shift)
            if hasattr(cls, "convert_merge"):
                sigm = inspect.signature(cls.convert_merge)
                t[n + ".convert_merge"] = (g[a], g[b], cls.convert_merge, "move_right_by" if "move_right_by" in sigm.parameters else None)
    return t


# ----------------------------------------------------------------------------- in-memory sources ("built from objects")

META = {
    "ascii": dict(title="Title of 1 Song", artist="The Artist", creator="mapper_01", diff="Insane 4K"),
    # shift_jis-encodable, so that every target (BMS stores shift_jis bytes) can hold it
    "kana": dict(title="曲の名前", artist="アーティスト", creator="譜面", diff="難"),
}


def _content(variant, keys, k=0):
    """Plain content of one chart: the LAST rows use the highest column so that every history keeps the key count."""
    top = keys - 1
    if variant == "full":
        hits = [(100.0 + 7 * k, 0), (-50.5, 1), (200.25, 2 % keys), (200.25, top), (975.0, top), (1500.0, top)]
        holds = [(150.0, 1, 100.0), (400.5 + k, 0, 50.25), (800.0, top, 0.0), (1200.0, top, 300.0)]
        bpms = [(0.0, 120.0), (1000.0, 180.5 + k), (2000.0, 90.0)]
        svs = [(0.0, 1.5), (500.0, 0.5), (500.0, 2.0), (1500.0, 1.0)]
    elif variant == "unsorted":
        hits = [(900.0, 1), (100.0 + k, 0), (500.0, top), (300.0, 2 % keys), (700.0, top)]
        holds = [(600.0, 0, 10.0), (100.0, top, 450.0 + k), (350.0, top, 25.0)]
        bpms = [(1000.0, 200.0), (0.0, 100.0 + k), (500.0, 150.0)]
        svs = [(700.0, 0.25), (0.0, 1.0), (300.0, 3.0)]
    elif variant == "sparse":
        hits = [(0.0, 0), (10.0 + k, top), (20.0, top)]
        holds = []
        bpms = [(-10.0, 60.0)]
        svs = []
    else:
        raise ValueError(variant)
    return dict(hits=hits, holds=holds, bpms=bpms, svs=svs)


def _mk_item(item_cls, **content):
    """Item from objects: content fields given, every other REQUIRED constructor argument from the declared default."""
    sig = inspect.signature(item_cls.__init__)
    kw = dict(content)
    for n, p in sig.parameters.items():
        if n in ("self", "kwargs") or n in kw or p.default is not inspect.Parameter.empty:
            continue
        kw[n] = copy.deepcopy(item_cls._props[n][1])
    return item_cls(**kw)


def _fill_chart(chart, content, sv):
    H, L, B = type(chart.objs["hits"]), type(chart.objs["holds"]), type(chart.objs["bpms"])
    chart.hits = H([_mk_item(H._item_class(), offset=o, column=c) for o, c in content["hits"]])
    chart.holds = L([_mk_item(L._item_class(), offset=o, column=c, length=ln) for o, c, ln in content["holds"]])
    chart.bpms = B([_mk_item(B._item_class(), offset=o, bpm=b) for o, b in content["bpms"]])
    if sv:
        S = type(chart.objs["svs"])
        # from the dict form: the item form of OsuSv carries a field the list does not declare (a C16 matter)
        chart.svs = S.from_dict([dict(offset=o, multiplier=m) for o, m in content["svs"]]) if content["svs"] else S([])
    return chart


def _build_memory(game, variant, meta):
    g = _game(game)
    md = META[meta]
    enc = (lambda s: s.encode("shift_jis")) if game == "bms" else (lambda s: s)
    if not g["multi"]:
        keys = 4
        m = _fill_chart(g["chart"](), _content(variant, keys), g["sv"])
        m.title, m.artist = enc(md["title"]), enc(md["artist"])
        if game == "osu":
            m.creator, m.version, m.circle_size = md["creator"], md["diff"], keys
            m.title_unicode, m.artist_unicode = md["title"], md["artist"]
        elif game == "quaver":
            from reamber.quaver.QuaMapMeta import QuaMapMode

            m.creator, m.difficulty_name, m.mode = md["creator"], md["diff"], QuaMapMode.KEYS_4
        elif game == "bms":
            m.version = enc(md["diff"])
        return m
    s = g["container"]()
    s.title, s.artist = md["title"], md["artist"]
    if game == "sm":
        from reamber.sm.SMMapMeta import SMMapDifficulty

        s.credit, s.offset = md["creator"], 0.0
        charts = []
        for k, (v, d) in enumerate(zip([variant, "unsorted" if variant != "unsorted" else "full"], [SMMapDifficulty.HARD, SMMapDifficulty.CHALLENGE])):
            c = _fill_chart(g["chart"](), _content(v, 4, k), False)
            c.difficulty, c.difficulty_val = d, 9 + k
            charts.append(c)
        s.maps = charts
    else:
        s.creator = md["creator"]
        s.level = [3, 17, 42, 0]
        s.maps = [_fill_chart(g["chart"](), _content(v, 7, k), False) for k, v in enumerate([variant, "unsorted" if variant != "unsorted" else "full", "full" if variant == "sparse" else "sparse"])]
    return s


_FIXTURES = {}


def _load_fixture(game, path):
    key = (game, path)
    if key not in _FIXTURES:
        g = _game(game)
        with warnings.catch_warnings():
            warnings.simplefilter("ignore")
            _FIXTURES[key] = g["read"](path)
    return _FIXTURES[key].deepcopy()


def _charts(game, src):
    return list(src.maps) if _game(game)["multi"] else [src]


# ----------------------------------------------------------------------------- histories

OPS = ["filter", "sort_reverse", "append", "stack", "rate", "deepcopy"]


def _apply_op(game, src, op):
    import numpy as np

    g = _game(game)
    if op == "deepcopy":
        return src.deepcopy()
    if op == "rate":
        return src.rate(1.25)
    if op == "stack":
        # through stacking: every list of every chart gets its offsets moved by 1 ms
        for c in _charts(game, src):
            c.stack().offset += 1
        return src
    for c in _charts(game, src):
        for k in list(c.objs):
            L = c.objs[k]
            n = len(L)
            if op == "sort_reverse":
                if n:
                    setattr(c, k, L.sorted(reverse=True))
            elif op == "append":
                if n and k in ("hits", "holds", "bpms", "svs"):
                    it = L[n - 1]
                    it.offset = float(max(L.offset)) + 10.0
                    setattr(c, k, L.append(it))
            elif op == "filter":
                if n < 2:
                    continue
                if k == "hits":
                    # drop the earliest hit(s): .after() is exclusive
                    t = float(min(L.offset))
                    new = L.after(t)
                    if len(new):
                        setattr(c, k, new)
                else:
                    # a boolean mask: tempo points lose a middle (or the second of two) row, the other lists their first
                    drop = (n // 2 if n > 2 else 1) if k == "bpms" else 0
                    mask = np.arange(n) != drop
                    setattr(c, k, L[mask])
    return src


def _histories(rng, n_random):
    yield []
    for a in OPS:
        yield [a]
    for a in OPS:
        for b in OPS:
            yield [a, b]
    for _ in range(n_random):
        yield [rng.choice(OPS) for _ in range(3)]


# ----------------------------------------------------------------------------- observation helpers


def _isnan(x):
    return x is None or (isinstance(x, float) and math.isnan(x))


def _col(L, name):
    return L.df[name].to_numpy().tolist() if name in L.df.columns else None


def _tuples(L, names):
    cols = [_col(L, n) for n in names]
    if any(c is None for c in cols):
        return None
    return list(zip(*cols)) if cols and len(L) else []


def _default_labels(L):
    return list(L.df.index) == list(range(len(L.df)))


def _snapshot(game, src):
    """Everything the statement calls 'the source': per chart, per list, the frame; plus the metadata."""
    lists = [{k: (type(L), L.df.copy(deep=True)) for k, L in c.objs.items()} for c in _charts(game, src)]
    meta = {}
    for holder in [src] + (list(src.maps) if _game(game)["multi"] else []):
        meta[id(holder)] = {k: copy.deepcopy(v) for k, v in vars(holder).items() if k not in ("objs", "maps")}
    return lists, meta


def _snapshot_diff(game, src, snap):
    lists, meta = snap
    charts = _charts(game, src)
    if len(charts) != len(lists):
        return f"the source has {len(charts)} charts, had {len(lists)}"
    for i, (c, ls) in enumerate(zip(charts, lists)):
        if list(c.objs) != list(ls):
            return f"chart {i}: lists {list(c.objs)}, were {list(ls)}"
        for k, (tp, df) in ls.items():
            L = c.objs[k]
            if type(L) is not tp:
                return f"chart {i}.{k}: class {type(L).__name__}, was {tp.__name__}"
            if list(L.df.columns) != list(df.columns) or len(L.df) != len(df) or not L.df.reset_index(drop=True).equals(df.reset_index(drop=True)):
                return f"chart {i}.{k}: content changed"
            if list(L.df.index) != list(df.index):
                return f"chart {i}.{k}: row labels changed"
    for holder in [src] + (list(src.maps) if _game(game)["multi"] else []):
        now = {k: v for k, v in vars(holder).items() if k not in ("objs", "maps")}
        was = meta.get(id(holder))
        if was is None or set(now) != set(was):
            return "metadata fields changed"
        for k in now:
            try:
                same = now[k] == was[k]
                same = bool(same) if not hasattr(same, "all") else bool(same.all())
            except Exception:
                same = True
            if not same:
                return f"metadata {k}: {now[k]!r}, was {was[k]!r}"
    return None


def _flatten_result(tgt_game, res):
    """-> list of (holder of set-level metadata, chart) or None when the shape is not charts of the target game."""
    g = _game(tgt_game)
    out = []

    def one(x):
        if g["multi"] and isinstance(x, g["container"]):
            for c in x.maps:
                out.append((x, c))
            return True
        if not g["multi"] and isinstance(x, g["chart"]):
            out.append((x, x))
            return True
        return False

    if isinstance(res, (list, tuple)):
        for x in res:
            if not one(x):
                return None
        return out
    return out if one(res) else None


def _multiset_diff(got, want):
    """None when equal as multisets; else a short description."""
    nan_rows = [r for r in got if any(_isnan(v) for v in r)]
    if nan_rows:
        return f"{len(nan_rows)} of {len(got)} target rows have missing values, e.g. {nan_rows[0]}; source rows e.g. {want[:2]}"
    try:
        g = sorted((tuple(float(v) for v in r) for r in got))
        w = sorted((tuple(float(v) for v in r) for r in want))
    except Exception as ex:  # noqa
        return f"values not numeric: {type(ex).__name__}: {ex}"
    if len(g) != len(w):
        return f"{len(g)} target rows, {len(w)} source rows"
    if g != w:
        bad = [(a, b) for a, b in zip(g, w) if a != b][:2]
        return f"{sum(1 for a, b in zip(g, w) if a != b)} of {len(w)} rows differ, e.g. target {bad[0][0]} vs source {bad[0][1]}"
    return None


# ----------------------------------------------------------------------------- one case


def _build_source(case):
    game = case["src"]
    b = case["base"]
    if b["kind"] == "memory":
        src = _build_memory(game, b["variant"], b["meta"])
    else:
        src = _load_fixture(game, b["path"])
    for op in case["ops"]:
        src = _apply_op(game, src, op)
    return src


def _run_case(case, src=None):
    """case: dict(src=game, base={kind, variant, meta | path}, ops=[...], converter=name, args={...}) -> [(what, detail)]
    or the string 'skip:<reason>' when the target game cannot hold the source's key count."""
    prev = logging.root.manager.disable
    logging.disable(logging.WARNING)
    try:
        with warnings.catch_warnings():
            warnings.simplefilter("ignore")
            return _run_case_inner(case, src)
    finally:
        logging.disable(prev)


def _run_case_inner(case, src):
    conv = _converters()[case["converter"]]
    sgame, tgame, fn, shift_name = conv
    gs, gt = _game(sgame), _game(tgame)
    if src is None:
        src = _build_source(case)
    failed = []
    args = dict(case.get("args") or {})
    shift = 0
    if shift_name:
        shift = args[shift_name] if shift_name in args else inspect.signature(fn).parameters[shift_name].default
    charts = _charts(sgame, src)
    relabelled = any(not _default_labels(L) for c in charts for L in c.objs.values())
    sfx = "_after_relabel" if relabelled else ""
    # what the source holds, read positionally
    want = []
    for c in charts:
        w = dict(hits=_tuples(c.hits, ["offset", "column"]), holds=_tuples(c.holds, ["offset", "column", "length"]), bpms=_tuples(c.bpms, ["offset", "bpm"]))
        if gs["sv"]:
            w["svs"] = _tuples(c.svs, ["offset", "multiplier"])
        want.append(w)
    want_meta = []
    for c in charts:
        wm = {}
        for f in ("title", "artist", "creator"):
            wm[f] = gs[f](src, c) if gs[f] else None
        wm["diff"] = gs["diff"](src, c) if gs["diff"] else None
        wm["diff_contains"] = gs["diff_src"](src, c) if gs.get("diff_src") else None
        want_meta.append(wm)
    snap = _snapshot(sgame, src)

    try:
        res = fn(src, **args)
    except Exception as ex:  # noqa
        msg = f"{type(ex).__name__}: {ex}"
        if isinstance(ex, ValueError) and "supported" in str(ex) and case["base"]["kind"] == "fixture":
            return "skip:" + msg
        d = _snapshot_diff(sgame, src, snap)
        if d:
            failed.append(("source_untouched", d))
        return [("no_exception", f"{case['converter']} raised {msg}")] + failed

    d = _snapshot_diff(sgame, src, snap)
    if d:
        failed.append(("source_untouched", d))

    flat = _flatten_result(tgame, res)
    if flat is None:
        failed.append(("target_chart_types", f"result {type(res).__name__} is not made of {gt['container'].__name__}"))
        return failed
    if len(flat) != len(charts):
        failed.append(("one_chart_per_source_chart", f"{len(flat)} target charts for {len(charts)} source charts"))
    proto = gt["chart"]()
    for i, (holder, tc) in enumerate(flat):
        # --- chart and list classes of the target game
        bad = [f"{k}: {type(L).__name__}" for k, L in tc.objs.items() if k in proto.objs and type(L) is not type(proto.objs[k])]
        if set(tc.objs) != set(proto.objs):
            bad.append(f"lists {sorted(tc.objs)} vs declared {sorted(proto.objs)}")
        if bad:
            failed.append(("target_chart_types", f"chart {i}: {bad}"))
        # --- declared fields only, no missing values in the fields the statement does not map
        for k, L in tc.objs.items():
            decl = list(type(L).props().names)
            cols = [str(c) for c in L.df.columns]
            if sorted(cols) != sorted(decl):
                failed.append(("fields_exact", f"chart {i}.{k} ({type(L).__name__}): fields {cols}, declared {decl}, extra {[c for c in cols if c not in decl]}, missing {[c for c in decl if c not in cols]}"))
            mapped = {"hits": ("offset", "column"), "holds": ("offset", "column", "length"), "bpms": ("offset", "bpm"), "svs": ("offset", "multiplier")}.get(k, ())
            for cname in decl:
                if cname in mapped or cname not in L.df.columns:
                    continue
                vals = L.df[cname].tolist()
                nn = sum(1 for v in vals if _isnan(v))
                if nn:
                    failed.append(("defaults_no_missing_values" + sfx, f"chart {i}.{k}.{cname}: {nn} of {len(vals)} values missing (declared default {type(L).props().defaults[decl.index(cname)]!r})"))
        if len(flat) != len(charts):
            continue
        w = want[i]
        # --- content
        for k, names, what in (("hits", ["offset", "column"], "hits_equal"), ("holds", ["offset", "column", "length"], "holds_equal"), ("bpms", ["offset", "bpm"], "bpms_equal")):
            got = _tuples(tc.objs[k], names) if k in tc.objs else None
            if got is None:
                failed.append((what + sfx, f"chart {i}.{k}: the target has no {names}"))
                continue
            exp = w[k]
            if "column" in names and shift:
                exp = [(r[0], r[1] + shift) + tuple(r[2:]) for r in exp]
            dd = _multiset_diff(got, exp)
            if dd:
                failed.append((what + sfx, f"chart {i}.{k}{' (columns + ' + str(shift) + ')' if shift and 'column' in names else ''}: {dd}"))
        if gs["sv"] and gt["sv"]:
            got = _tuples(tc.objs["svs"], ["offset", "multiplier"]) if "svs" in tc.objs else None
            dd = "the target has no svs" if got is None else _multiset_diff(got, w["svs"])
            if dd:
                failed.append(("svs_carried" + sfx, f"chart {i}.svs: {dd}"))
        # --- metadata wherever both games have the field
        wm = want_meta[i]
        for f in ("title", "artist", "creator"):
            if wm[f] is None or gt[f] is None:
                continue
            if isinstance(wm[f], str) and sgame == "bms" and not wm[f].isascii():
                continue  # BMS stores shift_jis bytes; what a non-ASCII title becomes elsewhere is not stated
            try:
                got = gt[f](holder, tc)
            except Exception as ex:  # noqa
                got = f"<{type(ex).__name__}: {ex}>"
            if got != wm[f]:
                failed.append(("metadata_" + f, f"chart {i}: target {f} {got!r}, source {wm[f]!r}"))
        if gt["diff"] is not None:
            try:
                got = gt["diff"](holder, tc)
            except Exception as ex:  # noqa
                got = f"<{type(ex).__name__}: {ex}>"
            if wm["diff"] is not None:
                if not (isinstance(wm["diff"], str) and sgame == "bms" and not wm["diff"].isascii()) and got != wm["diff"]:
                    failed.append(("metadata_difficulty_name", f"chart {i}: target difficulty name {got!r}, source {wm['diff']!r}"))
            elif wm["diff_contains"] is not None:
                if not isinstance(got, str) or wm["diff_contains"] not in got:
                    failed.append(("metadata_difficulty_name", f"chart {i}: target difficulty name {got!r} does not carry the source's {wm['diff_contains']!r}"))
    seen, uniq = set(), []
    for wht, dt in failed:
        if wht not in seen:
            seen.add(wht)
            uniq.append((wht, dt))
    return uniq


# ----------------------------------------------------------------------------- drivers

QUICK_FIXTURES = {
    "osu": ["osu/AddictionCut.osu", "osu/TribalTrialEXH.osu", "osu/Gravity.osu"],
    "quaver": ["qua/NeuroCloud.qua"],
    "sm": ["sm/Escapes.sm", "sm/Gravity.sm"],
    "bms": ["bms/coldBreath.bme", "bms/searoad.bml"],
    "o2jam": ["o2jam/o2ma178.ojn"],
}


def _arg_variants(conv_name, shift_name, fn):
    if not shift_name:
        return [{}]
    return [{}, {shift_name: 0}, {shift_name: 1}, {shift_name: 3}]


def _from_game(game):
    def fn(rep):
        rng = rep.rng
        convs = {n: c for n, c in _converters().items() if c[0] == game}
        paths = sorted(glob.glob(os.path.join(MAPS, _game(game)["glob"])))
        if rep.tier == "quick":
            paths = [p for p in paths if os.path.relpath(p, MAPS) in QUICK_FIXTURES[game]]
        bases = [dict(kind="memory", variant=v, meta=m) for v, m in (("full", "ascii"), ("unsorted", "kana" if game != "bms" else "ascii"), ("sparse", "ascii"))]
        unreadable = []
        for p in paths:
            try:
                with warnings.catch_warnings():
                    warnings.simplefilter("ignore")
                    prev = logging.root.manager.disable
                    logging.disable(logging.WARNING)
                    try:
                        _load_fixture(game, p)
                    finally:
                        logging.disable(prev)
                bases.append(dict(kind="fixture", path=p))
            except Exception as ex:  # noqa  (reading is another property's business)
                unreadable.append(f"{os.path.basename(p)}: {type(ex).__name__}")
        n_random = rep.n(8, 60)
        rep.bound = (
            f"converters {sorted(convs)} x sources of {game}: 3 charts built from objects (full / unsorted / sparse, ASCII and shift_jis-encodable metadata) + "
            f"{len(bases) - 3} fixtures read from rsc/maps ({', '.join(os.path.basename(b['path']) for b in bases if b['kind'] == 'fixture')}) x "
            f"histories: every sequence of <= 2 operations over {OPS} (43) + {n_random} seeded sequences of 3; explicit column shift 0/1/3 and the default where the converter has one"
        )
        rep.rule = "a case is (converter, arguments, base chart, history); non-trivial when the history has at least one operation"
        skipped = {}
        stop = False
        for base in bases:
            for ops in _histories(rng, n_random):
                if rep.out_of_time(45, 600):
                    rep.extra["stopped_early"] = True
                    stop = True
                    break
                proto = dict(src=game, base=base, ops=ops)
                try:
                    logging.disable(logging.WARNING)
                    with warnings.catch_warnings():
                        warnings.simplefilter("ignore")
                        src0 = _build_source(proto)
                except Exception as ex:  # noqa  (the history operations are other properties' business)
                    k = f"history failed: {type(ex).__name__}"
                    skipped[k] = skipped.get(k, 0) + 1
                    continue
                finally:
                    logging.disable(logging.NOTSET)
                for name, (sg, tg, f, shift_name) in sorted(convs.items()):
                    variants = _arg_variants(name, shift_name, f)
                    if base["kind"] == "fixture" or ops:
                        # the shift variants are exercised on the in-memory charts with no history; elsewhere one seeded choice
                        variants = [variants[rng.randrange(len(variants))]]
                    for args in variants:
                        case = dict(proto, converter=name, args=args)
                        # the converter must leave the source untouched (checked), so one source serves all of them
                        r = _run_case(case, src=src0)
                        if isinstance(r, str):
                            skipped[r[:80]] = skipped.get(r[:80], 0) + 1
                            continue
                        rep.case(case, nontrivial=bool(ops))
                        for what, d in r:
                            rep.fail(what, case, d)
                            cnt = rep.extra.setdefault("failing_cases_by_clause", {})
                            cnt[what] = cnt.get(what, 0) + 1
                            byc = rep.extra.setdefault("failing_converters_by_clause", {})
                            byc.setdefault(what, [])
                            if name not in byc[what]:
                                byc[what].append(name)
            if stop:
                break
        rep.extra["skipped"] = skipped
        rep.extra["unreadable_fixtures"] = unreadable

    fn.__name__ = f"c08_from_{game}"
    fn.__qualname__ = fn.__name__
    return fn


def _replay(case, what):
    r = _run_case(case)
    if isinstance(r, str):
        return (False, r)
    hit = [d for w, d in r if w == what]
    return (bool(hit), hit[0] if hit else "passes")


for _g in ("osu", "quaver", "sm", "bms", "o2jam"):
    _f = _from_game(_g)
    bounded("C08", note=f"every converter from {_g}: content, fields, metadata, chart count, source untouched; in-memory and fixture sources after histories of <= 2 (seeded 3) operations")(_f)
    replayer(_f.__name__)(_replay)
