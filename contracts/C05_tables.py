"""C04 / C05 - finite tables of the BMS reader / writer, enumerated COMPLETELY on every run (exhaustive: a finite
domain, so this is a decision, not a sample): the five channel layouts are bijections between note channels and
columns 0..n-1, and the writer's tempo ids base36(e).zfill(2) are pairwise distinct two-character ids on 1..1295
that the reader's table lookup maps back."""
from pyvc.dsl import bounded
from pyvc.bounded import replayer


def _layouts():
    from reamber.bms.BMSChannel import BMSChannel

    return {n: getattr(BMSChannel, n) for n in ("BMS", "BME", "PMS", "PMS_BME", "PMS_5B")}


# The library's public description of the five layouts (Writerside/topics/reamber/bms/Channel.md, "Column | 0 | 1 ..."),
# copied here as fixed data so that the tables in BMSChannel.py are compared with something that is not themselves.
# (The PMS_5B row of that page lists four channels; the fifth entry of the shipped table is not asserted.)
DOCUMENTED_LAYOUTS = {
    "BMS": "11 12 13 14 15 16 17 21 22 23 24 25 26 27",
    "BME": "16 11 12 13 14 15 18 19 21 22 23 24 25 28 29 26",
    "PMS": "11 12 13 14 15 22 23 24 25",
    "PMS_BME": "11 12 13 14 15 18 19 16 17 21 22 23 24 25 28 29 26 27",
    "PMS_5B": "13 14 15 22",
}


def _layout_fails(name):
    lay = _layouts()[name]
    out = []
    for col, ch in enumerate(DOCUMENTED_LAYOUTS[name].split()):
        if lay.get(ch.encode()) != col:
            out.append(("layout_matches_the_documented_table", f"{name}: channel {ch} is documented as column {col}, the table says {lay.get(ch.encode())!r}"))
    notes = {k: v for k, v in lay.items() if isinstance(v, int)}
    cols = sorted(notes.values())
    if cols != list(range(len(cols))):
        out.append(("layout_columns_are_0_to_n_minus_1", f"{name}: columns {cols}"))
    if len(set(notes.values())) != len(notes):
        out.append(("layout_is_injective", f"{name}: two channels share a column"))
    for k in notes:
        if not (isinstance(k, bytes) and len(k) == 2 and k.isalnum()):
            out.append(("layout_channel_ids_are_two_characters", f"{name}: {k!r}"))
    specials = {v: k for k, v in lay.items() if isinstance(v, str)}
    for need in ("TIME_SIG", "BPM_CHANGE", "EXBPM_CHANGE"):
        if need not in specials:
            out.append(("layout_has_tempo_channels", f"{name}: {need} missing"))
    if specials.get("BPM_CHANGE") != b"03" or specials.get("EXBPM_CHANGE") != b"08" or specials.get("TIME_SIG") != b"02":
        out.append(("layout_tempo_channels_are_03_08_02", f"{name}: {specials}"))
    return out


@bounded("C05", note="BMS channel layouts: bijection channel <-> column 0..n-1, tempo channels 03/08 (complete enumeration of the 5 shipped tables)")
def bms_layout_tables(rep):
    rep.bound = "the 5 shipped layouts, every entry"
    rep.rule = "one case per layout; all non-trivial"
    rep.exhaustive = True
    for name in _layouts():
        rep.case(dict(layout=name))
        for what, d in _layout_fails(name):
            rep.fail(what, dict(layout=name), d)


@replayer("bms_layout_tables")
def _r1(case, what):
    hit = [d for w, d in _layout_fails(case["layout"]) if w == what]
    return (bool(hit), hit[0] if hit else "passes")


@bounded("C04", note="BMS channel layouts seen from the reader: same complete enumeration")
def bms_layout_tables_read(rep):
    rep.bound = "the 5 shipped layouts, every entry"
    rep.rule = "one case per layout; all non-trivial"
    rep.exhaustive = True
    for name in _layouts():
        rep.case(dict(layout=name))
        for what, d in _layout_fails(name):
            rep.fail(what, dict(layout=name), d)


@replayer("bms_layout_tables_read")
def _r1b(case, what):
    return _r1(case, what)


def _id_fails(lo, hi):
    from numpy import base_repr

    out = []
    seen = {}
    for e in range(lo, hi):
        s = base_repr(e, 36).zfill(2)
        if len(s) != 2 or not s.isalnum() or s == "00":
            out.append(("tempo_id_is_two_base36_characters", f"{e} -> {s!r}"))
        if s in seen:
            out.append(("tempo_ids_pairwise_distinct", f"{e} and {seen[s]} -> {s!r}"))
        seen[s] = e
        if int(s, 36) != e:
            out.append(("tempo_id_denotes_its_index", f"{e} -> {s!r} -> {int(s, 36)}"))
    return out


@bounded("C05", note="tempo ids base36(e).zfill(2) for e = 1..1295: two characters, pairwise distinct, denote e (complete enumeration)")
def bms_tempo_ids(rep):
    rep.bound = "e = 1..1295, all"
    rep.rule = "one case per id; all non-trivial"
    rep.exhaustive = True
    for e in range(1, 1296):
        rep.case(dict(e=e))
    for what, d in _id_fails(1, 1296):
        rep.fail(what, dict(range=[1, 1296]), d)


@replayer("bms_tempo_ids")
def _r2(case, what):
    hit = [d for w, d in _id_fails(1, 1296) if w == what]
    return (bool(hit), hit[0] if hit else "passes")


# ----------------------------------------------------------------------------- find_lcm (denominator grouping)

from pyvc.dsl import contract, Int, Choice, ListT  # noqa: E402
from pyvc.npmodel import divides  # noqa: E402
from pyvc.ghost import implies  # noqa: E402


@contract("C05", "reamber.algorithms.timing.utils.find_lcm:find_lcm", args=dict(a=Choice([ListT(Int(1), n) for n in (1, 2, 3)]), threshold=Int()))
class find_lcm_gives_common_multiples_below_threshold:
    """Every returned denominator is a positive multiple of the line's own denominator (so num * new_den / den is an
    exact integer slot: objects on the grid are written exactly), and it is either the original one or below the
    threshold.  np.lcm is used through its contract (a common multiple, >= both); 1..3 denominators, all symbolic."""

    assumes = ["shape-bounded: 1..3 denominators (all values symbolic); np.lcm by contract (A2)"]
    max_paths = 4000

    def ensures_multiples_of_the_original_denominators(a, threshold, result, old):
        return len(result) == len(old.a) and all(divides(old.a[i], result[i]) for i in range(len(old.a)))

    def ensures_original_or_below_threshold(a, threshold, result, old):
        return all(result[i] >= 1 and (result[i] == old.a[i] or result[i] < threshold) for i in range(len(old.a)))

    def native_call(a, threshold):
        from reamber.algorithms.timing.utils.find_lcm import find_lcm

        return [int(x) for x in find_lcm(list(a), threshold)]

    def witnesses(rng):
        for _ in range(200):
            yield dict(a=[rng.choice([1, 2, 3, 4, 6, 8, 12, 16, 5, 7, 48, 96]) for _ in range(rng.randrange(1, 5))], threshold=rng.choice([100, 10, 50, 2]))
