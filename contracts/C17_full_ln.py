"""C17 - full-LN generation (deductive kernel; grouping pipeline and whole charts: contracts/C17_bounded.py).

The per-row decision of full_ln (the body of the inner loop over the rows of one column, each row carrying the
distance `diff` to the next note of its column, NaN for the last) verified as a loop-body unit from an arbitrary
state: EXACTLY ONE output note per row on every path, at the row's time and column; last of its column keeps kind
and length; otherwise a hold ending exactly `gap` before the next note when that leaves at least the threshold,
a hit otherwise; a generated hold never reaches the next note.
"""
from pyvc.dsl import contract, lemma, bounded, loop_unit, Int, Real, Bool, Obj, Const, Choice, ListT
from pyvc.ghost import eqr, implies
from pyvc.frames import NAN

FULL_LN = "reamber.algorithms.generate.full_ln:full_ln"


from pyvc.ghost import is_nan as _isnan  # noqa: E402


@loop_unit("C17", FULL_LN, anchor="for offset, column, length, diff in dfg.itertuples(index=False)",
           args=dict(offset=Real(), column=Int(), length=Choice([Real(lo=0), Const(NAN)]), diff=Choice([Real(lo=0), Const(NAN)]),
                     gap=Real(lo=0), ln_as_hit_thres=Real(lo=0), holds=ListT(Real(), 0), hits=ListT(Real(), 0)))
class row_decision:
    def ensures_exactly_one_note_at_the_rows_time_and_column(offset, column, length, diff, gap, ln_as_hit_thres, holds, hits, result):
        out = result.hits + result.holds
        return len(out) == 1 and out[0]["offset"] == offset and out[0]["column"] == column and result.outcome in ("normal", "continue")

    def ensures_last_of_column_keeps_kind_and_length(offset, column, length, diff, gap, ln_as_hit_thres, holds, hits, result):
        return (not _isnan(diff)) or (len(result.hits) == 1 and _isnan(length)) or (len(result.holds) == 1 and not _isnan(length) and result.holds[0]["length"] == length)

    def ensures_gap_rule(offset, column, length, diff, gap, ln_as_hit_thres, holds, hits, result):
        return (_isnan(diff)
                or (len(result.holds) == 1 and diff - gap >= ln_as_hit_thres and eqr(result.holds[0]["length"], diff - gap))
                or (len(result.hits) == 1 and diff - gap < ln_as_hit_thres))

    def ensures_hold_stops_before_next_note(offset, column, length, diff, gap, ln_as_hit_thres, holds, hits, result):
        return len(result.holds) != 1 or _isnan(diff) or result.holds[0]["length"] <= diff

    def witnesses(rng):
        nan = float("nan")
        for _ in range(200):
            yield dict(offset=float(rng.choice([0, 100, 250.5])), column=rng.randrange(4), length=rng.choice([nan, 0.0, 50.0, 300.0]),
                       diff=rng.choice([nan, 0.0, 50.0, 100.0, 150.0, 400.0]), gap=float(rng.choice([0, 50, 100, 150])),
                       ln_as_hit_thres=float(rng.choice([0, 50, 100, 150])), holds=[], hits=[])
