"""C01 - osu!mania file <-> chart.

Oracle (A5, .osu v14 mode 3, written from the public format description, not from reamber's code):
  hit    x,y,time,type,hitSound,normalSet:additionSet:index:volume:file
  hold   x,y,time,type,hitSound,endTime:normalSet:additionSet:index:volume:file
  timing time,beatLength,meter,sampleSet,sampleIndex,volume,uninherited,effects
  column = clamp(floor(x * K / 512), 0, K - 1);  bpm = 60000 / beatLength;  sv = -100 / beatLength
  Key:Value -> value is everything after the FIRST ':' with surrounding blanks removed.
"""
from pyvc.dsl import contract, lemma, bounded, Int, Real, Bool, Obj, Const, Choice, ListT, Text, DictT
from pyvc.ghost import eqr, implies, clamp, g_exact

NOTE = "reamber.osu.OsuNoteMeta:OsuNoteMeta"
TPM = "reamber.osu.OsuTimingPointMeta:OsuTimingPointMeta"


def fmt_column(x, keys):
    """The format's column of an x coordinate (integer arithmetic, exact)."""
    return clamp((x * keys) // 512, 0, keys - 1)


# ----------------------------------------------------------------------------- column <-> x


@contract("C01", NOTE + ".x_axis_to_column", args=dict(x_axis=Int(), keys=Choice(list(range(1, 19)))))
class x_axis_to_column:
    """For every key count 1..18 and every integer x: the format's column."""

    def requires(x_axis, keys):
        return 1 <= keys and keys <= 18

    def ensures_is_format_column(x_axis, keys, result):
        return result == fmt_column(x_axis, keys)

    exhaustive = True  # complete for x in -1..512 x keys 1..18: settles the float behaviour there (A1)

    def witnesses():
        for k in range(1, 19):
            for x in range(-1, 514):
                yield dict(x_axis=x, keys=k)
        for k in range(1, 19):
            for x in (-1000, -2, 600, 10**6):
                yield dict(x_axis=x, keys=k)


@contract("C01", NOTE + ".column_to_x_axis", args=dict(column=Int(), keys=Int()))
class column_to_x_axis:
    def requires(column, keys):
        return 1 <= keys and keys <= 18 and 0 <= column and column < keys

    def ensures_is_column_centre(column, keys, result):
        return result == (512 * column + 256) // keys

    def ensures_inside_own_column(column, keys, result):
        return fmt_column(result, keys) == column and 0 <= result and result < 512

    exhaustive = True

    def witnesses():
        for k in range(1, 19):
            for c in range(k):
                yield dict(column=c, keys=k)


@lemma("C01", args=dict(column=Int(), keys=Int()))
class column_round_trip:
    """x_axis_to_column(column_to_x_axis(c, k), k) == c on the REAL code (composition executed from source)."""

    def requires(column, keys):
        return 1 <= keys and keys <= 18 and 0 <= column and column < keys

    def body(column, keys):
        from reamber.osu.OsuNoteMeta import OsuNoteMeta

        return OsuNoteMeta.x_axis_to_column(OsuNoteMeta.column_to_x_axis(column, keys), keys)

    def ensures_identity(column, keys, result):
        return result == column

    exhaustive = True

    def witnesses():
        for k in range(1, 19):
            for c in range(k):
                yield dict(column=c, keys=k)


# ----------------------------------------------------------------------------- value <-> code


def _vc(pid_cls, const):
    pass


@contract("C01", "reamber.osu.OsuBpm:OsuBpm.code_to_value", args=dict(code=Real()))
class bpm_code_to_value:
    def requires(code):
        return True

    raises = {ZeroDivisionError: lambda code: code == 0}

    def ensures_format(code, result):
        return code != 0 and eqr(result * code, 60000)

    def witnesses(rng):
        for c in [500.0, -3.5, 1e-3, 333.3333333333, 1e9, 0.0]:
            yield dict(code=c)


@contract("C01", "reamber.osu.OsuBpm:OsuBpm.value_to_code", args=dict(value=Real()))
class bpm_value_to_code:
    def requires(value):
        return True

    raises = {ZeroDivisionError: lambda value: value == 0}

    def ensures_format(value, result):
        return value != 0 and eqr(result * value, 60000)

    def witnesses(rng):
        for c in [120.0, 177.5, -3.5, 1e-3, 1e9, 0.0]:
            yield dict(value=c)


@lemma("C01", args=dict(x=Real()))
class bpm_code_value_inverse:
    def requires(x):
        return x != 0

    def body(x):
        from reamber.osu.OsuBpm import OsuBpm

        return (OsuBpm.value_to_code(OsuBpm.code_to_value(x)), OsuBpm.code_to_value(OsuBpm.value_to_code(x)))

    def ensures_both_directions(x, result):
        return eqr(result[0], x) and eqr(result[1], x)

    def witnesses(rng):
        for _ in range(300):
            yield dict(x=rng.choice([1, -1]) * rng.uniform(1e-3, 1e5))


@contract("C01", "reamber.osu.OsuSv:OsuSv.code_to_value", args=dict(code=Real()))
class sv_code_to_value:
    def requires(code):
        return True

    raises = {ZeroDivisionError: lambda code: code == 0}

    def ensures_format(code, result):
        return code != 0 and eqr(result * code, -100)

    def witnesses(rng):
        for c in [-100.0, -50.0, -3.5, 1e-3, 0.0]:
            yield dict(code=c)


@contract("C01", "reamber.osu.OsuSv:OsuSv.value_to_code", args=dict(value=Real()))
class sv_value_to_code:
    def requires(value):
        return True

    raises = {ZeroDivisionError: lambda value: value == 0}

    def ensures_format(value, result):
        return value != 0 and eqr(result * value, -100)

    def witnesses(rng):
        for c in [1.0, 0.5, 2.0, -3.5, 0.0]:
            yield dict(value=c)


@lemma("C01", args=dict(x=Real()))
class sv_code_value_inverse:
    def requires(x):
        return x != 0

    def body(x):
        from reamber.osu.OsuSv import OsuSv

        return (OsuSv.value_to_code(OsuSv.code_to_value(x)), OsuSv.code_to_value(OsuSv.value_to_code(x)))

    def ensures_both_directions(x, result):
        return eqr(result[0], x) and eqr(result[1], x)

    def witnesses(rng):
        for _ in range(300):
            yield dict(x=rng.choice([1, -1]) * rng.uniform(1e-3, 1e3))


# ----------------------------------------------------------------------------- item lines: read direction

FILE = Text(forbid=",:\n\r")  # dialect boundary (DESIGN appendix B): file name without , : newline


def a5_hit_line(x, y, t, typ, hs, ns, ads, ci, vol, file):
    return f"{x},{y},{t},{typ},{hs},{ns}:{ads}:{ci}:{vol}:{file}"


def a5_hold_line(x, y, t, typ, hs, end, ns, ads, ci, vol, file):
    return f"{x},{y},{t},{typ},{hs},{end}:{ns}:{ads}:{ci}:{vol}:{file}"


def a5_timing_line(t, beat_length, meter, ss, si, vol, uninherited, effects):
    return f"{t},{beat_length},{meter},{ss},{si},{vol},{uninherited},{effects}"


_HIT_ARGS = dict(x=Int(), y=Int(), t=Real(), typ=Int(), hs=Int(), ns=Int(), ads=Int(), ci=Int(), vol=Int(), file=FILE, keys=Int())


@lemma("C01", args=_HIT_ARGS)
class read_hit_line:
    """OsuHit.read_string(print_A5(fields), K) == den_A5(fields, K) for ALL field values."""

    def requires(x, y, t, typ, hs, ns, ads, ci, vol, file, keys):
        return 1 <= keys and keys <= 18

    def body(x, y, t, typ, hs, ns, ads, ci, vol, file, keys):
        from reamber.osu.OsuHit import OsuHit

        return OsuHit.read_string(a5_hit_line(x, y, t, typ, hs, ns, ads, ci, vol, file), keys, as_dict=True)

    def ensures_denotation(x, y, t, typ, hs, ns, ads, ci, vol, file, keys, result):
        return (
            eqr(result["offset"], t)
            and result["column"] == fmt_column(x, keys)
            and result["hitsound_set"] == hs
            and result["sample_set"] == ns
            and result["addition_set"] == ads
            and result["custom_set"] == ci
            and result["volume"] == vol
            and result["hitsound_file"] == file
        )

    def ensures_exactly_the_declared_fields(x, y, t, typ, hs, ns, ads, ci, vol, file, keys, result):
        return sorted(result.keys()) == sorted(["offset", "column", "hitsound_set", "sample_set", "addition_set", "custom_set", "volume", "hitsound_file"])

    def witnesses(rng):
        for _ in range(300):
            k = rng.randrange(1, 19)
            yield dict(x=rng.randrange(0, 512), y=192, t=rng.choice([float(rng.randrange(-5000, 10**7)), rng.choice([rng.uniform(-1e3, 1e6), rng.uniform(1e6, 2e9), float(rng.randrange(10**6, 10**9)), -rng.uniform(0, 1e7)])]), typ=rng.choice([1, 5]), hs=rng.randrange(16),
                       ns=rng.randrange(4), ads=rng.randrange(4), ci=rng.randrange(100), vol=rng.randrange(101), file=rng.choice(["", "a.wav", "é ü.ogg", " lead.wav"]), keys=k)


_HOLD_ARGS = dict(_HIT_ARGS, end=Real())


@lemma("C01", args=_HOLD_ARGS)
class read_hold_line:
    def requires(x, y, t, typ, hs, end, ns, ads, ci, vol, file, keys):
        return 1 <= keys and keys <= 18

    def body(x, y, t, typ, hs, end, ns, ads, ci, vol, file, keys):
        from reamber.osu.OsuHold import OsuHold

        return OsuHold.read_string(a5_hold_line(x, y, t, typ, hs, end, ns, ads, ci, vol, file), keys, as_dict=True)

    def ensures_denotation(x, y, t, typ, hs, end, ns, ads, ci, vol, file, keys, result):
        return (
            eqr(result["offset"], t)
            and eqr(result["length"], end - t)
            and result["column"] == fmt_column(x, keys)
            and result["hitsound_set"] == hs
            and result["sample_set"] == ns
            and result["addition_set"] == ads
            and result["custom_set"] == ci
            and result["volume"] == vol
            and result["hitsound_file"] == file
        )

    def witnesses(rng):
        for _ in range(300):
            k = rng.randrange(1, 19)
            t = float(rng.randrange(-5000, 10**7))
            yield dict(x=rng.randrange(0, 512), y=192, t=t, typ=128, hs=rng.randrange(16), end=t + rng.randrange(0, 5000),
                       ns=rng.randrange(4), ads=rng.randrange(4), ci=rng.randrange(100), vol=rng.randrange(101), file=rng.choice(["", "a.wav", "é.ogg"]), keys=k)


@lemma("C01", args=dict(x=Int(), y=Int(), t=Real(), typ=Int(), hs=Int(), end=Real(), ns=Int(), ads=Int(), ci=Int(), vol=Int(), file=FILE))
class classify_note_lines:
    """An A5 hit line is a hit and not a hold; an A5 hold line is a hold and not a hit."""

    def body(x, y, t, typ, hs, end, ns, ads, ci, vol, file):
        from reamber.osu.OsuNoteMeta import OsuNoteMeta

        h = a5_hit_line(x, y, t, typ, hs, ns, ads, ci, vol, file)
        l = a5_hold_line(x, y, t, typ, hs, end, ns, ads, ci, vol, file)
        return (OsuNoteMeta.is_hit(h), OsuNoteMeta.is_hold(h), OsuNoteMeta.is_hit(l), OsuNoteMeta.is_hold(l))

    def ensures_classified_by_kind(x, y, t, typ, hs, end, ns, ads, ci, vol, file, result):
        return result[0] == True and result[1] == False and result[2] == False and result[3] == True

    def witnesses(rng):
        for _ in range(100):
            yield dict(x=rng.randrange(512), y=192, t=float(rng.randrange(-100, 10**6)), typ=1, hs=0, end=5.0, ns=0, ads=0, ci=0, vol=0, file=rng.choice(["", "x.wav"]))


_TP_ARGS = dict(t=Real(), beat_length=Real(), meter=Int(), ss=Int(), si=Int(), vol=Int(), effects=Int())


@lemma("C01", args=_TP_ARGS)
class read_bpm_line:
    def requires(t, beat_length, meter, ss, si, vol, effects):
        return beat_length != 0

    def body(t, beat_length, meter, ss, si, vol, effects):
        from reamber.osu.OsuBpm import OsuBpm
        from reamber.osu.OsuTimingPointMeta import OsuTimingPointMeta as M

        s = a5_timing_line(t, beat_length, meter, ss, si, vol, 1, effects)
        return (OsuBpm.read_string(s, as_dict=True), M.is_timing_point(s), M.is_slider_velocity(s))

    def ensures_denotation(t, beat_length, meter, ss, si, vol, effects, result):
        d = result[0]
        return (
            eqr(d["offset"], t)
            and eqr(d["bpm"] * beat_length, 60000)
            and d["metronome"] == meter
            and d["sample_set"] == ss
            and d["sample_set_index"] == si
            and d["volume"] == vol
            and d["kiai"] == (effects % 2 == 1)
        )

    def ensures_classified_as_tempo_point(t, beat_length, meter, ss, si, vol, effects, result):
        return result[1] == True and result[2] == False

    def witnesses(rng):
        for _ in range(200):
            yield dict(t=rng.choice([rng.uniform(-1e3, 1e6), rng.uniform(1e6, 2e9), float(rng.randrange(10**6, 10**9)), -rng.uniform(0, 1e7)]), beat_length=rng.choice([500.0, 333.3333333333, 0.001, 1e5]), meter=rng.randrange(1, 9), ss=rng.randrange(4), si=rng.randrange(3), vol=rng.randrange(101), effects=rng.choice([0, 1]))


@lemma("C01", args=_TP_ARGS)
class read_sv_line:
    def requires(t, beat_length, meter, ss, si, vol, effects):
        return beat_length != 0

    def body(t, beat_length, meter, ss, si, vol, effects):
        from reamber.osu.OsuSv import OsuSv
        from reamber.osu.OsuTimingPointMeta import OsuTimingPointMeta as M

        s = a5_timing_line(t, beat_length, meter, ss, si, vol, 0, effects)
        return (OsuSv.read_string(s, as_dict=True), M.is_timing_point(s), M.is_slider_velocity(s))

    def ensures_denotation(t, beat_length, meter, ss, si, vol, effects, result):
        d = result[0]
        return (
            eqr(d["offset"], t)
            and eqr(d["multiplier"] * beat_length, -100)
            and d["sample_set"] == ss
            and d["sample_set_index"] == si
            and d["volume"] == vol
            and d["kiai"] == (effects % 2 == 1)
        )

    def ensures_classified_as_sv(t, beat_length, meter, ss, si, vol, effects, result):
        return result[1] == False and result[2] == True

    def witnesses(rng):
        for _ in range(200):
            yield dict(t=rng.choice([rng.uniform(-1e3, 1e6), rng.uniform(1e6, 2e9), float(rng.randrange(10**6, 10**9)), -rng.uniform(0, 1e7)]), beat_length=rng.choice([-100.0, -50.0, -33.3333, -1e3]), meter=4, ss=rng.randrange(4), si=rng.randrange(3), vol=rng.randrange(101), effects=rng.choice([0, 1]))


# ----------------------------------------------------------------------------- item lines: write direction
# The written text is parsed by the FORMAT's grammar (a5_parse_*), not by reamber's reader.


def a5_parse_hit(line):
    c = line.split(",")
    e = c[5].split(":")
    return dict(commas=len(c), colons=len(e), x=int(c[0]), y=int(c[1]), time=float(c[2]), type=int(c[3]), hs=int(c[4]),
                ns=int(e[0]), ads=int(e[1]), ci=int(e[2]), vol=int(e[3]), file=e[4])


def a5_parse_hold(line):
    c = line.split(",")
    e = c[5].split(":")
    return dict(commas=len(c), colons=len(e), x=int(c[0]), y=int(c[1]), time=float(c[2]), type=int(c[3]), hs=int(c[4]),
                end=float(e[0]), ns=int(e[1]), ads=int(e[2]), ci=int(e[3]), vol=int(e[4]), file=e[5])


def a5_parse_timing(line):
    c = line.split(",")
    return dict(commas=len(c), time=float(c[0]), beat_length=float(c[1]), meter=int(c[2]), ss=int(c[3]), si=int(c[4]), vol=int(c[5]),
                uninherited=int(c[6]), effects=int(c[7]))


def _mk(cls_path):
    def build(**kw):
        from pyvc.dsl import resolve

        return resolve(cls_path)(**kw)

    return build


KEYS = Choice(list(range(1, 19)))
HIT_OBJ = Obj("reamber.osu.OsuHit:OsuHit", build=_mk("reamber.osu.OsuHit:OsuHit"), data=True, offset=Real(), column=Int(), hitsound_set=Int(), sample_set=Int(),
              addition_set=Int(), custom_set=Int(), volume=Int(), hitsound_file=FILE)
HOLD_OBJ = Obj("reamber.osu.OsuHold:OsuHold", build=_mk("reamber.osu.OsuHold:OsuHold"), data=True, offset=Real(), column=Int(), length=Real(), hitsound_set=Int(), sample_set=Int(),
               addition_set=Int(), custom_set=Int(), volume=Int(), hitsound_file=FILE)


def _rand_hit(rng, k, hold=False):
    from reamber.osu.OsuHit import OsuHit
    from reamber.osu.OsuHold import OsuHold

    kw = dict(offset=rng.choice([float(rng.randrange(-5000, 10**7)), rng.choice([rng.uniform(-1e3, 1e6), rng.uniform(1e6, 2e9), float(rng.randrange(10**6, 10**9)), -rng.uniform(0, 1e7)]), -0.5, 0.999]), column=rng.randrange(k), hitsound_set=rng.randrange(16),
              sample_set=rng.randrange(4), addition_set=rng.randrange(4), custom_set=rng.randrange(50), volume=rng.randrange(101), hitsound_file=rng.choice(["", "a.wav", "é.ogg"]))
    if hold:
        return OsuHold(length=rng.choice([0.0, 0.4, 100.0, rng.uniform(0, 5000)]), **kw)
    return OsuHit(**kw)


@lemma("C01", args=dict(o=HIT_OBJ, keys=KEYS))
class write_hit_line:
    """A5-parse(OsuHit.write_string(o, K)) denotes o: time moved by < 1 ms, column and sound fields exact."""

    def requires(o, keys):
        return 0 <= o.column and o.column < keys

    def body(o, keys):
        s = o.write_string(keys)
        return (a5_parse_hit(s), s)

    def ensures_well_formed_hit_line(o, keys, result):
        p = result[0]
        return p["commas"] == 6 and p["colons"] == 5 and p["type"] % 2 == 1 and (p["type"] // 128) % 2 == 0 and 0 <= p["x"] and p["x"] < 512

    def ensures_same_note_within_1ms(o, keys, result):
        p = result[0]
        return (
            abs(p["time"] - o.offset) < 1
            and fmt_column(p["x"], keys) == o.column
            and p["hs"] == o.hitsound_set
            and p["ns"] == o.sample_set
            and p["ads"] == o.addition_set
            and p["ci"] == o.custom_set
            and p["vol"] == o.volume
            and p["file"] == o.hitsound_file
        )

    def witnesses(rng):
        for _ in range(300):
            k = rng.randrange(1, 19)
            yield dict(o=_rand_hit(rng, k), keys=k)


@lemma("C01", args=dict(o=HOLD_OBJ, keys=KEYS))
class write_hold_line:
    def requires(o, keys):
        return 0 <= o.column and o.column < keys and o.length >= 0

    def body(o, keys):
        s = o.write_string(keys)
        return (a5_parse_hold(s), s)

    def ensures_well_formed_hold_line(o, keys, result):
        p = result[0]
        return p["commas"] == 6 and p["colons"] == 6 and (p["type"] // 128) % 2 == 1 and 0 <= p["x"] and p["x"] < 512

    def ensures_same_hold_within_1ms(o, keys, result):
        p = result[0]
        return (
            abs(p["time"] - o.offset) < 1
            and abs(p["end"] - (o.offset + o.length)) < 1
            and fmt_column(p["x"], keys) == o.column
            and p["hs"] == o.hitsound_set
            and p["ns"] == o.sample_set
            and p["ads"] == o.addition_set
            and p["ci"] == o.custom_set
            and p["vol"] == o.volume
            and p["file"] == o.hitsound_file
        )

    def witnesses(rng):
        for _ in range(300):
            k = rng.randrange(1, 19)
            yield dict(o=_rand_hit(rng, k, hold=True), keys=k)


@lemma("C01", args=dict(o=HIT_OBJ, keys=KEYS))
class hit_line_no_drift:
    """Generation 2 text == generation 1 text: write(read(write(o))) == write(o), so later generations are fixed points."""

    def requires(o, keys):
        return 0 <= o.column and o.column < keys

    def body(o, keys):
        from reamber.osu.OsuHit import OsuHit

        s1 = o.write_string(keys)
        s2 = OsuHit.read_string(s1, keys).write_string(keys)
        return (s1, s2)

    def ensures_fixed_point(o, keys, result):
        return result[0] == result[1]

    def witnesses(rng):
        for _ in range(200):
            k = rng.randrange(1, 19)
            yield dict(o=_rand_hit(rng, k), keys=k)


@lemma("C01", args=dict(o=HOLD_OBJ, keys=KEYS))
class hold_line_no_drift:
    def requires(o, keys):
        return 0 <= o.column and o.column < keys and o.length >= 0

    def body(o, keys):
        from reamber.osu.OsuHold import OsuHold

        s1 = o.write_string(keys)
        s2 = OsuHold.read_string(s1, keys).write_string(keys)
        return (s1, s2)

    def ensures_fixed_point(o, keys, result):
        return result[0] == result[1]

    def witnesses(rng):
        for _ in range(200):
            k = rng.randrange(1, 19)
            yield dict(o=_rand_hit(rng, k, hold=True), keys=k)


BPM_OBJ = Obj("reamber.osu.OsuBpm:OsuBpm", build=_mk("reamber.osu.OsuBpm:OsuBpm"), data=True, offset=Real(), bpm=Real(), metronome=Int(), sample_set=Int(), sample_set_index=Int(), volume=Int(), kiai=Bool())
SV_OBJ = Obj("reamber.osu.OsuSv:OsuSv", build=_mk("reamber.osu.OsuSv:OsuSv"), data=True, offset=Real(), multiplier=Real(), sample_set=Int(), sample_set_index=Int(), volume=Int(), kiai=Bool())


@lemma("C01", args=dict(o=BPM_OBJ))
class write_bpm_line:
    """Tempo points are written with full float text: time and bpm exact (A3: float(repr(x)) == x)."""

    def requires(o):
        return o.bpm != 0

    def body(o):
        from reamber.osu.OsuTimingPointMeta import OsuTimingPointMeta as M

        s = o.write_string()
        return (a5_parse_timing(s), M.is_timing_point(s), M.is_slider_velocity(s))

    def ensures_same_tempo_point(o, result):
        p = result[0]
        return (
            p["commas"] == 8
            and eqr(p["time"], o.offset)
            and eqr(p["beat_length"] * o.bpm, 60000)
            and p["meter"] == o.metronome
            and p["ss"] == o.sample_set
            and p["si"] == o.sample_set_index
            and p["vol"] == o.volume
            and p["uninherited"] == 1
            and (p["effects"] % 2 == 1) == o.kiai
        )

    def ensures_classified_as_tempo_point(o, result):
        return result[1] == True and result[2] == False

    def witnesses(rng):
        from reamber.osu.OsuBpm import OsuBpm

        for _ in range(200):
            yield dict(o=OsuBpm(offset=rng.choice([rng.uniform(-1e3, 1e6), rng.uniform(1e6, 2e9), float(rng.randrange(10**6, 10**9)), -rng.uniform(0, 1e7)]), bpm=rng.choice([120.0, 177.77, 1e-2, 999.0]), metronome=rng.randrange(1, 9), sample_set=rng.randrange(4), sample_set_index=rng.randrange(3), volume=rng.randrange(101), kiai=rng.random() < 0.5))


@lemma("C01", args=dict(o=SV_OBJ))
class write_sv_line:
    def requires(o):
        return o.multiplier != 0

    def body(o):
        from reamber.osu.OsuTimingPointMeta import OsuTimingPointMeta as M

        s = o.write_string()
        return (a5_parse_timing(s), M.is_timing_point(s), M.is_slider_velocity(s))

    def ensures_same_sv_point(o, result):
        p = result[0]
        return (
            p["commas"] == 8
            and eqr(p["time"], o.offset)
            and eqr(p["beat_length"] * o.multiplier, -100)
            and p["ss"] == o.sample_set
            and p["si"] == o.sample_set_index
            and p["vol"] == o.volume
            and p["uninherited"] == 0
            and (p["effects"] % 2 == 1) == o.kiai
        )

    def ensures_classified_as_sv(o, result):
        return result[1] == False and result[2] == True

    def witnesses(rng):
        from reamber.osu.OsuSv import OsuSv

        for _ in range(200):
            yield dict(o=OsuSv(offset=rng.choice([rng.uniform(-1e3, 1e6), rng.uniform(1e6, 2e9), float(rng.randrange(10**6, 10**9)), -rng.uniform(0, 1e7)]), multiplier=rng.choice([1.0, 0.5, 2.25, 10.0, 0.01]), sample_set=rng.randrange(4), sample_set_index=rng.randrange(3), volume=rng.randrange(101), kiai=rng.random() < 0.5))


SAMPLE_FILE = Text(forbid=",\n\r")
SAMPLE_OBJ = Obj("reamber.osu.OsuSample:OsuSample", build=_mk("reamber.osu.OsuSample:OsuSample"), data=True, offset=Real(), sample_file=SAMPLE_FILE, volume=Int())


@lemma("C01", args=dict(o=SAMPLE_OBJ))
class sample_event_round_trip:
    """Sample,time,layer,file,volume: read(write(o)) is o with the time moved by < 1 ms; text is a fixed point."""

    def body(o):
        from reamber.osu.OsuSample import OsuSample

        s1 = o.write_string()
        d = OsuSample.read_string(s1, as_dict=True)
        s2 = OsuSample.read_string(s1).write_string()
        return (d, s1, s2, s1.split(","))

    def ensures_same_sample(o, result):
        d = result[0]
        return abs(d["offset"] - o.offset) < 1 and d["sample_file"] == o.sample_file and d["volume"] == o.volume

    def ensures_event_grammar(o, result):
        f = result[3]
        return len(f) == 5 and f[0] == "Sample" and f[2] == "0"

    def ensures_fixed_point(o, result):
        return result[1] == result[2]

    def witnesses(rng):
        from reamber.osu.OsuSample import OsuSample

        for _ in range(200):
            yield dict(o=OsuSample(offset=rng.choice([rng.uniform(-1e3, 1e6), rng.uniform(1e6, 2e9), float(rng.randrange(10**6, 10**9)), -rng.uniform(0, 1e7)]), sample_file=rng.choice(["a.wav", "", "x y.ogg", "é.wav"]), volume=rng.randrange(101)))


# ----------------------------------------------------------------------------- metadata: key:value parser / formatter

META = "reamber.osu.OsuMapMeta:OsuMapMeta"
TXT = Text()  # arbitrary text: may contain ':' and non-ASCII
TAG = Text(forbid=" ", trimmed=True, nonempty=True)


def _mk_meta(**kw):
    from reamber.osu.OsuMapMeta import OsuMapMeta

    return OsuMapMeta(**kw)


def MetaT(n_tags):
    return Obj(
        META, build=_mk_meta,
        audio_file_name=TXT, audio_lead_in=Int(), preview_time=Int(), countdown=Bool(), sample_set=Int(), stack_leniency=Real(), mode=Int(),
        letterbox_in_breaks=Bool(), special_style=Bool(), widescreen_storyboard=Bool(),
        distance_spacing=Real(), beat_divisor=Int(), grid_size=Int(), timeline_zoom=Real(),
        title=TXT, title_unicode=TXT, artist=TXT, artist_unicode=TXT, creator=TXT, version=TXT, source=TXT,
        tags=ListT(TAG, n_tags), beatmap_id=Int(), beatmap_set_id=Int(),
        hp_drain_rate=Real(), circle_size=Real(), overall_difficulty=Real(), approach_rate=Real(), slider_multiplier=Real(), slider_tick_rate=Int(),
        background_file_name=TXT, samples=Const([]),
    )


def a5_keyed_value(lines, key):
    """A5: the value of `Key:` is everything after the FIRST ':' of its line, trimmed (None if absent)."""
    for l in lines:
        if l.startswith(key + ":"):
            return l[len(key) + 1:].strip()
    return None


@lemma("C01", args=dict(m=Choice([MetaT(0), MetaT(1), MetaT(2)])))
class metadata_round_trip:
    """_read_meta_string_list(write_meta_string_list(m)) gives every one of the 30 keys back (text fields may
    contain ':' and non-ASCII; Title/Artist are the romanised fields, i.e. unidecode of the stored text)."""

    assumes = ["metadata numbers: ':g'-formatted fields are below 10**6 in magnitude and have <= 6 significant digits (g_exact); sample_set in 0..3; tag lists of length 0..2 explored as shapes (tags non-empty, without blanks)"]

    def requires(m):
        return (
            0 <= m.sample_set and m.sample_set <= 3
            and -1000000 < m.audio_lead_in and m.audio_lead_in < 1000000
            and -1000000 < m.beat_divisor and m.beat_divisor < 1000000
            and -1000000 < m.grid_size and m.grid_size < 1000000
            and -1000000 < m.slider_tick_rate and m.slider_tick_rate < 1000000
            and g_exact(m.distance_spacing) and g_exact(m.timeline_zoom) and g_exact(m.hp_drain_rate) and g_exact(m.circle_size)
            and g_exact(m.overall_difficulty) and g_exact(m.approach_rate) and g_exact(m.slider_multiplier)
        )

    def body(m):
        from reamber.osu.OsuMapMeta import OsuMapMeta
        from unidecode import unidecode

        lines = m.write_meta_string_list()
        r = OsuMapMeta()
        r._read_meta_string_list(lines)
        # the romanised fields are one-line texts: line breaks that romanising produces (U+2028 / U+2029) count as blanks
        return (r, lines, unidecode(m.title).replace("\r", " ").replace("\n", " "), unidecode(m.artist).replace("\r", " ").replace("\n", " "))

    def ensures_general(m, result):
        r = result[0]
        return (
            r.audio_file_name == m.audio_file_name.strip()
            and r.audio_lead_in == m.audio_lead_in
            and r.preview_time == m.preview_time
            and r.countdown == m.countdown
            and r.sample_set == m.sample_set
            and eqr(r.stack_leniency, m.stack_leniency)
            and r.mode == m.mode
            and r.letterbox_in_breaks == m.letterbox_in_breaks
            and r.special_style == m.special_style
            and r.widescreen_storyboard == m.widescreen_storyboard
        )

    def ensures_editor(m, result):
        r = result[0]
        return eqr(r.distance_spacing, m.distance_spacing) and r.beat_divisor == m.beat_divisor and r.grid_size == m.grid_size and eqr(r.timeline_zoom, m.timeline_zoom)

    def ensures_metadata(m, result):
        r = result[0]
        return (
            r.title == result[2].strip()
            and r.title_unicode == m.title_unicode.strip()
            and r.artist == result[3].strip()
            and r.artist_unicode == m.artist_unicode.strip()
            and r.creator == m.creator.strip()
            and r.version == m.version.strip()
            and r.source == m.source.strip()
            and r.tags == m.tags
            and r.beatmap_id == m.beatmap_id
            and r.beatmap_set_id == m.beatmap_set_id
        )

    def ensures_difficulty(m, result):
        r = result[0]
        return (
            eqr(r.hp_drain_rate, m.hp_drain_rate)
            and eqr(r.circle_size, m.circle_size)
            and eqr(r.overall_difficulty, m.overall_difficulty)
            and eqr(r.approach_rate, m.approach_rate)
            and eqr(r.slider_multiplier, m.slider_multiplier)
            and eqr(r.slider_tick_rate, m.slider_tick_rate)
        )

    def ensures_events(m, result):
        return result[0].background_file_name == m.background_file_name

    def ensures_written_text_is_key_value_grammar(m, result):
        lines = result[1]
        return (
            lines[0] == "osu file format v14"
            and a5_keyed_value(lines, "Version") == m.version.strip()
            and a5_keyed_value(lines, "Creator") == m.creator.strip()
            and a5_keyed_value(lines, "TitleUnicode") == m.title_unicode.strip()
            and a5_keyed_value(lines, "AudioFilename") == m.audio_file_name.strip()
        )

    def witnesses(rng):
        texts = ["", "plain", "a:b", "re: zero - ep 1: start", "  padded  ", "日本語: テスト", "Äö:ü", ":", "x::y", "two\u2028lines", "par\u2029agraph"]
        for _ in range(150):
            yield dict(m=_mk_meta(
                audio_file_name=rng.choice(["audio.mp3", "a:b.mp3", "é.ogg"]), audio_lead_in=rng.choice([0, 500, 99999]), preview_time=rng.choice([-1, 0, 123456]),
                countdown=rng.random() < 0.5, sample_set=rng.randrange(4), stack_leniency=rng.choice([0.7, 0.35, 1.0]), mode=3,
                letterbox_in_breaks=rng.random() < 0.5, special_style=rng.random() < 0.5, widescreen_storyboard=rng.random() < 0.5,
                distance_spacing=rng.choice([4, 1.5, 0.8]), beat_divisor=rng.choice([4, 8, 16]), grid_size=rng.choice([4, 8, 32]), timeline_zoom=rng.choice([0.3, 1.5, 2]),
                title=rng.choice(texts), title_unicode=rng.choice(texts), artist=rng.choice(texts), artist_unicode=rng.choice(texts), creator=rng.choice(texts),
                version=rng.choice(texts), source=rng.choice(texts), tags=rng.choice([[], ["a"], ["a", "b:c", "é"]]), beatmap_id=rng.randrange(10**7), beatmap_set_id=rng.choice([-1, 5, 10**6]),
                hp_drain_rate=rng.choice([5.0, 7.5, 8.25]), circle_size=float(rng.randrange(1, 19)), overall_difficulty=rng.choice([5.0, 9.3]), approach_rate=5.0,
                slider_multiplier=rng.choice([1.4, 2.0]), slider_tick_rate=rng.choice([1, 2, 4]), background_file_name=rng.choice(["bg.jpg", "my: bg.png", "", "q\"uote.png"])))
