"""C20 - pattern grouping (deductive kernels; combinations and filters: contracts/C20_bounded.py).

Pattern.v_mask and Pattern.h_mask from their REAL source over the numpy lite model at 0..4 notes (all offsets and
columns symbolic): the vertical mask is exactly the window [offset, offset + v] and, when jacks are avoided,
keeps only the first note of each column inside it; the horizontal mask is exactly the column distance test.
"""
from pyvc.dsl import contract, lemma, bounded, Ty, Int, Real, Bool, Obj, Const, Choice, ListT
from pyvc.ghost import implies

PAT = "reamber.algorithms.pattern.Pattern:Pattern"


class RecT(Ty):
    """A numpy record array with fields column:int, offset:float of n rows (sorted by offset by `requires`)."""

    def __init__(self, n):
        self.n = n

    def make(self, name, ctx):
        import z3
        from pyvc.npmodel import SRecArray

        return SRecArray({"column": [z3.Int(f"{name}.column[{i}]") for i in range(self.n)], "offset": [z3.Real(f"{name}.offset[{i}]") for i in range(self.n)]})

    def concretize(self, name, model):
        import numpy as np
        import z3
        from pyvc.dsl import _mval
        from fractions import Fraction

        cols = [_mval(model, z3.Int(f"{name}.column[{i}]")).as_long() for i in range(self.n)]
        offs = []
        for i in range(self.n):
            m = _mval(model, z3.Real(f"{name}.offset[{i}]"))
            offs.append(float(Fraction(m.numerator_as_long(), m.denominator_as_long())))
        return np.rec.fromarrays([np.array(cols, dtype=int), np.array(offs, dtype=float)], names=["column", "offset"])


def _sorted(ar):
    o = list(ar["offset"])
    return all(a <= b for a, b in zip(o[:-1], o[1:]))


def _rand_ar(rng, n=None):
    import numpy as np

    n = rng.randrange(0, 6) if n is None else n
    offs = sorted(float(rng.choice([0, 0, 50, 100, 100, 150, 300])) for _ in range(n))
    cols = [rng.randrange(0, 4) for _ in range(n)]
    return np.rec.fromarrays([np.array(cols, dtype=int), np.array(offs, dtype=float)], names=["column", "offset"])


@contract("C20", PAT + ".v_mask", args=dict(ar=Choice([RecT(n) for n in (0, 1, 2, 3, 4)]), offset=Real(), v_window=Real(lo=0), avoid_jack=Choice([True, False])))
class v_mask_is_window_with_first_per_column:
    assumes = ["shape-bounded: 0..4 notes, offsets and columns symbolic; numpy lite model (pyvc/npmodel.py); bisect on a sorted sequence (A3)"]
    max_paths = 6000

    def requires(ar, offset, v_window, avoid_jack):
        return _sorted(ar)

    def native_call(ar, offset, v_window, avoid_jack):
        from reamber.algorithms.pattern.Pattern import Pattern

        return list(Pattern.v_mask(ar, offset, v_window, avoid_jack))

    def ensures_exact_mask(ar, offset, v_window, avoid_jack, result):
        o = list(ar["offset"])
        c = list(ar["column"])
        res = list(result)
        inwin = [offset <= o[i] and o[i] <= offset + v_window for i in range(len(o))]
        return len(res) == len(o) and all(
            res[i] == (inwin[i] and (not avoid_jack or not any(inwin[j] and c[j] == c[i] for j in range(i))))
            for i in range(len(o)))

    def witnesses(rng):
        for _ in range(200):
            yield dict(ar=_rand_ar(rng), offset=float(rng.choice([0, 50, 100, 120])), v_window=float(rng.choice([0, 50, 100])), avoid_jack=rng.random() < 0.5)


@contract("C20", PAT + ".h_mask", args=dict(ar=Choice([RecT(n) for n in (0, 1, 2, 3)]), column=Int(), h_window=Int(0)))
class h_mask_is_column_distance:
    assumes = ["shape-bounded: 0..3 notes; numpy lite model"]

    def native_call(ar, column, h_window):
        from reamber.algorithms.pattern.Pattern import Pattern

        return list(Pattern.h_mask(ar, column, h_window))

    def ensures_exact_mask(ar, column, h_window, result):
        c = list(ar["column"])
        res = list(result)
        return len(res) == len(c) and all(res[i] == (abs(column - c[i]) <= h_window) for i in range(len(c)))

    def witnesses(rng):
        for _ in range(100):
            yield dict(ar=_rand_ar(rng), column=rng.randrange(0, 4), h_window=rng.randrange(0, 3))


# ----------------------------------------------------------------------------- Pattern.group: partition + windows


class PatternT(Ty):
    """A Pattern of n notes sorted by offset (as its constructor leaves it); the `type` cell of note k is the tag k,
    which the grouping code only passes through - it gives every note an identity for the partition clause."""

    def __init__(self, n):
        self.n = n

    def make(self, name, ctx):
        import z3
        from pyvc.frames import SFrame
        from pyvc.engine import SObj
        from pyvc.dsl import resolve

        offs = [z3.Real(f"{name}.offset[{i}]") for i in range(self.n)]
        for a, b in zip(offs[:-1], offs[1:]):
            ctx.assume(a <= b)
        cols = [z3.Int(f"{name}.column[{i}]") for i in range(self.n)]
        for c in cols:
            ctx.assume(c >= 0)
        return SObj(resolve(PAT), {"df": SFrame({"column": cols, "offset": offs, "type": list(range(self.n))}, list(range(self.n)))})

    def concretize(self, name, model):
        import z3
        from fractions import Fraction
        from pyvc.dsl import _mval
        from reamber.algorithms.pattern.Pattern import Pattern
        import pandas as pd

        cols = [_mval(model, z3.Int(f"{name}.column[{i}]")).as_long() for i in range(self.n)]
        offs = []
        for i in range(self.n):
            m = _mval(model, z3.Real(f"{name}.offset[{i}]"))
            offs.append(float(Fraction(m.numerator_as_long(), m.denominator_as_long())))
        p = Pattern.__new__(Pattern)
        p.df = pd.DataFrame({"column": cols, "offset": offs, "type": list(range(self.n))})
        return p


def _groups_as_lists(result):
    """[(columns, offsets, tags)] per group, for model record arrays and real numpy record arrays alike."""
    return [(list(g["column"]), list(g["offset"]), list(g["type"])) for g in result]


@contract("C20", PAT + ".group", args=dict(self=Choice([PatternT(n) for n in (0, 1, 2, 3)]), v_window=Real(lo=0), h_window=Choice([None, 0, 1]), avoid_jack=Choice([True, False])))
class group_partitions_the_notes:
    """Every note lands in exactly one group; inside a group all times lie within v of the group's first note, all
    columns within h of it, and no column repeats when jacks are avoided."""

    assumes = ["shape-bounded: 0..3 notes (offsets, columns symbolic, sorted by offset as the constructor leaves them); numpy lite model incl. the masked in-place update x[~m] |= y (A2)"]
    max_paths = 6000
    explore_s = 200

    def ensures_partition(self, v_window, h_window, avoid_jack, result):
        tags = [t for _, _, ts in _groups_as_lists(result) for t in ts]
        n = len(self.df)
        return len(tags) == n and all(any(t == k for t in tags) for k in range(n)) and all(len(ts) >= 1 for _, _, ts in _groups_as_lists(result))

    def ensures_windows(self, v_window, h_window, avoid_jack, result):
        ok = True
        for cs, os_, ts in _groups_as_lists(result):
            ok = ok and all(os_[0] <= o and o <= os_[0] + v_window for o in os_)
            if h_window is not None:
                ok = ok and all(abs(c - cs[0]) <= h_window for c in cs)
            if avoid_jack:
                ok = ok and all(cs[i] != cs[j] for i in range(len(cs)) for j in range(i))
        return ok

    def witnesses(rng):
        import pandas as pd
        from reamber.algorithms.pattern.Pattern import Pattern

        for _ in range(150):
            n = rng.randrange(0, 6)
            offs = sorted(float(rng.choice([0, 0, 50, 100, 100, 150, 300])) for _ in range(n))
            p = Pattern.__new__(Pattern)
            p.df = pd.DataFrame({"column": [rng.randrange(0, 4) for _ in range(n)], "offset": offs, "type": list(range(n))})
            yield dict(self=p, v_window=float(rng.choice([0, 50, 100])), h_window=rng.choice([None, 0, 1, 2]), avoid_jack=rng.random() < 0.5)
