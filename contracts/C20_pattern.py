"""C20 - pattern grouping (deductive kernels; combinations and filters: contracts/C20_bounded.py).

Pattern.v_mask and Pattern.h_mask from their REAL source over the numpy lite model at 0..4 notes (all offsets and
columns symbolic): the vertical mask is exactly the window [offset, offset + v] and, when jacks are avoided,
keeps only the first note of each column inside it; the horizontal mask is exactly the column distance test.
"""
from pyvc.dsl import contract, lemma, bounded, Ty, Int, Real, Bool, Obj, Const, Choice, ListT
from pyvc.ghost import implies

PAT = "reamber.algorithms.pattern.Pattern:Pattern"


class RecT(Ty):
    """A numpy record array with fields column:int, offset:float of n rows (sorted by offset by `requires`)."""

    def __init__(self, n):
        self.n = n

    def make(self, name, ctx):
        import z3
        from pyvc.npmodel import SRecArray

        return SRecArray({"column": [z3.Int(f"{name}.column[{i}]") for i in range(self.n)], "offset": [z3.Real(f"{name}.offset[{i}]") for i in range(self.n)]})

    def concretize(self, name, model):
        import numpy as np
        import z3
        from pyvc.dsl import _mval
        from fractions import Fraction

        cols = [_mval(model, z3.Int(f"{name}.column[{i}]")).as_long() for i in range(self.n)]
        offs = []
        for i in range(self.n):
            m = _mval(model, z3.Real(f"{name}.offset[{i}]"))
            offs.append(float(Fraction(m.numerator_as_long(), m.denominator_as_long())))
        return np.rec.fromarrays([np.array(cols, dtype=int), np.array(offs, dtype=float)], names=["column", "offset"])


def _sorted(ar):
    o = list(ar["offset"])
    return all(a <= b for a, b in zip(o[:-1], o[1:]))


def _rand_ar(rng, n=None):
    import numpy as np

    n = rng.randrange(0, 6) if n is None else n
    offs = sorted(float(rng.choice([0, 0, 50, 100, 100, 150, 300])) for _ in range(n))
    cols = [rng.randrange(0, 4) for _ in range(n)]
    return np.rec.fromarrays([np.array(cols, dtype=int), np.array(offs, dtype=float)], names=["column", "offset"])


@contract("C20", PAT + ".v_mask", args=dict(ar=Choice([RecT(n) for n in (0, 1, 2, 3, 4)]), offset=Real(), v_window=Real(lo=0), avoid_jack=Choice([True, False])))
class v_mask_is_window_with_first_per_column:
    assumes = ["shape-bounded: 0..4 notes, offsets and columns symbolic; numpy lite model (pyvc/npmodel.py); bisect on a sorted sequence (A3)"]
    max_paths = 6000

    def requires(ar, offset, v_window, avoid_jack):
        return _sorted(ar)

    def native_call(ar, offset, v_window, avoid_jack):
        from reamber.algorithms.pattern.Pattern import Pattern

        return list(Pattern.v_mask(ar, offset, v_window, avoid_jack))

    def ensures_exact_mask(ar, offset, v_window, avoid_jack, result):
        o = list(ar["offset"])
        c = list(ar["column"])
        res = list(result)
        inwin = [offset <= o[i] and o[i] <= offset + v_window for i in range(len(o))]
        return len(res) == len(o) and all(
            res[i] == (inwin[i] and (not avoid_jack or not any(inwin[j] and c[j] == c[i] for j in range(i))))
            for i in range(len(o)))

    def witnesses(rng):
        for _ in range(200):
            yield dict(ar=_rand_ar(rng), offset=float(rng.choice([0, 50, 100, 120])), v_window=float(rng.choice([0, 50, 100])), avoid_jack=rng.random() < 0.5)


@contract("C20", PAT + ".h_mask", args=dict(ar=Choice([RecT(n) for n in (0, 1, 2, 3)]), column=Int(), h_window=Int(0)))
class h_mask_is_column_distance:
    assumes = ["shape-bounded: 0..3 notes; numpy lite model"]

    def native_call(ar, column, h_window):
        from reamber.algorithms.pattern.Pattern import Pattern

        return list(Pattern.h_mask(ar, column, h_window))

    def ensures_exact_mask(ar, column, h_window, result):
        c = list(ar["column"])
        res = list(result)
        return len(res) == len(c) and all(res[i] == (abs(column - c[i]) <= h_window) for i in range(len(c)))

    def witnesses(rng):
        for _ in range(100):
            yield dict(ar=_rand_ar(rng), column=rng.randrange(0, 4), h_window=rng.randrange(0, 3))
