"""C11 - reseating tempo changes onto measure lines.

Deductive part: ONE iteration of the `while` loop of reseat_bpm_changes_snap as a loop-body unit from an
arbitrary state satisfying the loop invariant, per branch.  The state is the window [current, next] of the
list (the body only touches indices i and i+1 and inserts at i+1), with `offsets` the exact elapsed times the
function precomputes.  Loop-level claims (all changes, lists of any length) follow by induction over the
iterations; the whole loop is additionally enumerated by the bounded stand-in (contracts/C11_bounded.py).
"""
from fractions import Fraction

from pyvc.dsl import contract, lemma, bounded, loop_unit, Int, Real, Bool, Obj, Const, Choice, ListT, ListOfT
from pyvc.ghost import eqr, implies, floor
from contracts.C10_timing import BcsT, SnapT, _mk_bcs, _mk_snap, wf_bcs, normal

RESEAT = "reamber.algorithms.timing.utils.reseat_bpm_changes_snap:reseat_bpm_changes_snap"
THR = Fraction(1, 1000)


def mlen(b):
    """measure length in ms of a tempo change."""
    return 60000 / b.bpm * b.metronome


def seated(b, measure):
    return b.snap.measure == measure and b.snap.beat == 0


def _state_ok(bcs_s, offsets, i, measure, extend_threshold):
    cur, nxt = bcs_s[0], bcs_s[1]
    return (i == 0 and extend_threshold == THR
            and cur.bpm > 0 and cur.metronome > 0 and nxt.bpm > 0 and nxt.metronome > 0
            and measure >= 0 and seated(cur, measure) and cur.snap.metronome == cur.metronome
            and nxt.snap.metronome == nxt.metronome and nxt.snap.measure >= 0 and nxt.snap.beat >= 0
            and offsets[1] > offsets[0])


def _mdiff(bcs_s, offsets):
    return (offsets[1] - offsets[0]) / mlen(bcs_s[0])


def _bdiff(bcs_s, offsets):
    return (offsets[1] - offsets[0]) / (60000 / bcs_s[0].bpm)


SNAP = "reamber.algorithms.timing.utils.snap:Snap"
BCS = "reamber.algorithms.timing.utils.BpmChangeSnap:BpmChangeSnap"


def _bcs_m(m):
    """A tempo change whose metronome is the concrete integer m (the property's domain: metronomes 1..8)."""
    from fractions import Fraction as F

    return Obj(BCS, build=_mk_bcs, bpm=Real("fraction"), metronome=Const(F(m)),
               snap=Obj(SNAP, build=_mk_snap, measure=Int(), beat=Real("fraction"), metronome=Const(F(m))))


METROS = [1, 2, 3, 4, 5, 6, 7, 8]
ARGS = dict(bcs_s=ListOfT(Choice([_bcs_m(m) for m in METROS]), _bcs_m(4)), offsets=ListT(Real("fraction"), 2), i=Const(0), measure=Int(), extend_threshold=Const(THR))


def _wit(rng, pick):
    out = []
    for _ in range(400):
        m = Fraction(4)
        bpm0 = Fraction(rng.choice([60, 90, 120, 200]))
        cur = _mk_bcs(bpm0, m, _mk_snap(rng.randrange(0, 5), Fraction(0), m))
        beats = pick(rng)
        t0 = Fraction(rng.randrange(0, 5000))
        t1 = t0 + beats * Fraction(60000) / bpm0
        nxt = _mk_bcs(Fraction(rng.choice([60, 90, 120])), Fraction(4), _mk_snap(cur.snap.measure + int(beats // 4), beats % 4, Fraction(4)))
        out.append(dict(bcs_s=[cur, nxt], offsets=[t0, t1], i=0, measure=cur.snap.measure, extend_threshold=THR))
    return out


def _od(offsets):
    return offsets[1] - offsets[0]


def _beats_are_measures_times_metronome(bcs_s, offsets, i, measure, extend_threshold):
    """elapsed beats == elapsed measures * metronome (a real-arithmetic identity; lets the integer reasoning
    about the two floor divisions of the body go through)."""
    return _bdiff(bcs_s, offsets) == _mdiff(bcs_s, offsets) * bcs_s[0].metronome


def _kept(a, b):
    return a.bpm == b.bpm and a.metronome == b.metronome


@loop_unit("C11", RESEAT, anchor="while i != len(bcs_s) - 1", args=ARGS)
class step_whole_measures:
    """A whole number of measures follows: nothing is inserted or changed (the original bpm is kept), the next
    change is seated on the measure line that many measures later - i.e. at its own time."""

    def requires(bcs_s, offsets, i, measure, extend_threshold):
        return _state_ok(bcs_s, offsets, i, measure, extend_threshold)

    hint_beats_vs_measures = _beats_are_measures_times_metronome

    def requires_case(bcs_s, offsets, i, measure, extend_threshold):
        d = _mdiff(bcs_s, offsets)
        return d == floor(d)

    def ensures_seated_and_time_consistent(bcs_s, offsets, i, measure, extend_threshold, result):
        return (result.outcome == "normal" and result.i == 1 and len(result.bcs_s) == 2 and len(result.offsets) == 2
                and _kept(result.bcs_s[0], bcs_s[0]) and seated(result.bcs_s[0], measure)
                and result.bcs_s[1].bpm == bcs_s[1].bpm and seated(result.bcs_s[1], result.measure) and result.measure > measure
                and eqr((result.measure - measure) * mlen(bcs_s[0]), _od(offsets))
                and result.offsets[0] == offsets[0] and result.offsets[1] == offsets[1])

    def witnesses(rng):
        return _wit(rng, lambda r: Fraction(4 * r.randrange(1, 5)))


@loop_unit("C11", RESEAT, anchor="while i != len(bcs_s) - 1", args=ARGS)
class step_partial_measure_only:
    """Less than one measure follows (by more than the threshold in measures and beats): the current change is
    replaced IN PLACE by one whose single measure spans exactly the interval; nothing is inserted; the next
    change is seated on the following measure line; both times are kept."""

    def requires(bcs_s, offsets, i, measure, extend_threshold):
        return _state_ok(bcs_s, offsets, i, measure, extend_threshold)

    hint_beats_vs_measures = _beats_are_measures_times_metronome

    def requires_case(bcs_s, offsets, i, measure, extend_threshold):
        d = _mdiff(bcs_s, offsets)
        b = _bdiff(bcs_s, offsets)
        return d < 1 and d > THR and not (0 < b - floor(b) and b - floor(b) <= THR)

    def ensures_one_measure_spans_the_interval(bcs_s, offsets, i, measure, extend_threshold, result):
        return (result.outcome == "normal" and result.i == 1 and len(result.bcs_s) == 2
                and seated(result.bcs_s[0], measure) and seated(result.bcs_s[1], measure + 1) and result.measure == measure + 1
                and result.bcs_s[0].bpm > 0 and result.bcs_s[0].metronome > 0
                and eqr(mlen(result.bcs_s[0]), _od(offsets))
                and result.bcs_s[1].bpm == bcs_s[1].bpm
                and result.offsets[0] == offsets[0] and result.offsets[1] == offsets[1])

    def witnesses(rng):
        return _wit(rng, lambda r: Fraction(r.randrange(1, 8), 2) if r.random() < 0.7 else Fraction(r.randrange(5, 390), 100))


@loop_unit("C11", RESEAT, anchor="while i != len(bcs_s) - 1", args=ARGS)
class step_insert_partial_measure:
    """Whole measures and then a partial measure follow: exactly ONE point is inserted, on a later measure line
    at its exact time, whose single measure spans the rest of the interval; the current change keeps its bpm;
    the original next change keeps its time.  (From that state the next iteration sees exactly one whole
    measure, so it inserts nothing: step_whole_measures.)"""

    def requires(bcs_s, offsets, i, measure, extend_threshold):
        return _state_ok(bcs_s, offsets, i, measure, extend_threshold)

    hint_beats_vs_measures = _beats_are_measures_times_metronome

    def requires_case(bcs_s, offsets, i, measure, extend_threshold):
        d = _mdiff(bcs_s, offsets)
        b = _bdiff(bcs_s, offsets)
        return d > 1 and d - floor(d) > THR and not (0 < b - floor(b) and b - floor(b) <= THR)

    def ensures_one_point_inserted_on_a_measure_line(bcs_s, offsets, i, measure, extend_threshold, result):
        return (result.outcome == "normal" and result.i == 1 and len(result.bcs_s) == 3 and len(result.offsets) == 3
                and _kept(result.bcs_s[0], bcs_s[0]) and seated(result.bcs_s[0], measure)
                and seated(result.bcs_s[1], result.measure) and result.measure > measure
                and result.bcs_s[1].bpm > 0 and result.bcs_s[1].metronome > 0
                and eqr(result.offsets[1], offsets[0] + (result.measure - measure) * mlen(bcs_s[0]))
                and result.offsets[0] == offsets[0] and result.offsets[2] == offsets[1]
                and offsets[0] < result.offsets[1] and result.offsets[1] < offsets[1]
                and result.bcs_s[2].bpm == bcs_s[1].bpm)

    def ensures_inserted_measure_spans_the_rest(bcs_s, offsets, i, measure, extend_threshold, result):
        return eqr(mlen(result.bcs_s[1]), result.offsets[2] - result.offsets[1])

    def witnesses(rng):
        return _wit(rng, lambda r: Fraction(r.randrange(9, 40), 2) if r.random() < 0.7 else Fraction(r.randrange(405, 1990), 100))


@loop_unit("C11", RESEAT, anchor="while i != len(bcs_s) - 1", args=ARGS)
class step_extend_by_bpm:
    """The next change lies just after a measure line (0 < remainder <= threshold, at least one whole measure):
    instead of a tiny measure the last whole measure is stretched: either the current change is nudged in
    place (one measure spans the interval) or one point is inserted on the line before, whose single measure
    spans the rest; the next change keeps its time."""

    def requires(bcs_s, offsets, i, measure, extend_threshold):
        return _state_ok(bcs_s, offsets, i, measure, extend_threshold)

    hint_beats_vs_measures = _beats_are_measures_times_metronome

    def requires_case(bcs_s, offsets, i, measure, extend_threshold):
        d = _mdiff(bcs_s, offsets)
        return d >= 1 and 0 < d - floor(d) and d - floor(d) <= THR

    def ensures_last_measure_stretched(bcs_s, offsets, i, measure, extend_threshold, result):
        n = len(result.bcs_s)
        nudged = (n == 2 and seated(result.bcs_s[0], measure) and result.measure == measure + 1
                  and result.bcs_s[0].bpm > 0 and eqr(mlen(result.bcs_s[0]), _od(offsets))
                  and result.offsets[0] == offsets[0] and result.offsets[1] == offsets[1])
        inserted = (n == 3 and _kept(result.bcs_s[0], bcs_s[0]) and seated(result.bcs_s[0], measure)
                    and seated(result.bcs_s[1], result.measure) and result.measure > measure and result.bcs_s[1].bpm > 0
                    and eqr(result.offsets[1], offsets[0] + (result.measure - measure) * mlen(bcs_s[0]))
                    and eqr(mlen(result.bcs_s[1]), offsets[1] - result.offsets[1])
                    and result.offsets[0] == offsets[0] and result.offsets[2] == offsets[1])
        return result.outcome == "normal" and result.i == 1 and (nudged or inserted) and result.bcs_s[n - 1].bpm == bcs_s[1].bpm

    def witnesses(rng):
        return _wit(rng, lambda r: Fraction(4 * r.randrange(1, 5)) + Fraction(r.randrange(1, 5), 1250))


# ----------------------------------------------------------------------------- bounded: reseat() of a map with its own snapper

from pyvc.bounded import replayer  # noqa: E402


def _own_snapper_fails(case):
    from reamber.algorithms.timing.TimingMap import TimingMap
    from reamber.algorithms.timing.utils.BpmChangeOffset import BpmChangeOffset
    from reamber.algorithms.timing.utils.Snapper import Snapper

    bpm0, bpm1, init, measure, den = case["bpm0"], case["bpm1"], case["init"], case["measure"], case["den"]
    pos = Fraction(4 * measure) + Fraction(1, den)
    t1 = float(Fraction(repr(init)) + pos * 60000 / Fraction(repr(bpm0)))
    tm = TimingMap(bpm_changes_offset=[BpmChangeOffset(bpm0, 4, init), BpmChangeOffset(bpm1, 4, t1)], snapper=Snapper(divisions=(den,)))
    try:
        seated = tm.reseat()
    except Exception as ex:
        return [("reseat_keeps_change_times_with_own_snapper", f"reseat() raised {type(ex).__name__}: {ex}")]
    offs = [b.offset for b in seated.bpm_changes_offset]
    if not any(abs(o - t1) <= 1e-6 for o in offs):
        return [("reseat_keeps_change_times_with_own_snapper", f"the change at {t1} ms (beat {pos}, on the map's own 1/{den} grid) is not a tempo point after reseat(): {offs}")]
    return []


@bounded("C11", note="TimingMap.reseat() on maps made with their own finer snapper (1/128, 1/200 beat): every original change time is still a tempo point")
def reseat_with_the_maps_own_snapper(rep):
    rng = rep.rng
    N = rep.n(60, 600)
    rep.bound = f"{N} two-change maps: second change 1/128 or 1/200 beat after a measure line, bpms from a pool, initial offsets"
    rep.rule = "a case is (bpm0, bpm1, init, measure, grid); all non-trivial"
    for _ in range(N):
        case = dict(bpm0=float(rng.choice([60, 120, 150])), bpm1=float(rng.choice([90, 200])), init=float(rng.choice([0, 250, -100])), measure=rng.randrange(1, 6), den=rng.choice([128, 200]))
        rep.case(case)
        for what, d in _own_snapper_fails(case):
            rep.fail(what, case, d)


@replayer("reseat_with_the_maps_own_snapper")
def _r_own(case, what):
    hit = [d for w, d in _own_snapper_fails(case) if w == what]
    return (bool(hit), hit[0] if hit else "passes")
