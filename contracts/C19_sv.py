"""C19 - SV normalisation follows its definition (deductive part; dominant bpm and scroll speed are pandas
pipelines outside the frame model: contracts/C19_bounded.py).

sv_normalize(m, override_bpm) from its REAL source over the static-shape frame model: one SV per tempo point, at
its time, multiplier * bpm == reference, result of the chart's own SV list class, tempo list untouched (C14).
With override_bpm=None the reference is dominant_bpm(m), used through its stated contract (any value the
callee returns: the clause is relative to that value).
"""
from pyvc.dsl import contract, lemma, bounded, Int, Real, Bool, Obj, Const, Choice, ListT, TimedListT, MapT, resolve
from pyvc.ghost import rows, labels, columns, unchanged, implies, eqr, declared, no_nan
from contracts.C12_stack import _lists, _rand_map, OSU, SHAPE_NOTE

QUA = "reamber.quaver.QuaMap:QuaMap"
SVN = "reamber.algorithms.generate.sv_normalize:sv_normalize"

_POSBPM = dict(bpms=dict(bpm=Real(lo=1)))
SHAPES = [
    MapT(OSU, dict(hits=1, holds=0, bpms=2, svs=1), overrides=_POSBPM),
    MapT(OSU, dict(hits=1, holds=0, bpms=3, svs=0), overrides=_POSBPM),
    MapT(QUA, dict(hits=1, holds=0, bpms=2, svs=0), overrides=_POSBPM),
    MapT(QUA, dict(hits=0, holds=1, bpms=1, svs=2), overrides=_POSBPM),
]


@contract("C19", SVN, args=dict(m=Choice(SHAPES), override_bpm=Real(lo=1)))
class sv_normalize_with_override:
    assumes = SHAPE_NOTE + ["override given (the dominant-bpm pipeline is checked by the bounded stand-in)"]

    def ensures_one_sv_per_tempo_point_at_its_time(m, override_bpm, result, old):
        return (len(rows(result)) == len(rows(old.m.bpms))
                and all(a["offset"] == b["offset"] for a, b in zip(rows(result), rows(old.m.bpms))))

    def ensures_multiplier_times_bpm_is_the_reference(m, override_bpm, result, old):
        return all(eqr(a["multiplier"] * b["bpm"], override_bpm) for a, b in zip(rows(result), rows(old.m.bpms)))

    def ensures_result_is_the_charts_sv_list_class(m, override_bpm, result, old):
        return type(result) is type(m.svs) and sorted(columns(result)) == sorted(declared(type(m.svs)))

    def ensures_chart_untouched(m, override_bpm, result, old):
        return all(unchanged(a, b) for a, b in zip(_lists(m), _lists(old.m)))

    def witnesses(rng):
        for _ in range(60):
            m = _rand_map(rng, rng.choice([OSU, QUA]))
            if len(m.bpms) == 0:
                continue
            # references far from the chart's tempos too: the multiplier is whatever makes multiplier * bpm the reference
            yield dict(m=m, override_bpm=float(rng.choice([100, 177.5, 240, 3000.0, 2.0, 12345.6])))
