"""C04 - BMS reading (deductive kernel; whole texts: contracts/C04_bounded.py, layout tables: C05_tables.py).

The object step of BMSMap._read_notes (body of `for i, pair in enumerate(pairs)`) as a loop-body unit: object i of a
line with `division` two-character slots sits at measure + i/division, i.e. beat 4*i/division of its measure;
`00` is no object; on a note channel it becomes a hit of the channel's lane carrying the #WAV sample of its id,
unless it is the #LNOBJ id, in which case it closes the LATEST hit of that lane into a hold ending here (and raises
when the lane has no hit); on channel 03 it is a tempo change of the hexadecimal value, on channel 08 of the
#BPMxx table entry.  Nothing else changes.  (That "latest hit of the lane" means the latest in FILE order is the
known finding F6.)
"""
from collections import namedtuple
from fractions import Fraction

from pyvc.dsl import contract, lemma, bounded, loop_unit, Ty, Int, Real, Bool, Obj, Const, Choice, ListT
from pyvc.ghost import eqr, implies
from contracts.C10_timing import SnapT, _mk_snap, BcsT, _mk_bcs

READ_NOTES = "reamber.bms.BMSMap:BMSMap._read_notes"
Hit = namedtuple("Hit", ["sample", "snap"])
Hold = namedtuple("Hold", ["hit", "sample", "snap"])
LANES = 3


def _config():
    from reamber.bms.BMSChannel import BMSChannel

    return BMSChannel.BME


class SelfT(Ty):
    def make(self, name, ctx):
        from pyvc.frames import lift
        from reamber.bms.BMSMap import BMSMap

        m = BMSMap()
        m.ln_end_channel = b"ZZ"
        m.samples = {b"01": b"kick.wav", b"0A": b"snare.wav"}
        m.exbpms = {b"A1": 133.5}
        return lift(m)

    def concretize(self, name, model):
        from reamber.bms.BMSMap import BMSMap

        m = BMSMap()
        m.ln_end_channel = b"ZZ"
        m.samples = {b"01": b"kick.wav", b"0A": b"snare.wav"}
        m.exbpms = {b"A1": 133.5}
        return m


class LanesT(Ty):
    """hits / holds per lane; lane `with_hit` (or every lane when 'all') already holds one earlier hit."""

    def __init__(self, with_hit=None, n_lanes=18):
        self.with_hit, self.n = with_hit, n_lanes

    def make(self, name, ctx):
        out = [[] for _ in range(self.n)]
        if self.with_hit is not None:
            for c in (range(self.n) if self.with_hit == "all" else [self.with_hit]):
                out[c].append(Hit(sample=b"prev.wav", snap=SnapT().make(f"{name}[{c}].snap", ctx)))
        return out

    def concretize(self, name, model):
        out = [[] for _ in range(self.n)]
        if self.with_hit is not None:
            for c in (range(self.n) if self.with_hit == "all" else [self.with_hit]):
                out[c].append(Hit(sample=b"prev.wav", snap=SnapT().concretize(f"{name}[{c}].snap", model)))
        return out


_CFG = None


def _cfg():
    global _CFG
    if _CFG is None:
        c = _config()
        _CFG = (c, {v: k for k, v in c.items()})
    return _CFG


@loop_unit("C04", READ_NOTES, anchor="for i, pair in enumerate(pairs)",
           args=dict(self=SelfT(), i=Int(0), pair=Choice([b"00", b"0", b"01", b"0A", b"ZZ", b"3C", b"A1", b"7Q"]), division=Int(1), metronome=Const(4), measure=Int(0),
                     channel=Choice([b"11", b"16", b"03", b"08", b"01"]), hits=Choice([LanesT(None), LanesT("all")]), holds=LanesT(None), bcs_s=ListT(BcsT(), 0),
                     config=Const(_cfg()[0]), config_rev=Const(_cfg()[1]), Hit=Const(Hit), Hold=Const(Hold)))
class object_step:
    assumes = ["BME layout (the five tables are enumerated in C05_tables.py); header tables fixed: LNOBJ ZZ, two #WAV ids, one #BPMxx id; at most one earlier hit per lane in the state"]
    max_paths = 3000

    def requires(self, i, pair, division, metronome, measure, channel, hits, holds, bcs_s, config, config_rev, Hit, Hold):
        return i < division

    def _bad_object(pair, channel, hits):
        """inputs outside the format: an LNOBJ with no open hit in its lane, an id without #BPMxx entry on channel 08,
        a non-hexadecimal value on channel 03 (the unit says exactly when the code raises)"""
        if pair in (b"00", b"0"):
            return False
        lane = {b"11": 1, b"16": 0}.get(channel)
        return ((pair == b"ZZ" and lane is not None and len(hits[lane]) == 0)
                or (channel == b"08" and pair != b"A1")
                or (channel == b"03" and pair in (b"ZZ", b"7Q")))

    raises = {Exception: _bad_object}

    def ensures_position_is_measure_plus_i_over_division(self, i, pair, division, metronome, measure, channel, hits, holds, bcs_s, config, config_rev, Hit, Hold, result, old):
        lane = {b"11": 1, b"16": 0}.get(channel)
        beat_ok = lambda s: s.measure == measure and eqr(s.beat * division, 4 * i)  # noqa: E731
        if pair in (b"00", b"0"):
            return result.outcome == "continue"
        if lane is not None and pair != b"ZZ":
            h = result.hits[lane][-1]
            return len(result.hits[lane]) == len(old.hits[lane]) + 1 and beat_ok(h.snap) and h.sample == {b"01": b"kick.wav", b"0A": b"snare.wav"}.get(pair, b"")
        if lane is not None and pair == b"ZZ":
            d = result.holds[lane][-1]
            return (len(result.hits[lane]) == len(old.hits[lane]) - 1 and len(result.holds[lane]) == 1 and beat_ok(d.snap)
                    and d.hit.snap.measure == old.hits[lane][-1].snap.measure and d.hit.snap.beat == old.hits[lane][-1].snap.beat and d.sample == b"prev.wav")
        if channel == b"03":
            b = result.bcs_s[-1]
            return len(result.bcs_s) == 1 and b.bpm == int(pair, 16) and beat_ok(b.snap) and b.metronome == 4
        if channel == b"08":
            b = result.bcs_s[-1]
            return len(result.bcs_s) == 1 and b.bpm == 133.5 and beat_ok(b.snap)
        return len(result.bcs_s) == 0  # a channel that is neither a lane nor a tempo channel: nothing is recorded

    def ensures_other_lanes_untouched(self, i, pair, division, metronome, measure, channel, hits, holds, bcs_s, config, config_rev, Hit, Hold, result, old):
        lane = {b"11": 1, b"16": 0}.get(channel)
        return all(len(result.hits[c]) == len(old.hits[c]) and len(result.holds[c]) == len(old.holds[c]) for c in range(18) if c != lane)

    def witnesses(rng):
        from reamber.bms.BMSMap import BMSMap

        cfg, rev = _cfg()
        for _ in range(200):
            m = BMSMap()
            m.ln_end_channel = b"ZZ"
            m.samples = {b"01": b"kick.wav", b"0A": b"snare.wav"}
            m.exbpms = {b"A1": 133.5}
            div = rng.choice([1, 2, 3, 4, 8, 16, 48, 192, 1000])
            hits = [[] for _ in range(18)]
            if rng.random() < 0.6:
                for c in range(18):
                    hits[c].append(Hit(sample=b"prev.wav", snap=_mk_snap(rng.randrange(3), Fraction(rng.randrange(8), 2), None)))
            yield dict(self=m, i=rng.randrange(div), pair=rng.choice([b"00", b"01", b"0A", b"ZZ", b"3C", b"A1", b"7Q"]), division=div, metronome=4, measure=rng.randrange(5),
                       channel=rng.choice([b"11", b"16", b"03", b"08", b"01"]), hits=hits, holds=[[] for _ in range(18)], bcs_s=[], config=cfg, config_rev=rev, Hit=Hit, Hold=Hold)
