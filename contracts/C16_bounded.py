"""C16 bounded stand-ins: timed lists behave like ordered collections of their rows.

Every TimedList subclass of every game (found by introspection) is driven through sequences of list operations;
after every step the REAL list is compared with a plain Python list of row dicts (`rows`) that went through the
same operation written as ordinary list code (slices, comprehensions, min / max, +).  The oracle is the statement's
"plain sequence of the rows"; it never looks at pandas labels.

Functions (all match `--only tl_`):
  tl_ops_<game>     operation sequences, one function per game so that they run in parallel
  tl_constructors   empty(n), from_dict, Cls([items]), Cls(item), L[i], Item.from_series: exactly the declared fields

Clause ids (`what`) - operation sequences:
  len, getitem_int, getitem_negative, getitem_out_of_range_raises, item_class, slice, iter,
  first_offset, last_offset, first_last_offset, hold_head_tail_offset, sorted, append_<form>,
  after, before, between, hold_after, hold_before, hold_between, result_class, no_exception_<kind>,
  receiver_unchanged (the list an operation is called on still holds the same row sequence afterwards),
  append_operand_unchanged,
  inplace_edit_takes_effect, no_exception_set (operation `set`: the SAME list object is edited in place between two
  observations - through the documented list property of a field whose name is taken from the list's own columns
  (`L.offset = [...]`, `L.bpm += d`, a numpy array) or by assigning a new frame (`L.df = ...`); a plain sequence whose
  rows were given those values is what every later observation is compared with), queries_repeatable (the same
  observations made a second time on the same object give the same answers)
Clause ids - constructors:
  empty_exact_fields (suspected F7: extra `index` column), empty_n_rows, empty_defaults,
  empty_list_default_not_nan (suspected F8), empty_list_exact_fields, from_items_exact_fields, from_items_rows,
  from_item_exact_fields, from_dict_exact_fields, from_dict_rows, from_dict_missing_gets_default,
  from_dict_list_default_filled, from_list_exact_fields, from_df_exact_fields, item_carries_row_values,
  from_series_carries_row_values, from_series_ignores_other_names,
  getitem_numpy_int (L[numpy integer] is the row a plain sequence gives for that index)
"""
from __future__ import annotations

import inspect
import math

from pyvc.dsl import bounded
from pyvc.bounded import replayer

GAMES = ["base", "osu", "quaver", "sm", "bms", "o2jam"]


# ----------------------------------------------------------------------------- classes, contents


def _all_list_classes():
    import reamber.osu.lists, reamber.quaver.lists, reamber.sm.lists, reamber.bms.lists, reamber.o2jam.lists  # noqa
    import reamber.osu.lists.notes, reamber.quaver.lists.notes, reamber.sm.lists.notes, reamber.bms.lists.notes, reamber.o2jam.lists.notes  # noqa
    from reamber.base.lists.TimedList import TimedList

    out, todo = [], [TimedList]
    while todo:
        c = todo.pop()
        if c not in out:
            out.append(c)
            todo.extend(c.__subclasses__())
    # abstract intermediate classes (QuaNoteList) cannot be instantiated and have no rows
    return sorted([c for c in out if not inspect.isabstract(c)], key=lambda c: c.__module__ + "." + c.__qualname__)


def _game_of(cls):
    parts = cls.__module__.split(".")
    return parts[1] if len(parts) > 1 and parts[0] == "reamber" else "other"


def _cls_id(cls):
    return cls.__module__ + ":" + cls.__qualname__


def _resolve(cid):
    import importlib

    _all_list_classes()
    mod, name = cid.split(":")
    return getattr(importlib.import_module(mod), name)


def _declared(cls):
    """The class's declared fields: {name: (dtype, default)} through the public props()."""
    p = cls.props()
    return {n: (d, v) for n, d, v in zip(p.names, p.dtypes, p.defaults)}


def _is_hold(cls):
    from reamber.base.lists.notes.HoldList import HoldList

    return issubclass(cls, HoldList)


CONTENTS = {
    # name: (offsets, lengths)
    "empty": ([], []),
    "single": ([100.0], [50.0]),
    "duplicates": ([100.0, 100.0, 50.0, 100.0, 50.0], [50.0, 50.0, 50.0, 0.0, 50.0]),
    "negative_fractional": ([250.25, -100.5, 0.0, -0.75, 1000.125, 99.999], [0.25, 100.5, 0.75, 0.75, 10.0, 0.001]),
    # offsets and tails sitting exactly on the filter bounds 0 / 50 / 100
    "ties_at_bound": ([100.0, 0.0, 50.0, 100.0, 0.0, 200.0, 25.0, -50.0], [0.0, 100.0, 50.0, 100.0, 50.0, 10.0, 25.0, 50.0]),
    # added contents ("light": a smaller set of sequences per class in the operation checks)
    # whole-number offsets / lengths given as python ints (integer-typed columns where the constructor keeps them)
    "int_offsets": ([100, 0, 50, 100, -50, 0], [0, 100, 50, 50, 150, 0]),
    # very large and very small magnitudes, sub-millisecond fractions, values needing > 6 significant digits
    "large_fine": ([1000000000.5, -1000000000.25, 1000000000000.0, 0.001, 1234567.891, 0.0005], [1000000000.0, 0.5, 0.0, 0.001, 0.0004, 99.9995]),
    # the n default rows of Cls.empty(3): all fields at their declared defaults, all offsets equal
    "default_rows": (None, None),
}
LIGHT_CONTENTS = ("int_offsets", "large_fine", "default_rows")
# how the list under test is made: from items; from_dict of records / of columns; from a DataFrame with permuted gappy labels,
# with reversed labels, with DUPLICATE labels, with the columns in another order; as a copy of another list
BUILDS = ["items", "from_dict", "df_gappy", "df_reversed", "from_dict_columns", "df_dup_labels", "df_shuffled_cols", "copy"]


def _value(name, dtype, default, k):
    if name == "column":
        return k % 4
    if name == "bpm":
        return [60.0, 120.0, 180.5][k % 3]
    if name == "metronome":
        return [4.0, 3.0][k % 2]
    if name == "multiplier":
        return [1.0, 0.5, 2.25][k % 3]
    if isinstance(default, list):
        return [f"k{k}"] if k % 2 else []
    if k % 2:
        # dimension 14: in every second row each further field gets a non-default value that no sibling field of the row has (salted by the
        # field's NAME), so that a value carried by the wrong attribute / column shows; the other rows keep the shared small values
        import zlib
        salt = zlib.crc32(name.encode()) % 997 + 1
        if dtype == "int":
            return 5 * salt + (k * 3 + 1) % 5
        if dtype == "float":
            return 10.0 * salt + 0.5 * k + 1
        if dtype in ("str", "object") and isinstance(default, str):
            return f"s{k}_{name}.wav"
    if dtype == "int":
        return (k * 3 + 1) % 5
    if dtype == "float":
        return 0.5 * k + 1
    if dtype == "bool":
        return k % 2 == 0
    if dtype in ("str", "object") and isinstance(default, str):
        return f"s{k}.wav"
    if dtype == "b":
        return [b"0A", b"ZZ", b""][k % 3]
    return default


def _content_rows(cls, content, base=0):
    import copy

    offs, lens = CONTENTS[content]
    decl = _declared(cls)
    if content == "default_rows":
        return [{n: copy.deepcopy(dv) for n, (dt, dv) in decl.items()} for _ in range(3)]
    rows = []
    for k, (o, ln) in enumerate(zip(offs, lens)):
        r = {}
        for n, (dt, dv) in decl.items():
            if n == "offset":
                r[n] = o
            elif n == "length":
                r[n] = ln
            else:
                r[n] = _value(n, dt, dv, k + base)
        # exact duplicates for the duplicates content
        if content == "duplicates" and k == 1:
            r = dict(rows[0])
        rows.append(r)
    return rows


def _build_list(cls, content, build):
    import pandas as pd

    recs = _content_rows(cls, content)
    item = cls._item_class()
    if content == "default_rows" and build in ("items", "from_dict", "from_dict_columns"):
        return cls.empty(len(recs))
    if build == "items" or not recs:
        return cls([item(**r) for r in recs])
    if build == "from_dict":
        return cls.from_dict(recs)
    if build == "from_dict_columns":
        return cls.from_dict({k: [r[k] for r in recs] for k in recs[0]})
    if build == "copy":
        return cls(cls.from_dict(recs))
    n = len(recs)
    cols = list(recs[0].keys())
    if build == "df_gappy":
        labels = [(7 * i + 3) % (3 * n + 1) + 10 for i in range(n)]
    elif build == "df_reversed":
        labels = list(range(n - 1, -1, -1))
    elif build == "df_dup_labels":
        labels = [i // 2 for i in range(n)]
    elif build == "df_shuffled_cols":
        labels = list(range(n))
        cols = cols[1:][::-1] + cols[:1]
    else:
        raise ValueError(build)
    return cls(pd.DataFrame(recs, index=labels, columns=cols))


def _operand_rows(cls):
    """Two fixed rows used as the operand of append."""
    decl = _declared(cls)
    rows = []
    for k, (o, ln) in enumerate([(75.0, 25.0), (-10.5, 110.5)]):
        r = {}
        for n, (dt, dv) in decl.items():
            r[n] = o if n == "offset" else ln if n == "length" else _value(n, dt, dv, k + 7)
        rows.append(r)
    return rows


# ----------------------------------------------------------------------------- value comparison


def _isnan(x):
    return isinstance(x, float) and math.isnan(x)


def _veq(a, b):
    if _isnan(a) or _isnan(b):
        return _isnan(a) and _isnan(b)
    try:
        r = a == b
        if hasattr(r, "all"):
            r = r.all()
        return bool(r)
    except Exception:
        return False


_MISSING = float("nan")


def _req(ra, rb):
    """Row of the real list vs row of the plain sequence.  Plain rows are dicts and may lack a key that another
    row of the sequence has (append of an operand with other fields); a frame shows that as a missing value."""
    return all(_veq(ra.get(k, _MISSING), rb.get(k, _MISSING)) for k in set(ra) | set(rb))


def _rows_eq(a, b):
    return len(a) == len(b) and all(_req(x, y) for x, y in zip(a, b))


def _multiset_eq(a, b):
    if len(a) != len(b):
        return False
    rest = list(b)
    for x in a:
        for i, y in enumerate(rest):
            if _req(x, y):
                del rest[i]
                break
        else:
            return False
    return True


def _rows_of(L):
    return L.df.to_dict("records")


def _show(rows, limit=6):
    def sv(v):
        return v if not isinstance(v, float) else round(v, 6)

    keys = ["offset", "length", "column"]
    out = [{k: sv(r[k]) for k in keys if k in r} | {k: sv(v) for k, v in r.items() if k not in keys and (_isnan(v) or k == "index")} for r in rows[:limit]]
    return f"{out}{'...' if len(rows) > limit else ''} ({len(rows)} rows, fields {sorted(rows[0].keys()) if rows else '-'})"


# ----------------------------------------------------------------------------- the plain-sequence oracle


def _o_filter(rows, t, inc, with_length, lower):
    out = []
    for r in rows:
        key = r["offset"] + (r["length"] if with_length else 0)
        if lower:
            keep = key > t or (inc and key == t)
        else:
            keep = key < t or (inc and key == t)
        if keep:
            out.append(r)
    return out


def _num(x):
    """JSON-able number of an op -> the value handed to the library: python float / int, or a numpy scalar for
    {"np": "float64" | "int64" | "float32", "v": value}"""
    if isinstance(x, dict):
        if "inf" in x:
            return x["inf"] * math.inf
        import numpy as np

        return getattr(np, x["np"])(x["v"])
    return x


def _pl(x):
    """... and the plain python number the oracle compares with"""
    if isinstance(x, dict) and "inf" in x:
        return x["inf"] * math.inf
    return x["v"] if isinstance(x, dict) else x


def _apply(L, rows, op, cls):
    """One chainable operation on the real list and on the plain rows.
    -> (L', rows', failures [(what, detail)]); L' None when the real call raised.
    Also: the receiver (and the operand of append) must hold the same row sequence after the call as before
    (a plain sequence is not changed by slicing, sorted(), +, or a filter)."""
    if op[0] == "set":
        return _apply_set(L, rows, op, cls)
    before = _cells(L)
    L2, rows2, fails = _apply0(L, rows, op, cls)
    try:
        now = _cells(L)
        if not _cells_eq(now, before):
            fails = fails + [("receiver_unchanged", f"{op}: the list the operation was called on held {_show(rows)} before the call and holds {_show(_rows_of(L))} after it")]
    except Exception as ex:  # noqa
        fails = fails + [("receiver_unchanged", f"{op}: reading the receiver after the call raised {type(ex).__name__}: {ex}")]
    return L2, rows2, fails


def _apply_set(L, rows, op, cls):
    """op = ["set", field, route, k]: a legitimate IN-PLACE change of the list object between two observations.
    The field is `offset` / `length` by name or the (number mod n)-th of the names the list's own frame carries (names from
    the data); fields whose values are lists / bytes, and names the list does not have or the class does not declare, are
    replaced by `offset`.  Routes:
      prop   L.<name> = [values]           (the documented list property)
      numpy  L.<name> = numpy.array(values)
      iadd   L.<name> += d                 (numeric fields; others as prop)
      df     L.df = <new frame with that column replaced>
    -> (L, rows', failures): the same object, and the plain rows with those values."""
    import numpy as np

    _, fi, route, k = op
    decl = _declared(cls)
    try:
        cols = [str(c) for c in L.df.columns]
        name = fi if isinstance(fi, str) else cols[fi % len(cols)] if cols else "offset"
        dt, dv = decl.get(name, (None, None))
        if name not in decl or isinstance(dv, (list, dict, set)) or dt == "b" or not (dt in ("int", "float", "bool") or isinstance(dv, str)) or name not in cols:
            name = "offset"
            dt, dv = decl[name]
        cur = [r.get(name) for r in rows]
        n = len(rows)
        numeric = dt in ("int", "float") and all(isinstance(v, (int, float)) and not isinstance(v, bool) and not _isnan(v) for v in cur)
        ints = numeric and n > 0 and all(isinstance(v, int) for v in cur)
        if route == "iadd" and numeric:
            d = 25 if ints else 7.5
            new = [v + d for v in cur]
            setattr(L, name, getattr(L, name) + d)          # what `L.<name> += d` does
        else:
            if name in ("offset", "length"):
                # descending times (the row order is no longer the time order) / lengths incl. 0, dyadic
                new = [(1000 - 13 * ((i + k) % 5) if ints else 1000.0 - 12.5 * ((i + k) % 5)) if name == "offset" else ((i + k) % 3 * 40 if ints else (i + k) % 3 * 40.5) for i in range(n)]
            else:
                new = [_value(name, dt, dv, k + i + 13) for i in range(n)]
            if route == "df":
                L.df = L.df.assign(**{name: new})
            elif route == "numpy" and dt in ("int", "float", "bool"):
                setattr(L, name, np.array(new))
            else:
                setattr(L, name, list(new))
    except Exception as ex:  # noqa
        return None, rows, [("no_exception_set", f"{op} raised {type(ex).__name__}: {ex}")]
    rows2 = [dict(r, **{name: v}) for r, v in zip(rows, new)]
    fails = []
    try:
        g = _rows_of(L)
        if not _rows_eq(g, rows2):
            fails.append(("inplace_edit_takes_effect", f"{op}: after setting field {name!r} to {new[:6]} ({route}) the list holds {_show(g)}, the plain sequence {_show(rows2)}"))
    except Exception as ex:  # noqa
        fails.append(("inplace_edit_takes_effect", f"{op}: reading the list after the edit raised {type(ex).__name__}: {ex}"))
    return L, rows2, fails


def _cells(L):
    """(field names, rows as lists of cell values) - a cheap copy of the row sequence a list holds"""
    df = L.df
    return [str(c) for c in df.columns], [[list(v) if isinstance(v, list) else v for v in row] for row in df.to_numpy(dtype=object).tolist()]


def _cells_eq(a, b):
    if a[0] != b[0] or len(a[1]) != len(b[1]):
        return False
    return all(len(x) == len(y) and all(_veq(u, v) for u, v in zip(x, y)) for x, y in zip(a[1], b[1]))


def _apply0(L, rows, op, cls):
    kind = op[0]
    fails = []
    hold = _is_hold(cls)
    kw = op[-1] == "kw"  # call with keyword arguments instead of positional ones
    try:
        if kind == "slice":
            s = slice(_num(op[1]), _num(op[2]), _num(op[3]))
            got, want, what = L[s], rows[slice(_pl(op[1]), _pl(op[2]), _pl(op[3]))], "slice"
        elif kind == "sorted":
            got = (L.sorted(reverse=op[1]) if kw else L.sorted(op[1])) if op[1] is not None else L.sorted()
            rev = bool(op[1])
            g = _rows_of(got)
            offs = [r["offset"] for r in g]
            mono = all((a >= b) if rev else (a <= b) for a, b in zip(offs[:-1], offs[1:]))
            if not _multiset_eq(g, rows):
                fails.append(("sorted", f"sorted(reverse={rev}) is not a rearrangement of the rows: got {_show(g)} from {_show(rows)}"))
            elif not mono:
                fails.append(("sorted", f"sorted(reverse={rev}) offsets not monotone: {offs}"))
            if type(got) is not type(L):
                fails.append(("result_class", f"sorted returned {type(got).__name__} for {type(L).__name__}"))
            return got, (g if not fails else sorted(rows, key=lambda r: r["offset"], reverse=rev)), fails
        elif kind == "append":
            form, sort = op[1], bool(op[2])
            orows = _operand_rows(cls)
            item = cls._item_class()
            # rows(x): what the operand itself holds
            if form == "list":
                x = cls([item(**r) for r in orows])
                xr = x.df.to_dict("records")
            elif form == "empty_list":
                x, xr = cls([]), []
            elif form == "item":
                x = item(**orows[0])
                xr = [x.data.to_dict()]
            elif form == "series":
                x = item(**orows[1]).data
                xr = [x.to_dict()]
            elif form == "dataframe":
                x = cls([item(**r) for r in orows]).df
                xr = x.to_dict("records")
            elif form == "self":
                x, xr = L, list(rows)
            else:
                raise ValueError(form)
            x_before = [dict(r) for r in xr]
            got = L.append(x, sort=True) if sort else (L.append(x, sort=False) if kw else L.append(x))
            what = "append_" + form + ("_sort" if sort else "")
            want = rows + xr
            if form != "self":
                x_now = x.to_dict("records") if form == "dataframe" else [x.to_dict()] if form == "series" else [x.data.to_dict()] if form == "item" else x.df.to_dict("records")
                if not _rows_eq(x_now, x_before):
                    fails.append(("append_operand_unchanged", f"{op}: the appended operand held {_show(x_before)} before the call and holds {_show(x_now)} after it"))
            if sort:
                g = _rows_of(got)
                offs = [r["offset"] for r in g]
                if not _multiset_eq(g, want) or any(a > b for a, b in zip(offs[:-1], offs[1:])):
                    fails.append((what, f"append(sort=True): got {_show(g)}, want the rows + operand sorted by offset {_show(sorted(want, key=lambda r: r['offset']))}"))
                if type(got) is not type(L):
                    fails.append(("result_class", f"append returned {type(got).__name__} for {type(L).__name__}"))
                return got, (g if not fails else sorted(want, key=lambda r: r["offset"])), fails
        elif kind == "after":
            t, inc, tp = _num(op[1]), op[2], _pl(op[1])
            if hold and op[3] is not None:
                # include_end left at its default (False) when inc is None
                got = L.after(t, include_end=inc, include_tail=op[3]) if inc is not None else L.after(t, include_tail=op[3])
                want, what = _o_filter(rows, tp, bool(inc), op[3], True), "hold_after"
            else:
                got = (L.after(offset=t, include_end=inc) if kw else L.after(t, inc)) if inc is not None else (L.after(offset=t) if kw else L.after(t))
                want, what = _o_filter(rows, tp, bool(inc), False, True), "after"
        elif kind == "before":
            t, inc, tp = _num(op[1]), op[2], _pl(op[1])
            if hold and op[3] is not None:
                got = L.before(t, include_end=inc, include_head=op[3]) if inc is not None else L.before(t, include_head=op[3])
                want, what = _o_filter(rows, tp, bool(inc), not op[3], False), "hold_before"
            else:
                got = (L.before(offset=t, include_end=inc) if kw else L.before(t, inc)) if inc is not None else (L.before(offset=t) if kw else L.before(t))
                want, what = _o_filter(rows, tp, bool(inc), False, False), "before"
        elif kind == "between":
            lo, hi, ends = _num(op[1]), _num(op[2]), op[3]
            lop, hip = _pl(op[1]), _pl(op[2])
            e = tuple(ends) if isinstance(ends, (list, tuple)) else ends
            e0, e1 = (e, e) if isinstance(e, bool) else (True, False) if e is None else e
            if hold and op[4] is not None:
                head, tail = op[4], op[5]
                if kw:
                    got = L.between(lower_bound=lo, upper_bound=hi, include_ends=e, include_head=head, include_tail=tail) if e is not None else L.between(lower_bound=lo, upper_bound=hi, include_head=head, include_tail=tail)
                else:
                    got = L.between(lo, hi, e, head, tail) if e is not None else L.between(lo, hi, include_head=head, include_tail=tail)
                want = _o_filter(_o_filter(rows, lop, e0, tail, True), hip, e1, not head, False)
                what = "hold_between"
            else:
                if kw:
                    got = L.between(lower_bound=lo, upper_bound=hi, include_ends=e) if e is not None else L.between(lower_bound=lo, upper_bound=hi)
                else:
                    got = L.between(lo, hi, e) if e is not None else L.between(lo, hi)
                want = _o_filter(_o_filter(rows, lop, e0, False, True), hip, e1, False, False)
                what = "between"
        else:
            raise ValueError(kind)
    except Exception as ex:  # noqa
        return None, rows, [("no_exception_" + kind, f"{op} raised {type(ex).__name__}: {ex}")]
    g = _rows_of(got)
    if not _rows_eq(g, want):
        fails.append((what, f"{op}: got {_show(g)}, plain sequence gives {_show(want)}"))
    if type(got) is not type(L):
        fails.append(("result_class", f"{kind} returned {type(got).__name__} for {type(L).__name__}"))
    return got, want, fails


def _item_matches(it, row, decl):
    for n in decl:
        try:
            v = getattr(it, n)
        except Exception as ex:  # noqa
            return f"field {n}: {type(ex).__name__}"
        if n not in row or not _veq(v, row[n]):
            return f"field {n}: item has {v!r}, row has {row.get(n)!r}"
    return None


def _queries(L, rows, cls):
    """All non-chainable observations on the current list against the plain rows."""
    fails = []
    decl = _declared(cls)
    n = len(rows)
    item_cls = cls._item_class()
    hold = _is_hold(cls)
    # len
    try:
        if len(L) != n:
            fails.append(("len", f"len is {len(L)}, the rows are {n}"))
    except Exception as ex:  # noqa
        fails.append(("len", f"len raised {type(ex).__name__}: {ex}"))
    # positional indexing
    idx = sorted({0, n - 1, n // 2, 1} & set(range(n)))
    for i in idx + [i - n for i in idx]:
        what = "getitem_int" if i >= 0 else "getitem_negative"
        try:
            it = L[i]
        except Exception as ex:  # noqa
            fails.append((what, f"L[{i}] raised {type(ex).__name__}: {ex}"))
            continue
        m = _item_matches(it, rows[i], decl)
        if m:
            fails.append((what, f"L[{i}] is not row {i} of the plain sequence: {m}"))
        if type(it) is not item_cls:
            fails.append(("item_class", f"L[{i}] is a {type(it).__name__}, the list's item class is {item_cls.__name__}"))
    for i in (n, -n - 1):
        try:
            it = L[i]
            fails.append(("getitem_out_of_range_raises", f"L[{i}] on {n} rows returned {it!r} (a plain sequence raises IndexError)"))
        except Exception:  # noqa
            pass
    # iteration
    try:
        its = list(iter(L))
        if len(its) != n:
            fails.append(("iter", f"iteration yields {len(its)} items for {n} rows"))
        else:
            for i, it in enumerate(its):
                m = _item_matches(it, rows[i], decl)
                if m:
                    fails.append(("iter", f"item {i} of the iteration is not row {i}: {m}"))
                    break
                if type(it) is not item_cls:
                    fails.append(("item_class", f"iteration yields {type(it).__name__}, the list's item class is {item_cls.__name__}"))
                    break
    except Exception as ex:  # noqa
        fails.append(("iter", f"iteration raised {type(ex).__name__}: {ex}"))

    # first / last: min / max over the plain rows; on an empty sequence min/max raise, so the list must give
    # "no value" (None or an exception), never a number
    def ends(name, call, want_fn):
        try:
            want = want_fn()
            have_want = True
        except ValueError:
            have_want = False
        try:
            got = call()
            raised = None
        except Exception as ex:  # noqa
            raised = ex
        if have_want:
            if raised is not None:
                fails.append((name, f"raised {type(raised).__name__}: {raised}; plain sequence gives {want}"))
            else:
                ok = all(_veq(g, w) for g, w in zip(got, want)) and len(got) == len(want) if isinstance(want, tuple) else _veq(got, want)
                if not ok:
                    fails.append((name, f"got {got}, plain sequence gives {want}"))
        else:
            if raised is None and not (got is None or (isinstance(got, tuple) and all(g is None for g in got))):
                fails.append((name, f"on an empty list got {got}; a plain sequence has no min/max"))

    last_key = (lambda r: r["offset"] + r["length"]) if hold else (lambda r: r["offset"])
    ends("first_offset", L.first_offset, lambda: min(r["offset"] for r in rows))
    ends("last_offset", L.last_offset, lambda: max(last_key(r) for r in rows))
    ends("first_last_offset", L.first_last_offset, lambda: (min(r["offset"] for r in rows), max(last_key(r) for r in rows)))
    if hold:
        try:
            h, t = list(L.head_offset), list(L.tail_offset)
            if not (len(h) == n and all(_veq(a, r["offset"]) for a, r in zip(h, rows))):
                fails.append(("hold_head_tail_offset", f"head_offset {h} is not the rows' offsets"))
            if not (len(t) == n and all(_veq(a, r["offset"] + r["length"]) for a, r in zip(t, rows))):
                fails.append(("hold_head_tail_offset", f"tail_offset {t} is not the rows' offset + length"))
        except Exception as ex:  # noqa
            fails.append(("hold_head_tail_offset", f"raised {type(ex).__name__}: {ex}"))
    return fails


# ----------------------------------------------------------------------------- operation instances

BOUNDS = [0.0, 100.0, 50.0, -0.75, 99999.0]
SLICES = [(0, 2, None), (1, None, None), (None, -1, None), (None, None, 2), (2, 1, None), (-2, None, None), (None, None, -1), (None, None, None)]
ENDS = [[True, False], [False, True], [True, True], [False, False], True, False, None]


# added: bounds given as python int / numpy scalars (the same numbers as above, so that they sit on rows), a very large bound
NP50, NP100, NPI0 = {"np": "float64", "v": 50.0}, {"np": "float32", "v": 100.0}, {"np": "int64", "v": 0}
INF_POS, INF_NEG = {"inf": 1}, {"inf": -1}   # the extremes of a float bound: after(-inf) keeps every row, after(+inf) none
TYPED_BOUNDS = [50, 0, NP50, NP100, NPI0, 1000000000.5, INF_POS, INF_NEG]
SET_ROUTES = ["prop", "iadd", "df", "numpy"]


def _instances(kind, hold):
    if kind == "slice":
        return [["slice", *s] for s in SLICES] + [["slice", {"np": "int64", "v": 1}, {"np": "int64", "v": 3}, None], ["slice", None, None, {"np": "int64", "v": -2}], ["slice", -1000, 1000, None]]
    if kind == "sorted":
        return [["sorted", False], ["sorted", True], ["sorted", None], ["sorted", True, "kw"], ["sorted", False, "kw"]]
    if kind == "append":
        return ([["append", f, False] for f in ("list", "empty_list", "item", "series", "dataframe", "self")] + [["append", "list", True], ["append", "item", True]]
                + [["append", f, True] for f in ("self", "series", "dataframe", "empty_list")] + [["append", "list", False, "kw"]])
    if kind in ("after", "before"):
        out = [[kind, t, inc, None] for t in BOUNDS for inc in (False, True)] + [[kind, 50.0, None, None]]
        if hold:
            out += [[kind, t, inc, v] for t in BOUNDS[:3] for inc in (False, True) for v in (False, True)]
        out += [[kind, t, inc, None] for t in TYPED_BOUNDS for inc in (False, True)]
        out += [[kind, t, inc, None, "kw"] for t in (100.0, NP50) for inc in (False, True, None)]
        if hold:
            # the head / tail flag alone (include_end at its default), typed bounds
            out += [[kind, t, None, v] for t in (50.0, 100.0, 0.0) for v in (False, True)]
            out += [[kind, t, inc, v] for t in (50, NP100) for inc in (False, True) for v in (False, True)]
        return out
    if kind == "between":
        spans = [(0.0, 100.0), (50.0, 50.0), (100.0, 0.0), (-0.75, 250.25)]
        typed = [(0, 100), (NPI0, NP100), (NP50, 50), (-1000000000.25, 1000000000.5), (INF_NEG, INF_POS), (INF_NEG, 50.0), (0.0, INF_POS)]
        out = []
        if not hold:
            out = [["between", lo, hi, e, None, None] for lo, hi in spans for e in ENDS]
            out += [["between", lo, hi, e, None, None] for lo, hi in typed for e in ENDS[:4]]
            out += [["between", lo, hi, e, None, None, "kw"] for lo, hi in spans[:2] for e in ENDS]
        else:
            # HoldList.between declares a tuple for include_ends
            out = [["between", lo, hi, e, None, None] for lo, hi in spans for e in ENDS if not isinstance(e, bool)]
            out += [["between", lo, hi, e, h, t] for lo, hi in spans[:2] for e in ENDS[:4] for h in (False, True) for t in (False, True)]
            out += [["between", lo, hi, e, None, None] for lo, hi in typed for e in ENDS[:4]]
            out += [["between", lo, hi, e, h, t, "kw"] for lo, hi in (spans[0], typed[1]) for e in ENDS[:4] + [None] for h in (False, True) for t in (False, True)]
        return out
    if kind == "set":
        # `offset` / `length` (what every observation depends on) by name; the numbers reach every field name the frame carries
        return [["set", fi, route, k] for fi in ("offset", "offset", "offset", "length", 0, 1, 2, 3, 4, 5, 6, 7) for route in SET_ROUTES for k in (0, 1)]
    raise ValueError(kind)


KINDS = ["slice", "sorted", "append", "after", "before", "between"]


def _run_case(case):
    """case: dict(cls, content, build, ops=[...]) -> [(what, detail, step)]; queries are evaluated after every step."""
    cls = _resolve(case["cls"])
    failed = []
    try:
        L = _build_list(cls, case["content"], case["build"])
        rows = _rows_of(L)
    except Exception as ex:  # noqa
        return [("no_exception_build", f"building {case['content']} via {case['build']} raised {type(ex).__name__}: {ex}", 0)]
    if not case["ops"]:
        failed += [(w, d, 0) for w, d in _queries(L, rows, cls)]
    for k, op in enumerate(case["ops"]):
        L2, rows2, fails = _apply(L, rows, op, cls)
        failed += [(w, f"step {k + 1}: {d}", k + 1) for w, d in fails]
        if L2 is None:
            break
        # after a failing step continue from what the real list holds, so that one defect is not reported
        # again under the clauses of the later steps
        L, rows = L2, (_rows_of(L2) if fails else rows2)
        if k == len(case["ops"]) - 1 or case.get("queries_every_step"):
            first = _queries(L, rows, cls)
            failed += [(w, f"after step {k + 1}: {d}", k + 1) for w, d in first]
            if case.get("queries_twice") and k == len(case["ops"]) - 1:
                # the same object observed a second time: the same answers (nothing above changes the list)
                second = _queries(L, rows, cls)
                if [w for w, _ in second] != [w for w, _ in first]:
                    failed.append(("queries_repeatable", f"after step {k + 1}: the first round of observations failed {[w for w, _ in first]}, the second round on the same object {[(w, d) for w, d in second][:3]}", k + 1))
    seen, uniq = set(), []
    for w, d, k in failed:
        if w not in seen:
            seen.add(w)
            uniq.append((w, d, k))
    return uniq


def _core_instances(kind, hold):
    """A smaller parameter set per kind for the exhaustive length-2 products of the thorough tier."""
    if kind == "slice":
        return [["slice", *s] for s in SLICES if s in ((0, 2, None), (1, None, None), (None, -1, None), (None, None, 2), (None, None, -1))]
    if kind == "sorted":
        return [["sorted", False], ["sorted", True]]
    if kind == "append":
        return [["append", f, False] for f in ("list", "item", "series", "dataframe")] + [["append", "list", True]]
    if kind in ("after", "before"):
        out = [[kind, t, inc, None] for t in (0.0, 100.0) for inc in (False, True)]
        if hold:
            out += [[kind, t, inc, v] for t in (50.0, 100.0) for inc in (False, True) for v in (False, True)]
        return out
    if kind == "between":
        out = [["between", 0.0, 100.0, e, None, None] for e in ENDS[:4]]
        if not hold:
            out += [["between", 0.0, 100.0, True, None, None]]
        else:
            out += [["between", 0.0, 100.0, e, h, t] for e in ENDS[:4] for h, t in ((False, False), (False, True), (True, True))]
        return out
    raise ValueError(kind)


def _sequences(rng, hold, tier, light=False):
    """Operation sequences.
    quick:    every sequence of kinds of length <= 2, two seeded parameter draws each, + 40 seeded sequences of length 3
    thorough: every parameterised instance alone, every pair of core instances, every sequence of kinds of length 3
              (two seeded parameter draws each)
    light (the added contents): every kind alone (2 / 6 draws) + 30 / 400 seeded sequences of length 2-3"""
    inst = {k: _instances(k, hold) for k in KINDS + ["set"]}
    kinds_set = KINDS + ["set", "set"]          # the seeded sequences also draw in-place edits (2 / 8 of the steps)
    yield []
    if light:
        for a in KINDS:
            for _ in range(2 if tier == "quick" else 6):
                yield [rng.choice(inst[a])]
        for a in rng.sample(KINDS, 3) if tier == "quick" else KINDS:
            yield [rng.choice(inst[a]), rng.choice(inst["set"]), rng.choice(inst[a])]
        for _ in range(30 if tier == "quick" else 400):
            yield [rng.choice(inst[rng.choice(kinds_set)]) for _ in range(rng.choice((2, 3)))]
        return
    if tier == "quick":
        # observe - edit the same object in place - observe again: every kind before and after an edit
        for a in KINDS:
            yield [rng.choice(inst[a]), rng.choice(inst["set"]), rng.choice(inst[a])]
            yield [rng.choice(inst["set"]), rng.choice(inst[a])]
        for a in KINDS:
            for _ in range(2):
                yield [rng.choice(inst[a])]
            for b in KINDS:
                for _ in range(2):
                    yield [rng.choice(inst[a]), rng.choice(inst[b])]
        for _ in range(40):
            yield [rng.choice(inst[rng.choice(kinds_set)]) for _ in range(3)]
    else:
        for a in inst["set"]:
            yield [a]
            b = rng.choice(KINDS)
            yield [rng.choice(inst[b]), a, rng.choice(inst[b])]
        for a in KINDS:
            for b in KINDS:
                yield [rng.choice(inst[a]), rng.choice(inst["set"]), rng.choice(inst[b])]
                yield [rng.choice(inst["set"]), rng.choice(inst[a]), rng.choice(inst["set"]), rng.choice(inst[b])]
        for k in KINDS:
            for a in inst[k]:
                yield [a]
        core = [i for k in KINDS for i in _core_instances(k, hold)]
        for a in core:
            for b in core:
                yield [a, b]
        for a in KINDS:
            for b in KINDS:
                for c in KINDS:
                    for _ in range(2):
                        yield [rng.choice(inst[a]), rng.choice(inst[b]), rng.choice(inst[c])]


def _ops_for_game(game):
    def fn(rep):
        rng = rep.rng
        classes = [c for c in _all_list_classes() if _game_of(c) == game]
        rep.bound = (
            f"{len(classes)} list classes of {game} ({', '.join(c.__name__ for c in classes)}) x contents {list(CONTENTS)} ({', '.join(LIGHT_CONTENTS)}: int-typed, 1e9..1e12 / sub-ms, Cls.empty(3) rows; "
            f"lighter: each kind alone + {'30' if rep.tier == 'quick' else '400'} seeded sequences of length 2-3) x builds {BUILDS} (default / permuted gappy / reversed / DUPLICATE row labels, other column order, dict of columns, copy); "
            f"parameters incl. bounds as python int / numpy float64 / float32 / int64 and 1e9, numpy ints in slices, keyword-argument calls, hold head / tail flag alone; "
            + ("every sequence of operation kinds of length <= 2 over {slice, sorted, append, after, before, between} (2 seeded parameter draws each) + 40 seeded sequences of length 3 per (class, content)"
               if rep.tier == "quick" else
               "every parameterised operation alone, every pair of core parameterised operations, every sequence of kinds of length 3 (2 seeded parameter draws each) per (class, content)")
            + "; in-place edits of the SAME list object between observations (quick: every kind before and after one, and 2 in 8 steps of the seeded sequences; thorough: every edit instance alone and between two operations, every pair of kinds around one): "
            f"a field named by the list's own columns set through its list property (list / numpy array / += d) or by assigning a new frame (routes {SET_ROUTES}), new offsets in descending order; bounds +inf / -inf; "
            "every 5th sequence: all observations a second time on the final object"
            + "; after EVERY step: len, [i] for first/second/middle/last/negative/out-of-range i, iteration, first/last/first_last offset, hold head/tail; "
            "after EVERY operation: the receiver (and the operand of append) still holds the row sequence it held before the call"
        )
        rep.rule = "a case is (class, content, build, operation sequence); non-trivial when the content is not empty and there is at least one operation"
        # round robin over (class, content) so that a time cut never leaves a class unvisited
        gens = []
        for cls in classes:
            for content in CONTENTS:
                gens.append([cls, content, _sequences(rng, _is_hold(cls), rep.tier, light=content in LIGHT_CONTENTS), 0])
        alive = True
        while alive and not rep.extra.get("stopped_early"):
            alive = False
            for g in gens:
                cls, content, it, k = g
                ops = next(it, None)
                if ops is None:
                    continue
                alive = True
                if rep.out_of_time(45, 600):
                    rep.extra["stopped_early"] = True
                    break
                g[3] += 1
                case = dict(cls=_cls_id(cls), content=content, build=BUILDS[(k + len(content)) % len(BUILDS)], ops=ops, queries_every_step=True)
                if ops and k % 5 == 0:
                    case["queries_twice"] = True
                rep.case(case, nontrivial=bool(ops) and content != "empty")
                for what, d, step in _run_case(case):
                    short = dict(case, ops=ops[:step]) if step else case
                    rep.fail(what, short, d)
                    cnt = rep.extra.setdefault("failing_cases_by_clause", {})
                    cnt[what] = cnt.get(what, 0) + 1
        rep.extra["classes"] = [c.__name__ for c in classes]
        rep.extra["sequences_per_class_content"] = min(g[3] for g in gens) if gens else 0

    fn.__name__ = f"tl_ops_{game}"
    fn.__qualname__ = fn.__name__
    return fn


def _replay_ops(case, what):
    failed = _run_case(case)
    hit = [d for w, d, _ in failed if w == what]
    return (bool(hit), hit[0] if hit else "passes")


for _g in GAMES:
    _f = _ops_for_game(_g)
    bounded("C16", note=f"operation sequences on every list class of {_g} against the plain list of row dicts")(_f)
    replayer(_f.__name__)(_replay_ops)


# ----------------------------------------------------------------------------- constructors


def _fields_problem(L, decl):
    cols = list(L.df.columns)
    if sorted(map(str, cols)) != sorted(decl):
        extra = [c for c in cols if c not in decl]
        missing = [c for c in decl if c not in cols]
        return f"fields {cols}; declared {list(decl)}; extra {extra}, missing {missing}"
    return None


def _run_ctor(case):
    """case: dict(cls, ctor, n / content) -> [(what, detail)]"""
    import pandas as pd

    import copy

    cls = _resolve(case["cls"])
    decl = copy.deepcopy(_declared(cls))  # own copies of list-valued defaults: the calls below must not be able to edit the oracle's
    item_cls = cls._item_class()
    ctor = case["ctor"]
    failed = []

    def guard(what, thunk):
        try:
            return thunk()
        except Exception as ex:  # noqa
            failed.append((what, f"raised {type(ex).__name__}: {ex}"))
            return None

    if ctor == "empty":
        n = case["n"]
        if case.get("after_editing_previous"):
            # the same call made before in this process, and its result edited in place (every cell overwritten, list-valued
            # cells extended): the next call must again give n rows of declared defaults
            def edit_previous():
                P = cls.empty(n)
                for name, (dt, dv) in decl.items():
                    if name not in P.df.columns:
                        continue
                    for cell in P.df[name].tolist():
                        if isinstance(cell, list):
                            cell.append("edited")
                    if not isinstance(dv, (list, dict, set)):
                        P.df[name] = [_value(name, dt, dv, 11)] * len(P.df)
                return P

            guard("empty_exact_fields", edit_previous)
        L = guard("empty_exact_fields", lambda: cls.empty(n))
        if L is not None:
            p = _fields_problem(L, decl)
            if p:
                failed.append(("empty_exact_fields", f"empty({n}): {p}"))
            if len(L.df) != n:
                failed.append(("empty_n_rows", f"empty({n}) has {len(L.df)} rows"))
            for r in _rows_of(L):
                for name, (dt, dv) in decl.items():
                    if name not in r:
                        continue
                    if isinstance(dv, (list, dict, set)):
                        if _isnan(r[name]) or r[name] is None:
                            failed.append(("empty_list_default_not_nan", f"empty({n}): default row has {name}={r[name]!r}, declared default {dv!r}"))
                        elif not _veq(r[name], dv):
                            failed.append(("empty_defaults", f"empty({n}): {name}={r[name]!r}, declared default {dv!r}"))
                    elif not _veq(r[name], dv):
                        failed.append(("empty_defaults", f"empty({n}): {name}={r[name]!r}, declared default {dv!r}"))
    elif ctor == "empty_list":
        L = guard("empty_list_exact_fields", lambda: cls([]))
        if L is not None:
            p = _fields_problem(L, decl)
            if p or len(L.df) != 0:
                failed.append(("empty_list_exact_fields", f"Cls([]): {p or ''} rows {len(L.df)}"))
    elif ctor in ("items", "item", "list", "df"):
        recs = _content_rows(cls, case["content"])
        if ctor == "item":
            recs = recs[:1]
        what_f = {"items": "from_items_exact_fields", "item": "from_item_exact_fields", "list": "from_list_exact_fields", "df": "from_df_exact_fields"}[ctor]

        def mk():
            items = [item_cls(**r) for r in recs]
            if ctor == "items":
                return cls(items)
            if ctor == "item":
                return cls(items[0])
            # copy constructors: from a source that has the declared fields (from_dict), so that a finding of
            # the item constructor is not reported a second time here
            src = cls.from_dict(recs) if recs else cls([])
            if ctor == "list":
                return cls(src)
            return cls(src.df)

        L = guard(what_f, mk)
        if L is not None:
            p = _fields_problem(L, decl)
            if p:
                failed.append((what_f, f"{ctor}: {p}"))
            g = [{k: v for k, v in r.items() if k in decl} for r in _rows_of(L)]
            if not _rows_eq(g, recs):
                failed.append(("from_items_rows", f"{ctor}: rows {_show(g)}, the items given {_show(recs)}"))
    elif ctor in ("from_dict_records", "from_dict_columns", "from_dict_partial", "from_dict_empty"):
        recs = _content_rows(cls, case.get("content", "empty"))
        drop = []
        if ctor == "from_dict_partial":
            drop = [n for n in decl if n not in ("offset",)][: max(1, (len(decl) - 1 + 1) // 2)]
            drop = case.get("drop", drop)
        given = [{k: v for k, v in r.items() if k not in drop} for r in recs]
        if ctor == "from_dict_columns":
            arg = {k: [r[k] for r in given] for k in given[0]} if given else {}
        elif ctor == "from_dict_empty":
            arg, given, recs = ([] if case.get("n", 0) == 0 else {}), [], []
        else:
            arg = given
        if case.get("after_editing_previous"):
            # the same call made before in this process and the list-valued cells of its result extended in place
            def edit_previous():
                P = cls.from_dict(arg)
                for name in P.df.columns:
                    for cell in P.df[name].tolist():
                        if isinstance(cell, list):
                            cell.append("edited")

            try:
                edit_previous()
            except Exception:  # noqa  (a raising call is reported by the call below)
                pass
        L = guard("from_dict_exact_fields", lambda: cls.from_dict(arg))
        if L is not None:
            p = _fields_problem(L, decl)
            if p:
                failed.append(("from_dict_exact_fields", f"{ctor}: {p}"))
            g = _rows_of(L)
            if len(g) != len(recs):
                failed.append(("from_dict_rows", f"{ctor}: {len(g)} rows for {len(recs)} records"))
            else:
                for i, (gr, wr) in enumerate(zip(g, given)):
                    bad = [k for k in wr if k not in gr or not _veq(gr[k], wr[k])]
                    if bad:
                        failed.append(("from_dict_rows", f"{ctor}: row {i} fields {bad}: got {[gr.get(k) for k in bad]}, given {[wr[k] for k in bad]}"))
                        break
                for i, gr in enumerate(g):
                    for name in drop:
                        if name not in gr:
                            continue
                        dv = decl[name][1]
                        if isinstance(dv, (list, dict, set)) and (_isnan(gr[name]) or gr[name] is None):
                            failed.append(("from_dict_list_default_filled", f"{ctor}: row {i} {name}={gr[name]!r}, declared default {dv!r}"))
                        elif not _veq(gr[name], dv):
                            failed.append(("from_dict_missing_gets_default", f"{ctor}: row {i} {name}={gr[name]!r}, declared default {dv!r}"))
        elif drop and any(isinstance(decl[n][1], (list, dict, set)) for n in drop):
            # the exception came from a list-valued default: its own clause
            w, d = failed.pop()
            failed.append(("from_dict_list_default_filled", f"{ctor} without {drop}: {d}"))
    elif ctor in ("from_dict_foreign", "from_dict_ragged", "from_dict_reordered"):
        # inputs whose keys are not simply "all declared fields, in declared order, in every record"
        recs = _content_rows(cls, case["content"])
        form = case.get("form", "records")
        rejected_ok = False
        if ctor == "from_dict_foreign":
            # a name that is not a declared field next to declared ones (misspelt / game-foreign / left-over label column).  The
            # statement fixes the fields of whatever list comes back; a rejection (exception) is not a list and asserts nothing.
            extra = case["extra"]
            keep = list(decl) if case.get("keep") == "all" else ["offset"]
            given = [{**{k: v for k, v in r.items() if k in keep}, extra: 7} for r in recs]
            rejected_ok = True
        elif ctor == "from_dict_ragged":
            # every second record leaves out the non-offset fields (a legal list of dicts)
            given = [({k: v for k, v in r.items() if k == "offset"} if i % 2 else dict(r)) for i, r in enumerate(recs)]
        else:
            given = [dict(reversed(list(r.items()))) for r in recs]
        arg = {k: [r[k] for r in given] for k in given[0]} if form == "columns" else given
        try:
            L = cls.from_dict(arg)
        except Exception as ex:  # noqa
            L = None
            if not rejected_ok:
                failed.append(("from_dict_exact_fields", f"{ctor} ({form}): raised {type(ex).__name__}: {ex}"))
        if L is not None:
            p = _fields_problem(L, decl)
            if p:
                failed.append(("from_dict_exact_fields", f"{ctor} ({form}, given keys {sorted({k for r in given for k in r})}): {p}"))
            g = _rows_of(L)
            if len(g) != len(recs):
                failed.append(("from_dict_rows", f"{ctor}: {len(g)} rows for {len(recs)} records"))
            else:
                for i, (gr, wr) in enumerate(zip(g, given)):
                    bad = [k for k in wr if k in decl and (k not in gr or not _veq(gr[k], wr[k]))]
                    if bad:
                        failed.append(("from_dict_rows", f"{ctor}: row {i} fields {bad}: got {[gr.get(k) for k in bad]}, given {[wr[k] for k in bad]}"))
                        break
    elif ctor in ("getitem", "from_series"):
        recs = _content_rows(cls, case["content"])
        L = guard("item_carries_row_values", lambda: _build_list(cls, case["content"], case.get("build", "items")))
        if L is not None:
            rows = _rows_of(L)
            for i in range(len(rows)):
                if ctor == "getitem":
                    it = guard("item_carries_row_values", lambda: L[i])
                    if it is None:
                        break
                    m = _item_matches(it, rows[i], decl)
                    if m or type(it) is not item_cls:
                        failed.append(("item_carries_row_values", f"L[{i}] ({type(it).__name__}): {m}"))
                        break
                    # the same position given as a numpy integer (as np.argmin / np.arange / len arithmetic produce): a plain
                    # sequence accepts it (operator.index) and returns the same row
                    import numpy as np

                    for j in (np.int64(i), np.int32(i - len(rows))):
                        try:
                            it2 = L[j]
                            m2 = _item_matches(it2, rows[i], decl) if type(it2) is item_cls else f"returned a {type(it2).__name__}"
                        except Exception as ex:  # noqa
                            m2 = f"raised {type(ex).__name__}: {ex}"
                        if m2:
                            failed.append(("getitem_numpy_int", f"L[{type(j).__name__}({int(j)})] on {len(rows)} rows: {m2}; the plain sequence of rows gives row {i} for that index"))
                            break
                else:
                    row = L.df.iloc[i]
                    it = guard("from_series_carries_row_values", lambda: item_cls.from_series(row))
                    if it is None:
                        break
                    m = _item_matches(it, rows[i], decl)
                    if m or type(it) is not item_cls:
                        failed.append(("from_series_carries_row_values", f"{item_cls.__name__}.from_series(row {i}) ({type(it).__name__}): {m}"))
                        break
                    row2 = pd.concat([row, pd.Series({"index": 5, "not_a_field": "x"})])
                    it2 = guard("from_series_ignores_other_names", lambda: item_cls.from_series(row2))
                    if it2 is None:
                        break
                    m = _item_matches(it2, rows[i], decl)
                    extra = [k for k in it2.data.index if k in ("index", "not_a_field")]
                    if m or extra:
                        failed.append(("from_series_ignores_other_names", f"from_series(row {i} + other names): {m or ''} carried {extra}"))
                        break
    else:
        raise ValueError(ctor)
    seen, uniq = set(), []
    for w, d in failed:
        if w not in seen:
            seen.add(w)
            uniq.append((w, d))
    return uniq


@bounded("C16", note="constructors of every list class: empty(n), Cls([]), Cls([items]), Cls(item), Cls(list), Cls(df), from_dict (records / columns / partial / empty), L[i], Item.from_series: exactly the declared fields, n rows, given values / declared defaults")
def tl_constructors(rep):
    classes = _all_list_classes()
    rep.bound = (f"{len(classes)} list classes found by walking TimedList.__subclasses__(): empty(n) n in 0,1,3,7 and again (also from_dict) after the previous result was edited in place; Cls([]); items/item/list/df, "
                 f"from_dict records/columns/partial/empty, from_dict with a key that is not a declared field of the class (made-up, misspelt, other case, 'index', fields of other classes) next to all / only one "
                 f"declared field, ragged records, keys in reverse order; getitem (python int, numpy int64 / negative int32) and from_series on the contents {list(CONTENTS)} x builds {BUILDS[:3]} and 3 contents x builds {BUILDS[3:]}; "
                 f"round robin over the classes, original and added cases interleaved")
    rep.rule = "a case is (class, constructor form, size or content); non-trivial when at least one row is built"
    rep.exhaustive = True
    OLD_BUILDS, OLD_CONTENTS = BUILDS[:3], [c for c in CONTENTS if c not in LIGHT_CONTENTS]
    per_class = []
    for cls in classes:
        cid = _cls_id(cls)
        # (a) the original enumeration
        cases = [dict(cls=cid, ctor="empty", n=n) for n in (0, 1, 3, 7)] + [dict(cls=cid, ctor="empty_list")]
        cases += [dict(cls=cid, ctor="from_dict_empty", n=n) for n in (0, 1)]
        for content in OLD_CONTENTS:
            for ctor in ("items", "item", "list", "df", "from_dict_records", "from_dict_columns", "from_dict_partial"):
                if content == "empty" and ctor in ("item", "from_dict_partial", "from_dict_columns"):
                    continue
                cases.append(dict(cls=cid, ctor=ctor, content=content))
            for b in OLD_BUILDS:
                cases.append(dict(cls=cid, ctor="getitem", content=content, build=b))
                cases.append(dict(cls=cid, ctor="from_series", content=content, build=b))
        # from_dict with every single declared field left out (defaults one by one)
        for name in _declared(cls):
            if name != "offset":
                cases.append(dict(cls=cid, ctor="from_dict_partial", content="negative_fractional", drop=[name]))
        # (b) added dimensions
        new = [dict(cls=cid, ctor="empty", n=n, after_editing_previous=True) for n in (2, 3)]
        new += [dict(cls=cid, ctor="from_dict_partial", content="negative_fractional", after_editing_previous=True),
                dict(cls=cid, ctor="from_dict_records", content="duplicates", after_editing_previous=True)]
        # from_dict with a key that is not a declared field of THIS class, next to declared ones
        others = sorted({n for c2 in classes for n in _declared(c2)} - set(_declared(cls)))
        for k, extra in enumerate(["not_a_field", "offsets", "index", "Offset"] + others[:3]):
            new.append(dict(cls=cid, ctor="from_dict_foreign", content="negative_fractional", extra=extra, form="records", keep="all"))
            new.append(dict(cls=cid, ctor="from_dict_foreign", content="negative_fractional", extra=extra, form="columns", keep=("offset", "all")[k % 2]))
            new.append(dict(cls=cid, ctor="from_dict_foreign", content="duplicates", extra=extra, form="records", keep="offset"))
        new.append(dict(cls=cid, ctor="from_dict_foreign", content="single", extra="not_a_field", form="records", keep="all"))
        for content in ("negative_fractional", "duplicates", "int_offsets"):
            new.append(dict(cls=cid, ctor="from_dict_ragged", content=content))
            for form in ("records", "columns"):
                new.append(dict(cls=cid, ctor="from_dict_reordered", content=content, form=form))
        for content in LIGHT_CONTENTS:
            for ctor in ("items", "item", "list", "df", "from_dict_records", "from_dict_columns", "from_dict_partial"):
                new.append(dict(cls=cid, ctor=ctor, content=content))
            for b in OLD_BUILDS:
                new.append(dict(cls=cid, ctor="getitem", content=content, build=b))
                new.append(dict(cls=cid, ctor="from_series", content=content, build=b))
        for b in BUILDS[3:]:
            for content in ("negative_fractional", "duplicates", "int_offsets"):
                new.append(dict(cls=cid, ctor="getitem", content=content, build=b))
                new.append(dict(cls=cid, ctor="from_series", content=content, build=b))
        # interleave: two original cases, one added case, ... so that a time cut keeps both kinds
        mixed, i, j = [], 0, 0
        while i < len(cases) or j < len(new):
            mixed += cases[i:i + 2] + new[j:j + 1]
            i, j = i + 2, j + 1
        per_class.append((cls, mixed))
    # round robin over the classes so that a time cut never leaves a class unvisited
    k, alive = 0, True
    while alive and rep.exhaustive:
        alive = False
        for cls, cases in per_class:
            if k >= len(cases):
                continue
            alive = True
            case = cases[k]
            if rep.out_of_time(45, 300):
                rep.exhaustive = False
                break
            rep.case(case, nontrivial=not (case.get("n") == 0 or case.get("content") == "empty" or case["ctor"] in ("empty_list", "from_dict_empty")))
            for what, d in _run_ctor(case):
                rep.fail(what, case, d)
                cnt = rep.extra.setdefault("failing_cases_by_clause", {})
                cnt[what] = cnt.get(what, 0) + 1
                cl = rep.extra.setdefault("failing_classes_by_clause", {})
                cl.setdefault(what, [])
                if cls.__name__ not in cl[what]:
                    cl[what].append(cls.__name__)
        k += 1
    rep.extra["cases_per_class_visited"] = k
    rep.extra["cases_per_class"] = max(len(c) for _, c in per_class) if per_class else 0
    rep.extra["classes"] = [c.__name__ for c in classes]


@replayer("tl_constructors")
def _replay_ctor(case, what):
    failed = _run_ctor(case)
    hit = [d for w, d in failed if w == what]
    return (bool(hit), hit[0] if hit else "passes")
