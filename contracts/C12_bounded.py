"""C12 bounded stand-in: stacking writes through.

Also hosts the helpers shared by C13/C14/C15 bounded files:
    build(spec)            small in-memory charts / mapsets of all five games from explicit JSON-able rows
    snapshot(obj), same(a, b), diff(a, b)
The helpers only use the public constructors of reamber (item classes, list classes, map classes)."""
from __future__ import annotations

import copy
import dataclasses
import itertools
import math
import warnings

import numpy as np
import pandas as pd

from pyvc.dsl import bounded
from pyvc.bounded import replayer

warnings.filterwarnings("ignore")

GAMES = ["osu", "qua", "sm", "bms", "o2j"]

# ----------------------------------------------------------------------------------------------------------------
# shared helper 1: builders
# ----------------------------------------------------------------------------------------------------------------
_TABLE = None


def game_table():
    """game -> dict(map=, mapset=, lists={name: (ListClass, ItemClass)}) (imports done lazily, once)."""
    global _TABLE
    if _TABLE is not None:
        return _TABLE
    from reamber.osu.OsuMap import OsuMap
    from reamber.osu.OsuHit import OsuHit
    from reamber.osu.OsuHold import OsuHold
    from reamber.osu.OsuBpm import OsuBpm
    from reamber.osu.OsuSv import OsuSv
    from reamber.osu.OsuSample import OsuSample
    from reamber.osu.lists.notes.OsuHitList import OsuHitList
    from reamber.osu.lists.notes.OsuHoldList import OsuHoldList
    from reamber.osu.lists.OsuBpmList import OsuBpmList
    from reamber.osu.lists.OsuSvList import OsuSvList
    from reamber.osu.lists.OsuSampleList import OsuSampleList
    from reamber.quaver.QuaMap import QuaMap
    from reamber.quaver.QuaHit import QuaHit
    from reamber.quaver.QuaHold import QuaHold
    from reamber.quaver.QuaBpm import QuaBpm
    from reamber.quaver.QuaSv import QuaSv
    from reamber.quaver.lists.notes.QuaHitList import QuaHitList
    from reamber.quaver.lists.notes.QuaHoldList import QuaHoldList
    from reamber.quaver.lists.QuaBpmList import QuaBpmList
    from reamber.quaver.lists.QuaSvList import QuaSvList
    from reamber.sm.SMMap import SMMap
    from reamber.sm.SMMapSet import SMMapSet
    from reamber.sm.SMHit import SMHit
    from reamber.sm.SMHold import SMHold
    from reamber.sm.SMBpm import SMBpm
    from reamber.sm.SMStop import SMStop
    from reamber.sm.SMFake import SMFake
    from reamber.sm.SMLift import SMLift
    from reamber.sm.SMMine import SMMine
    from reamber.sm.SMRoll import SMRoll
    from reamber.sm.SMKeySound import SMKeySound
    from reamber.sm.lists.SMBpmList import SMBpmList
    from reamber.sm.lists.SMStopList import SMStopList
    from reamber.sm.lists.notes import SMHitList, SMHoldList, SMFakeList, SMLiftList, SMKeySoundList, SMMineList, SMRollList
    from reamber.bms.BMSMap import BMSMap
    from reamber.bms.BMSHit import BMSHit
    from reamber.bms.BMSHold import BMSHold
    from reamber.bms.BMSBpm import BMSBpm
    from reamber.bms.lists.BMSBpmList import BMSBpmList
    from reamber.bms.lists.notes.BMSHitList import BMSHitList
    from reamber.bms.lists.notes.BMSHoldList import BMSHoldList
    from reamber.o2jam.O2JMap import O2JMap
    from reamber.o2jam.O2JMapSet import O2JMapSet
    from reamber.o2jam.O2JHit import O2JHit
    from reamber.o2jam.O2JHold import O2JHold
    from reamber.o2jam.O2JBpm import O2JBpm
    from reamber.o2jam.lists.O2JBpmList import O2JBpmList
    from reamber.o2jam.lists.notes.O2JHitList import O2JHitList
    from reamber.o2jam.lists.notes.O2JHoldList import O2JHoldList

    _TABLE = dict(
        osu=dict(map=OsuMap, mapset=None,
                 lists=dict(hits=(OsuHitList, OsuHit), holds=(OsuHoldList, OsuHold), bpms=(OsuBpmList, OsuBpm), svs=(OsuSvList, OsuSv)),
                 extra=dict(samples=(OsuSampleList, OsuSample))),
        qua=dict(map=QuaMap, mapset=None,
                 lists=dict(hits=(QuaHitList, QuaHit), holds=(QuaHoldList, QuaHold), bpms=(QuaBpmList, QuaBpm), svs=(QuaSvList, QuaSv)), extra={}),
        sm=dict(map=SMMap, mapset=SMMapSet,
                lists=dict(hits=(SMHitList, SMHit), holds=(SMHoldList, SMHold), bpms=(SMBpmList, SMBpm), stops=(SMStopList, SMStop),
                           fakes=(SMFakeList, SMFake), lifts=(SMLiftList, SMLift), mines=(SMMineList, SMMine), rolls=(SMRollList, SMRoll),
                           keysounds=(SMKeySoundList, SMKeySound)), extra={}),
        bms=dict(map=BMSMap, mapset=None,
                 lists=dict(hits=(BMSHitList, BMSHit), holds=(BMSHoldList, BMSHold), bpms=(BMSBpmList, BMSBpm)), extra={}),
        o2j=dict(map=O2JMap, mapset=O2JMapSet,
                 lists=dict(hits=(O2JHitList, O2JHit), holds=(O2JHoldList, O2JHold), bpms=(O2JBpmList, O2JBpm)), extra={}),
    )
    return _TABLE


def gappy_labels(n, start=3):
    """strictly increasing non-default labels: 3, 5, 8, 12, ..."""
    out, x = [], start
    for i in range(n):
        out.append(x)
        x += 2 + i
    return out


def _row_kwargs(game, name, row):
    d = dict(row)
    if game == "bms" and "sample" in d and isinstance(d["sample"], str):
        d["sample"] = d["sample"].encode("ascii")
    if game == "qua" and name in ("hits", "holds"):
        d["keysounds"] = list(d.get("keysounds", []))
    return d


def build_list(game, name, rows, labels=None):
    """One list of `game` from explicit rows (dicts).  labels:
    None      default labels 0..n-1
    "gappy"   the DataFrame is given a gappy index (3, 5, 8, ...)
    "after"   built with one extra earlier row that is then removed with .after()  -> labels 1..n
    "mask"    built with extra rows (front and middle) that are removed with a boolean mask -> labels with holes
    "rev"     labels n-1..0 (as a reverse sort of a reversed construction leaves them)
    "perm"    labels rotated (1, 2, ..., n-1, 0): a permutation of 0..n-1 that is not in row order
    "sorted"  the rows as given (possibly not in time order) passed through the public .sorted(): rows in time order,
              labels permuted
    "int"     default labels, offset (and length) stored in integer-typed columns (the values must be whole numbers)
    "dup"     REPEATED labels: the frames of two lists (first half / second half of the rows, each with labels 0..k-1) joined by
              pd.concat WITHOUT ignore_index and handed to the list class: labels 0..k-1, 0..n-k-1 (n = 1: one row, label 0)
    "same"    REPEATED labels: the list built from a DataFrame whose index carries ONE label for every row (7, 7, 7, ...)"""
    t = game_table()[game]
    cls, item = (t["lists"].get(name) or t["extra"][name])
    rows = [_row_kwargs(game, name, r) for r in rows]
    if not rows:
        return cls([])
    if labels == "sorted":
        return cls([item(**r) for r in rows]).sorted()
    if labels == "dup":
        k = len(rows) // 2
        parts = [cls([item(**r) for r in part]).df for part in (rows[:k], rows[k:]) if part]
        return cls(pd.concat(parts))
    if labels == "same":
        df = cls([item(**r) for r in rows]).df.copy()
        df.index = [7] * len(df)
        return cls(df)
    if labels in (None, "gappy", "rev", "perm", "int"):
        lst = cls([item(**r) for r in rows])
        if labels == "perm":
            df = lst.df.copy()
            df.index = [(i + 1) % len(df) for i in range(len(df))]
            lst = cls(df)
        elif labels == "int":
            df = lst.df.copy()
            for c in ("offset", "length"):
                if c in df.columns:
                    df[c] = df[c].astype("int64")
            lst = cls(df)
        elif labels == "gappy":
            df = lst.df.copy()
            df.index = gappy_labels(len(df))
            lst = cls(df)
        elif labels == "rev":
            df = lst.df.copy()
            df.index = list(range(len(df) - 1, -1, -1))
            lst = cls(df)
        return lst
    lo = min(r["offset"] for r in rows)
    if labels == "after":
        s = dict(rows[0])
        s["offset"] = lo - 1000.0
        lst = cls([item(**s)] + [item(**r) for r in rows])
        out = lst.after(lo - 500.0)
        assert len(out) == len(rows)
        return out
    if labels == "mask":
        s = dict(rows[0])
        s["offset"] = lo - 1000.0
        items, keep = [item(**s)], [False]
        for i, r in enumerate(rows):
            items.append(item(**r))
            keep.append(True)
            if i == 0:
                items.append(item(**s))
                keep.append(False)
        lst = cls(items)
        out = lst[np.array(keep)]
        assert len(out) == len(rows)
        return out
    raise ValueError(labels)


_META = dict(
    osu=dict(title="t", title_unicode="tu", artist="a", creator="c", version="v", tags=["x", "y"], preview_time=1500,
             audio_file_name="a.mp3", circle_size=4.0, background_file_name="bg.png"),
    qua=dict(title="t", artist="a", creator="c", difficulty_name="v", tags=["x", "y"], song_preview_time=1500, audio_file="a.mp3",
             mode="Keys4", background_file="bg.png", initial_scroll_velocity=1.0),
    sm=dict(description="d", difficulty="Hard", difficulty_val=7, chart_type="dance-single"),
    bms=dict(title=b"t", artist=b"a", version=b"7", samples={b"01": b"kick.wav", b"02": b"snare.wav"}, misc={b"GENRE": b"g"}),
    o2j=dict(),
    sm_set=dict(title="t", artist="a", credit="c", music="a.ogg", offset=0.0, sample_start=2000.0, sample_length=8000.0),
    o2j_set=dict(title="t", artist="a", creator="c", bpm=120.0, level=[1, 2, 3], genre=2),
)


def build_chart(spec):
    """spec: dict(game=, hits=[rows], holds=[rows], bpms=[rows], svs=[rows], ..., samples=[rows] (osu),
    labels={list name: mode}, meta={field: JSON-able value})  ->  a Map of that game."""
    game = spec["game"]
    t = game_table()[game]
    m = t["map"]()
    labels = spec.get("labels") or {}
    for name in t["lists"]:
        if name in spec:
            setattr(m, name, build_list(game, name, spec[name], labels.get(name)))
    for name in t["extra"]:
        if name in spec:
            setattr(m, name, build_list(game, name, spec[name], labels.get(name)))
    for k, v in copy.deepcopy(_META[game]).items():
        setattr(m, k, v)
    for k, v in (spec.get("meta") or {}).items():
        setattr(m, k, copy.deepcopy(v))
    for step in spec.get("pre") or []:
        m = _pre_step(m, step)
    return m


def _pre_step(m, step):
    """dtype / history states the library itself produces, applied to a built chart (spec key `pre`):
    ["rate", r]            the chart returned by the public rate(r)
    ["append", list name]  the named list replaced by  list.append(copy of its first item)  (one more row)
    ["stack_edit"]         offset += 0 through a stack of the whole chart (a stack edit that changes no value)
    ["deepcopy"]           a deep copy"""
    if step[0] == "rate":
        return m.rate(step[1])
    if step[0] == "append":
        lst = getattr(m, step[1])
        setattr(m, step[1], lst.append(lst[0]))
        return m
    if step[0] == "stack_edit":
        st = m.stack()
        st.offset += 0
        return m
    if step[0] == "deepcopy":
        return copy.deepcopy(m)
    raise ValueError(step)


def build_mapset(spec):
    """spec: dict(game='sm'|'o2j', maps=[chart specs], meta={...}) -> SMMapSet / O2JMapSet.
    For other games a plain reamber.base.MapSet of the charts is returned."""
    game = spec["game"]
    t = game_table()[game]
    maps = [build_chart(dict(s, game=game)) for s in spec["maps"]]
    if t["mapset"] is None:
        from reamber.base.MapSet import MapSet

        return MapSet(maps)
    ms = t["mapset"]()
    ms.maps = maps
    for k, v in copy.deepcopy(_META[game + "_set"]).items():
        setattr(ms, k, v)
    for k, v in (spec.get("meta") or {}).items():
        setattr(ms, k, copy.deepcopy(v))
    if game == "sm" and "offset" not in (spec.get("meta") or {}) and maps and len(maps[0].bpms):
        # an in-memory .sm chart is consistent when the file offset is the time of its first tempo row
        ms.offset = float(min(maps[0].bpms.offset))
    return ms


def build(spec):
    return build_mapset(spec) if "maps" in spec else build_chart(spec)


def chart_lists(m):
    """name -> list object for every list a chart carries (stacked lists + file-level lists such as osu samples)."""
    from reamber.base.lists.TimedList import TimedList

    out = dict(m.objs)
    for f in dataclasses.fields(m):
        if f.name == "objs":
            continue
        v = getattr(m, f.name)
        if isinstance(v, TimedList):
            out[f.name] = v
    return out


# ----------------------------------------------------------------------------------------------------------------
# shared helper 2: snapshots
# ----------------------------------------------------------------------------------------------------------------
def _cell(v):
    if isinstance(v, (np.generic,)):
        v = v.item()
    if isinstance(v, float) and math.isnan(v):
        return ("NaN",)
    if v is None:
        return ("None",)
    if v is pd.NA or v is pd.NaT:
        return ("NA",)
    if isinstance(v, (list, dict, set, bytearray)):
        return ("obj", type(v).__name__, copy.deepcopy(v))
    return v


def snap_df(df):
    return dict(
        columns=[str(c) for c in df.columns],
        dtypes=[str(t) for t in df.dtypes],
        labels=[_cell(x) for x in df.index.tolist()],
        values=[[_cell(v) for v in df[c].tolist()] for c in df.columns] if df.columns.is_unique else [[_cell(v) for v in row] for row in df.to_numpy().tolist()],
    )


def snap_list(lst):
    return dict(kind="list", type=type(lst).__name__, **snap_df(lst.df))


def _field_value(v):
    from reamber.base.lists.TimedList import TimedList

    if isinstance(v, TimedList):
        return snap_list(v)
    if isinstance(v, float) and math.isnan(v):
        return ("NaN",)
    if isinstance(v, np.generic):
        return (type(v).__name__, _cell(v))
    return copy.deepcopy(v)


def snapshot(obj):
    """Values, columns, dtypes, row labels of every list + dataclass fields (deep copies), for lists, charts, mapsets,
    frames, series and plain values."""
    from reamber.base.lists.TimedList import TimedList
    from reamber.base.Map import Map
    from reamber.base.MapSet import MapSet
    from reamber.base.Series import Series as RSeries

    if isinstance(obj, TimedList):
        return snap_list(obj)
    if isinstance(obj, Map):
        fields = {}
        for f in dataclasses.fields(obj):
            if f.name == "objs":
                continue
            fields[f.name] = _field_value(getattr(obj, f.name))
        return dict(kind="map", type=type(obj).__name__, list_names=list(obj.objs.keys()),
                    lists={k: snap_list(v) for k, v in obj.objs.items()}, fields=fields)
    if isinstance(obj, MapSet):
        fields = {}
        if dataclasses.is_dataclass(obj):
            for f in dataclasses.fields(obj):
                if f.name == "maps":
                    continue
                fields[f.name] = _field_value(getattr(obj, f.name))
        return dict(kind="mapset", type=type(obj).__name__, maps=[snapshot(m) for m in obj.maps], fields=fields)
    if isinstance(obj, pd.DataFrame):
        return dict(kind="frame", **snap_df(obj))
    if isinstance(obj, pd.Series):
        return dict(kind="series", dtype=str(obj.dtype), labels=[_cell(x) for x in obj.index.tolist()], values=[_cell(v) for v in obj.tolist()])
    if isinstance(obj, RSeries):
        return dict(kind="item", type=type(obj).__name__, labels=[str(x) for x in obj.data.index], values=[_cell(v) for v in obj.data.tolist()])
    if isinstance(obj, np.ndarray):
        return dict(kind="ndarray", dtype=str(obj.dtype), values=[_cell(v) for v in obj.ravel().tolist()], shape=list(obj.shape))
    if isinstance(obj, (list, tuple)):
        return dict(kind=type(obj).__name__, items=[snapshot(x) for x in obj])
    return dict(kind="value", value=_field_value(obj))


def diff(a, b, path=""):
    """List of human-readable differences between two snapshots (empty = same)."""
    out = []
    if type(a) is not type(b):
        return [f"{path}: {type(a).__name__} -> {type(b).__name__}"]
    if isinstance(a, dict):
        for k in a:
            if k not in b:
                out.append(f"{path}/{k}: removed")
            else:
                out.extend(diff(a[k], b[k], f"{path}/{k}"))
        for k in b:
            if k not in a:
                out.append(f"{path}/{k}: added")
        return out
    if isinstance(a, (list, tuple)):
        if len(a) != len(b):
            return [f"{path}: length {len(a)} -> {len(b)}: {_brief(a)} -> {_brief(b)}"]
        for i, (x, y) in enumerate(zip(a, b)):
            out.extend(diff(x, y, f"{path}[{i}]"))
            if len(out) > 8:
                break
        return out
    try:
        eq = bool(a == b) and type(a) is type(b)
    except Exception:
        eq = repr(a) == repr(b)
    if not eq:
        out.append(f"{path}: {a!r} -> {b!r}")
    return out


def _brief(x, n=120):
    s = repr(x)
    return s if len(s) <= n else s[:n] + "..."


def same(a, b):
    return not diff(a, b)


# ----------------------------------------------------------------------------------------------------------------
# shared helper 3: a few standard chart specs
# ----------------------------------------------------------------------------------------------------------------
def _note_extra(game, i):
    """non-default values of the game specific note columns, so that 'other columns untouched' is observable"""
    if game == "osu":
        return dict(hitsound_set=[0, 2, 4, 8][i % 4], sample_set=i % 3, addition_set=(i + 1) % 3, custom_set=i % 2, volume=10 * (i % 5),
                    hitsound_file=["", "a.wav", "", "b.wav"][i % 4])
    if game == "qua":
        return dict(keysounds=[[], ["k%d" % i]][i % 2])
    if game == "bms":
        return dict(sample=["kick.wav", "snare.wav", ""][i % 3])
    if game == "o2j":
        return dict(volume=i % 4, pan=8 - (i % 3))
    return {}


def _bpm_extra(game, i):
    if game == "osu":
        return dict(sample_set=i % 3, sample_set_index=i % 2, volume=40 + 10 * (i % 3), kiai=bool(i % 2))
    return {}


def std_spec(game, hits=(), holds=(), bpms=((0, 120),), svs=(), samples=(), stops=(), labels=None, **more):
    """hits: (offset, column); holds: (offset, column, length); bpms: (offset, bpm[, metronome]); svs: (offset, multiplier);
    samples (osu): (offset, file, volume); stops (sm): (offset, length).  Game specific columns get varied non-default values."""
    sp = dict(game=game)
    sp["hits"] = [dict(offset=float(o), column=int(c), **_note_extra(game, i)) for i, (o, c) in enumerate(hits)]
    sp["holds"] = [dict(offset=float(o), column=int(c), length=float(l), **_note_extra(game, i + 1)) for i, (o, c, l) in enumerate(holds)]
    sp["bpms"] = [dict(offset=float(b[0]), bpm=float(b[1]), metronome=(b[2] if len(b) > 2 else 4), **_bpm_extra(game, i)) for i, b in enumerate(bpms)]
    if game in ("osu", "qua"):
        sp["svs"] = [dict(offset=float(o), multiplier=float(x), **(_bpm_extra(game, i + 1) if game == "osu" else {})) for i, (o, x) in enumerate(svs)]
    if game == "osu":
        sp["samples"] = [dict(offset=float(o), sample_file=f, volume=int(v)) for (o, f, v) in samples]
    if game == "sm":
        sp["stops"] = [dict(offset=float(o), length=float(l)) for (o, l) in stops]
        for k in ("fakes", "lifts", "mines", "keysounds"):
            if k in more:
                sp[k] = [dict(offset=float(o), column=int(c)) for (o, c) in more.pop(k)]
        if "rolls" in more:
            sp["rolls"] = [dict(offset=float(o), column=int(c), length=float(l)) for (o, c, l) in more.pop("rolls")]
    if labels:
        sp["labels"] = dict(labels)
    sp.update(more)
    return sp


# ================================================================================================================
# C12: stacking writes through
# ================================================================================================================
_KINDS = ("HitList", "HoldList", "BpmList", "NoteList")


def _kind_classes():
    from reamber.base.lists.notes.HitList import HitList
    from reamber.base.lists.notes.HoldList import HoldList
    from reamber.base.lists.notes.NoteList import NoteList
    from reamber.base.lists.BpmList import BpmList

    return dict(HitList=HitList, HoldList=HoldList, BpmList=BpmList, NoteList=NoteList)


def _val(v):
    """JSON-able op value -> python value"""
    if isinstance(v, dict) and "bytes" in v:
        return v["bytes"].encode("ascii")
    if isinstance(v, dict) and "np" in v:  # numpy scalar of the named type, e.g. {"np": "float64", "v": 2.5}
        return getattr(np, v["np"])(v["v"])
    return v


def _plain(v):
    """the python number an op value stands for (the oracle computes on plain numbers)"""
    return v.item() if isinstance(v, np.generic) else v


class _Model:
    """The oracle: every list of the chart as plain Python columns; an assignment is applied to each list separately."""

    def __init__(self, m):
        kc = _kind_classes()
        self.lists = {}
        for name, lst in chart_lists(m).items():
            self.lists[name] = dict(
                type=type(lst).__name__,
                stacked=name in m.objs,
                # "list:<name>" stands for the exact class of the chart's list <name> (e.g. OsuSvList, SMMineList)
                kinds={k for k, c in kc.items() if isinstance(lst, c)} | {"list:" + n2 for n2, l2 in m.objs.items() if isinstance(lst, type(l2))},
                cols=[str(c) for c in lst.df.columns],
                data={str(c): [x.item() if isinstance(x, np.generic) else x for x in lst.df[c].tolist()] for c in lst.df.columns},
                n=len(lst.df),
                dtypes={str(c): str(t) for c, t in zip(lst.df.columns, lst.df.dtypes)},
                index_dtype=str(lst.df.index.dtype),
            )
        self.written = None  # set by _run_ops: names of the lists that were in the stack when an assignment went through it
        self.touched_cols = set()  # (list, col) assigned by ANY op so far
        self.order = [n for n in m.objs.keys()]
        self.include = None  # None = all stacked lists, else set of kind names
        self.touched = set()  # (list, col, row) assigned by the LAST op

    def included(self):
        out = []
        for n in self.order:
            l = self.lists[n]
            if self.include is None or (l["kinds"] & set(self.include)):
                out.append(n)
        return out

    def has_col(self, col):
        return any(col in self.lists[n]["data"] for n in self.included())

    def total(self):
        return sum(self.lists[n]["n"] for n in self.included())

    def mask(self, mspec):
        """-> {list name: [bool per row]} over the included lists"""
        inc = self.included()
        out = {}
        if "bits" in mspec:
            # bits are given over ALL rows of the chart's stacked lists (list order, then row order)
            pos = 0
            for n in self.order:
                k = self.lists[n]["n"]
                if n in inc:
                    out[n] = [bool(mspec["bits"][pos + i]) for i in range(k)]
                pos += k
            return out
        col, rel, t = mspec["cond"]
        for n in inc:
            l = self.lists[n]
            if col not in l["data"]:
                out[n] = [False] * l["n"]
                continue
            vals = l["data"][col]
            out[n] = [bool({">": x > t, "<": x < t, ">=": x >= t, "==": x == t}[rel]) for x in vals]
        return out

    @staticmethod
    def _apply(old, how, v):
        if how == "set":
            return v
        if how == "iadd":
            return old + v
        if how == "imul":
            return old * v
        if how == "isub":
            return old - v
        if how == "idiv":
            return old / v
        raise ValueError(how)

    def whole(self, how, col, v):
        self.touched = set()
        for n in self.included():
            l = self.lists[n]
            if col in l["data"]:
                l["data"][col] = [self._apply(x, how, v) for x in l["data"][col]]
                self.touched |= {(n, col, i) for i in range(l["n"])}
                self.touched_cols.add((n, col))

    def loc(self, how, flat, cols, v):
        """flat: one bool per row of the included lists (list order, then row order) - the mask handed to the library"""
        self.touched = set()
        pos = 0
        for n in self.included():
            l = self.lists[n]
            bits = flat[pos:pos + l["n"]]
            pos += l["n"]
            for col in cols:
                if col in l["data"]:
                    for i, b in enumerate(bits):
                        if b:
                            l["data"][col][i] = self._apply(l["data"][col][i], how, v)
                            self.touched.add((n, col, i))
                            self.touched_cols.add((n, col))


def _eqv(a, b):
    """value equality up to numeric dtype drift (2 == 2.0), NaN == NaN"""
    if isinstance(a, np.generic):
        a = a.item()
    if isinstance(b, np.generic):
        b = b.item()
    fa = isinstance(a, float) and math.isnan(a)
    fb = isinstance(b, float) and math.isnan(b)
    if fa or fb:
        return fa and fb
    if isinstance(a, (int, float, bool)) and isinstance(b, (int, float, bool)):
        if a == b:
            return True
        return abs(a - b) <= 1e-9 * max(abs(a), abs(b))
    try:
        return bool(a == b)
    except Exception:
        return False


def _compare(m, model, fields0, stale=False):
    """real chart vs oracle -> [(what, detail)]"""
    out = []

    def w(x):
        return "stale_stacker" if stale else x

    real = chart_lists(m)
    if list(real.keys()) != list(model.lists.keys()):
        out.append((w("list_type"), f"lists of the chart changed: {list(model.lists)} -> {list(real)}"))
        return out
    inc = set(model.included())
    for name, l in model.lists.items():
        lst = real[name]
        if type(lst).__name__ != l["type"]:
            out.append((w("list_type"), f"{name}: {l['type']} -> {type(lst).__name__}"))
        df = lst.df
        if len(df) != l["n"]:
            out.append((w("list_length"), f"{name}: {l['n']} rows -> {len(df)} rows"))
            continue
        if [str(c) for c in df.columns] != l["cols"]:
            out.append((w("columns_kept"), f"{name}: columns {l['cols']} -> {[str(c) for c in df.columns]}"))
            continue
        for col in l["cols"]:
            got = df[col].tolist()
            want = l["data"][col]
            for i, (g, x) in enumerate(zip(got, want)):
                if not _eqv(g, x):
                    if (name, col, i) in model.touched:
                        what = "assigned_values"
                    elif name not in inc or not l["stacked"]:
                        what = "lacking_list_untouched"
                    else:
                        what = "other_values_untouched"
                    out.append((w(what), f"{name}.{col}[row {i}] is {g!r}, the per-list assignment gives {x!r}"))
                    break
    if model.written is not None and not out:
        # dimension 15: a list that was in no stack through which an assignment went (lists excluded by the type restriction,
        # file-level lists such as osu samples) keeps the dtype of every column: re-typing a column IS a modification
        for name, l in model.lists.items():
            if name in model.written:
                continue
            now = {str(c): str(t) for c, t in zip(real[name].df.columns, real[name].df.dtypes)}
            ch = [f"{c}: {l['dtypes'][c]} -> {now[c]}" for c in l["cols"] if now.get(c) != l["dtypes"][c]]
            if ch:
                out.append((w("lacking_list_dtypes"), f"{name} was in no stack that was assigned through, its column types changed: {'; '.join(ch[:4])}"))
    f1 = _fields_of(m)
    d = diff(fields0, f1)
    if d:
        out.append((w("chart_fields_untouched"), "; ".join(d[:3])))
    return out


def _fields_of(m):
    from reamber.base.lists.TimedList import TimedList

    out = {}
    for f in dataclasses.fields(m):
        v = getattr(m, f.name)
        if f.name == "objs" or isinstance(v, TimedList):
            continue
        out[f.name] = _field_value(v)
    return out


_BUILD_CACHE = {}
PHANTOM = [0]  # condition masks whose stack-side evaluation differs from the list-side evaluation


def _fresh(spec):
    import json

    k = json.dumps(spec, sort_keys=True)
    if k not in _BUILD_CACHE:
        _BUILD_CACHE[k] = build(spec)
    return copy.deepcopy(_BUILD_CACHE[k])


def _do_stack(m, include):
    if include is None:
        return m.stack()
    kc = _kind_classes()
    return m.stack(tuple(type(m.objs[k[5:]]) if k.startswith("list:") else kc[k] for k in include))


def _mask_value(model, mspec, s, form):
    """the mask object handed to the library"""
    if "bits" in mspec:
        mk = model.mask(mspec)
        flat = [b for n in model.included() for b in mk[n]]
        if form == "series":
            return pd.Series(flat, dtype=bool)
        if form == "list":
            return list(flat)
        return np.array(flat, dtype=bool)
    col, rel, t = mspec["cond"]
    x = getattr(s, col)
    return {">": x > t, "<": x < t, ">=": x >= t, "==": x == t}[rel]


def _apply_real(s, model, op):
    """run one op on the real stacker; returns 'skip' when the op is not applicable to this stack"""
    kind = op[0]
    if kind in ("iadd", "imul", "isub", "idiv", "set", "self"):
        col = op[1]
        if not model.has_col(col):
            return "skip"
        if kind == "self":
            setattr(s, col, getattr(s, col))
            model.touched = set()
            return "ok"
        v = _val(op[2])
        cur = getattr(s, col)
        if kind == "iadd":
            cur += v
            setattr(s, col, cur)
        elif kind == "imul":
            cur *= v
            setattr(s, col, cur)
        elif kind == "isub":
            cur -= v
            setattr(s, col, cur)
        elif kind == "idiv":
            cur /= v
            setattr(s, col, cur)
        else:
            setattr(s, col, v)
        model.whole(kind, col, _plain(v))
        return "ok"
    if kind == "loc":
        _, how, mspec, cols, v = op[:5]
        form = op[5] if len(op) > 5 else "ndarray"
        cl = [cols] if isinstance(cols, str) else list(cols)
        if not all(model.has_col(c) for c in cl):
            return "skip"
        if "cond" in mspec and not model.has_col(mspec["cond"][0]):
            return "skip"
        v = _val(v)
        mk = _mask_value(model, mspec, s, form)
        # the oracle uses the boolean mask that is actually handed to the library (an ARBITRARY mask per the statement);
        # a condition evaluated through the stack's getters may differ from the condition evaluated on the lists
        # (values written earlier into cells of lists that lack the column are remembered by the stacker): counted, not failed
        flat = [bool(b) for b in np.asarray(mk, dtype=bool).tolist()]
        if "cond" in mspec:
            mm = model.mask(mspec)
            if flat != [b for n in model.included() for b in mm[n]]:
                PHANTOM[0] += 1
        if how == "set":
            s.loc[mk, cols] = v
        elif how == "iadd":
            s.loc[mk, cols] += v
        elif how == "isub":
            s.loc[mk, cols] -= v
        elif how == "idiv":
            s.loc[mk, cols] /= v
        else:
            s.loc[mk, cols] *= v
        model.loc(how, flat, cl, _plain(v))
        return "ok"
    raise ValueError(op)


_BASE_COLS = ("offset", "column", "bpm", "length", "metronome")
_GAME_OF_PACKAGE = dict(osu="osu", quaver="qua", sm="sm", bms="bms", o2jam="o2j")


def _game_of(obj):
    parts = type(obj).__module__.split(".")
    return _GAME_OF_PACKAGE.get(parts[1] if len(parts) > 1 else "", "base")


def _missing_prop(s, model, op):
    """A whole-column op on a column that occurs in the DATA of the stacked lists, while the stack has no attribute of that
    name at all (reading it raises AttributeError): -> the column name.  A class of its own (`stack_property_missing.<game>.
    <column>`): a plain `stack.<col> = v` would silently set an ordinary attribute, `stack.<col> += v` raises.  Only for the ops
    generated from the data (marked with a 4th element "data"); the ops of the hand-written alphabets keep reporting under
    `stack_op_raises` / `assigned_values` as they always did."""
    if op[0] in ("iadd", "imul", "isub", "idiv", "set", "self") and len(op) > 3 and op[3] == "data" and model.has_col(op[1]):
        try:
            getattr(s, op[1])
        except AttributeError:
            return op[1]
        except Exception:  # noqa  (anything else is the op's own failure: reported by the caller as stack_op_raises)
            return None
    return None


def _run_ops(m, ops, check_from=0, s=None):
    """the ops of a chart case on the chart m (through the stacker s, default a new m.stack()); returns [(what, detail)]"""
    model = _Model(m)
    model.written = set()
    fields0 = _fields_of(m)
    if s is None:
        s = m.stack()
    out = []
    for k, op in enumerate(ops):
        if op[0] == "restack":
            inc = op[1] if len(op) > 1 else None
            model.include = inc
            model.touched = set()
            try:
                s = _do_stack(m, inc)
            except Exception as ex:  # stacking (also restricted to list types) must not raise
                out.append(("stack_op_raises", f"op {k} {op}: {type(ex).__name__}: {ex}"))
                return out
        else:
            miss = _missing_prop(s, model, op)
            if miss is not None:
                have = sorted(n for n in model.included() if miss in model.lists[n]["data"])
                out.append((f"stack_property_missing.{_game_of(m)}.{miss}", f"op {k} {op}: the lists {have} of the chart carry a column {miss!r}, {type(s).__qualname__} has no attribute of that name: "
                                                                         f"`stack.{miss} = v` sets an ordinary attribute and changes no list, `stack.{miss} += v` raises AttributeError"))
                return out
            try:
                r = _apply_real(s, model, op)
            except Exception as ex:  # an applicable assignment must not raise
                out.append(("stack_op_raises", f"op {k} {op}: {type(ex).__name__}: {ex}"))
                return out
            if r == "skip":
                continue
            model.written |= set(model.included())
        if k >= check_from:
            bad = _compare(m, model, fields0)
            if bad:
                return out + [(wh, f"after op {k} {op}: {d}") for wh, d in bad]
    return out


def _run_chart_case(case, check_from=0):
    """case: dict(spec=chart spec, ops=[op...], twin=bool) ; returns [(what, detail)].
    twin: a second, equal chart (its own objects) and a stacker of it are alive while the ops run on the first chart;
    the second chart must be left as it was (`other_chart_untouched`), and the same ops through ITS stacker afterwards
    must again equal the per-list oracle (the ordinary clauses; nothing of the first run may leak into the second)."""
    m = _fresh(case["spec"])
    if not case.get("twin"):
        return _run_ops(m, case["ops"], check_from)
    m2 = _fresh(case["spec"])
    s2 = m2.stack()
    before = snapshot(m2)
    out = _run_ops(m, case["ops"], check_from)
    if out:
        return out
    d = diff(before, snapshot(m2))
    if d:
        return [("other_chart_untouched", "a second chart (own objects, equal content) changed while the first one was edited through its stack: " + "; ".join(d[:3]))]
    return [(wh, "second chart, stacked before the first one was edited: " + dd) for wh, dd in _run_ops(m2, case["ops"], check_from, s=s2)]


# ---------------------------------------------------------------------------------------------------------------- op alphabets
def _alphabet(game, nrows, full):
    """ops for a chart with `nrows` stacked rows.  full=True: the complete alphabet used for length-1 sequences,
    False: the reduced alphabet whose sequences of length <= 3 are enumerated exhaustively."""
    ops = []
    whole_cols = ["offset", "column", "bpm", "length"]
    if full:
        for c in whole_cols + ["metronome"]:
            ops += [["iadd", c, 5], ["imul", c, 2], ["iadd", c, 0.5], ["self", c]]
        for c in whole_cols:  # the other two in-place arithmetic operators
            ops += [["isub", c, 5], ["idiv", c, 2]]
        # plain assignment of one value to a whole stacked property
        ops += [["set", "offset", 250.0], ["set", "column", 2], ["set", "length", 0], ["set", "bpm", {"np": "float64", "v": 90.5}]]
        # numpy scalars instead of python numbers as the assigned value
        ops += [["iadd", "offset", {"np": "float64", "v": 2.5}], ["imul", "column", {"np": "int64", "v": 2}], ["isub", "length", {"np": "float32", "v": 1.5}],
                ["loc", "set", {"cond": ["offset", ">", 400.0]}, "offset", {"np": "float32", "v": 1.5}], ["loc", "isub", {"cond": ["offset", ">", 400.0]}, "offset", 7.0],
                ["loc", "idiv", {"cond": ["column", "==", 1]}, ["offset", "length"], 4], ["loc", "iadd", {"cond": ["bpm", ">=", 0]}, "bpm", {"np": "int64", "v": 3}]]
        masks = [{"bits": list(b)} for b in itertools.product([0, 1], repeat=nrows)] if nrows <= 4 else []
        masks += [{"cond": ["offset", ">", 400.0]}, {"cond": ["column", "==", 1]}, {"cond": ["length", ">", 0]}, {"cond": ["bpm", ">=", 0]}]
        # thresholds that rows of the charts sit on exactly (offsets 500 and 400, length 0)
        masks += [{"cond": ["offset", ">=", 500.0]}, {"cond": ["offset", "<", 500.0]}]
        for mk in masks:
            for cols, v in (("offset", 777.0), ("column", 3), ("length", 50.0), ("bpm", 90.0), (["offset", "column"], 2), (["offset", "length"], 7.0)):
                ops.append(["loc", "set", mk, cols, v])
                ops.append(["loc", "iadd", mk, cols, v])
        ops += [["loc", "imul", {"cond": ["offset", ">", 400.0]}, ["offset"], 2], ["loc", "set", {"cond": ["offset", ">", 400.0]}, "offset", 1.0, "series"]]
        if nrows <= 4:
            ops += [["loc", "iadd", {"bits": [1, 0] * (nrows // 2) + [1] * (nrows % 2)}, "offset", 1.0, "series"],
                    ["loc", "iadd", {"bits": [1, 0] * (nrows // 2) + [1] * (nrows % 2)}, "offset", 1.0, "list"]]
        if game == "osu":
            ops += [["iadd", "volume", 5], ["loc", "set", {"cond": ["offset", ">", 400.0]}, "hitsound_file", "z.wav"], ["loc", "set", {"cond": ["bpm", ">=", 0]}, "kiai", True],
                    ["set", "custom_set", 1], ["self", "hitsound_file"], ["iadd", "sample_set", 1]]
        if game == "bms":
            ops += [["loc", "set", {"cond": ["column", "==", 1]}, "sample", {"bytes": "x.wav"}], ["self", "sample"]]
        if game == "qua":
            ops += [["self", "keysounds"]]
    else:
        half = {"bits": [(i % 2) for i in range(nrows)]}
        first = {"bits": [1] + [0] * (nrows - 1)} if nrows else {"bits": []}
        ops += [["iadd", "offset", 5], ["imul", "offset", 2], ["iadd", "column", 1], ["imul", "bpm", 2], ["iadd", "length", 0.5]]
        ops += [["loc", "set", half, "offset", 777.0], ["loc", "iadd", first, ["offset", "column"], 2], ["loc", "iadd", {"cond": ["column", "==", 1]}, "offset", 10.0],
                ["loc", "set", {"cond": ["offset", ">", 400.0]}, ["offset", "length"], 7.0]]
    ops += [["restack"], ["restack", ["HitList"]], ["restack", ["HitList", "HoldList"]], ["restack", ["BpmList"]]]
    if full:
        ops += _more_restacks(game)
    return ops


_DATA_COLS = {}


def _data_columns(game):
    """{column name: a value found in it} over every stacked list of every chart of the game: the names come from the DATA
    (the frames of the lists), not from a table of the library."""
    if game not in _DATA_COLS:
        found = {}
        for label, spec, nrows in _c12_specs(game):
            m = _fresh(spec)
            for lst in m.objs.values():
                for c in lst.df.columns:
                    vals = [x for x in lst.df[c].tolist() if not (isinstance(x, float) and math.isnan(x))]
                    if str(c) not in found or (found[str(c)] is None and vals):
                        found[str(c)] = (vals[0].item() if isinstance(vals[0], np.generic) else vals[0]) if vals else None
        _DATA_COLS[game] = found
    return _DATA_COLS[game]


def _data_ops(game, spec, rich):
    """Ops on every column that occurs in a stacked list of THIS chart beyond the five base ones: plain assignment of one
    value of the column's own kind (bool / int / float / str / bytes), and on `rich` charts also += (numbers), self-assignment
    and a conditional assignment through loc."""
    m = _fresh(spec)
    here = []
    for lst in m.objs.values():
        for c in lst.df.columns:
            if str(c) not in here and str(c) not in _BASE_COLS:
                here.append(str(c))
    ops = []
    for c in here:
        v0 = _data_columns(game).get(c)
        if isinstance(v0, bool):
            v, num = (not v0), False
        elif isinstance(v0, int):
            v, num = 3, True
        elif isinstance(v0, float):
            v, num = 2.5, True
        elif isinstance(v0, str):
            v, num = "z.wav", False
        elif isinstance(v0, bytes):
            v, num = {"bytes": "x.wav"}, False
        else:
            v, num = None, False  # lists (keysounds) / nothing seen: self-assignment only
        if v is not None:
            ops.append(["set", c, v, "data"])
        if rich or v is None:
            ops.append(["self", c, None, "data"])
        if rich and num:
            ops += [["iadd", c, 2, "data"], ["isub", c, {"np": "int64", "v": 1}, "data"]]
        if rich and v is not None:
            ops.append(["loc", "set", {"cond": ["offset", ">", 400.0]}, c, v])
    return ops


RICH_SPECS = ("small", "larger", "with_sv", "sm_all_lists", "negative_large", "filtered")
# the whole range of the value: negative and huge shifts, a sign flip (the documented way of reversing columns), zero
RANGE_OPS = [["iadd", "offset", -1000000000.5], ["iadd", "offset", 1e12], ["imul", "column", -1], ["imul", "offset", 0], ["set", "column", 0], ["iadd", "column", -3],
             ["set", "bpm", 1e-3], ["loc", "iadd", {"cond": ["offset", ">=", 500.0]}, "column", -1]]


def _more_restacks(game):
    """further type restrictions: the common note base class, a one-element tuple of the exact class of one of the chart's
    lists ("list:<name>"), game specific list classes"""
    out = [["restack", ["NoteList"]], ["restack", ["NoteList", "BpmList"]], ["restack", ["list:hits"]], ["restack", ["list:bpms", "HoldList"]]]
    if game in ("osu", "qua"):
        out += [["restack", ["list:svs"]], ["restack", ["list:svs", "HitList"]]]
    if game == "sm":
        out += [["restack", ["list:stops"]], ["restack", ["list:mines", "list:rolls"]], ["restack", ["list:fakes", "BpmList"]]]
    return out


def _c12_specs(game):
    """(label, spec, number of stacked rows): <= 4 stacked rows so that all 2^n masks are enumerated, plus empty-list and
    non-default-label variants, plus larger charts.  The charts of _c12_more_specs follow the original ones."""
    sv = dict(svs=[(250, 1.5)]) if game in ("osu", "qua") else {}
    out = []
    out.append(("small", std_spec(game, hits=[(0, 0), (500, 1)], holds=[(1000, 1, 250)], bpms=[(0, 120)]), 4))
    out.append(("empty_holds", std_spec(game, hits=[(0, 0), (500, 1), (600, 2)], holds=[], bpms=[(0, 120)]), 4))
    out.append(("empty_hits", std_spec(game, hits=[], holds=[(0, 1, 250), (500, 1, 250)], bpms=[(0, 120), (700, 60)]), 4))
    out.append(("gappy", std_spec(game, hits=[(0, 0), (500, 1)], holds=[(1000, 1, 250)], bpms=[(0, 120)], labels=dict(hits="gappy", holds="gappy", bpms="gappy")), 4))
    out.append(("filtered", std_spec(game, hits=[(0, 0), (500, 1)], holds=[(1000, 1, 250)], bpms=[(0, 120)], labels=dict(hits="mask", holds="after", bpms="after")), 4))
    if sv:
        out.append(("with_sv", std_spec(game, hits=[(0, 0)], holds=[(1000, 1, 250)], bpms=[(0, 120)], labels=dict(svs="after"), **sv), 4))
    if game == "sm":
        out.append(("sm_lists", std_spec(game, hits=[(0, 0)], holds=[], bpms=[(0, 120)], stops=[(500, 250)], mines=[(750, 1)], rolls=[], labels=dict(mines="gappy")), 4))
    out.append(("all_empty", std_spec(game, hits=[], holds=[], bpms=[]), 0))
    big = std_spec(game, hits=[(i * 250, i % 4) for i in range(6)], holds=[(2000 + i * 500, (i + 1) % 4, 250) for i in range(3)], bpms=[(0, 120), (1000, 180), (3000, 90)],
                   labels=dict(hits="mask", bpms="gappy"), **({"svs": [(0, 1.0), (1250, 0.5)]} if sv else {}))
    out.append(("larger", big, 12 + (2 if sv else 0)))
    return out + _c12_more_specs(game)


REPEATED_LABEL_SPECS = ("repeated_labels", "repeated_labels_all", "repeated_labels_larger")
NEW_SPECS = ("empty_bpms", "unsorted_perm", "ties_rev", "negative_large", "int_columns", "sv_ties_unsorted", "sv_only", "sm_all_lists", "one_row")


def _c12_more_specs(game):
    """Charts added for the input dimensions the first nine lacked: an empty tempo list on its own, rows NOT in time order,
    permuted / reversed / sorted()-made labels on every list kind (notes, tempo, SV, stops), two notes / two tempo changes /
    two SVs at the same time with different values, a zero-length hold sitting exactly on a mask threshold, negative and very
    large times with sub-millisecond fractions, integer-typed offset / length columns, every list kind of StepMania
    non-empty, osu samples (a list the stack does not hold) non-empty, a single-row chart."""
    sv = game in ("osu", "qua")
    out = []
    out.append(("empty_bpms", std_spec(game, hits=[(0, 0), (500, 1)], holds=[(400, 1, 250), (1000, 2, 0)], bpms=[], labels=dict(hits="perm")), 4))
    out.append(("unsorted_perm", std_spec(game, hits=[(1000, 1), (0, 0)], holds=[(400, 1, 0)], bpms=[(0, 120)], labels=dict(hits="perm", holds="rev", bpms="perm")), 4))
    out.append(("ties_rev", std_spec(game, hits=[(500, 0), (500, 1)], holds=[], bpms=[(0, 120), (0, 60, 3)], labels=dict(hits="rev", bpms="rev")), 4))
    more = dict(samples=[(100, "s.wav", 50), (-5, "t.wav", 70)]) if game == "osu" else {}
    out.append(("negative_large", std_spec(game, hits=[(-250.5, 0), (1000000000.25, 1)], holds=[(400, 1, 0)], bpms=[(-1000.125, 120)], labels=dict(hits="sorted"), **more), 4))
    out.append(("int_columns", std_spec(game, hits=[(500, 1), (0, 0)], holds=[(1000, 1, 250)], bpms=[(0, 120)], labels=dict(hits="int", holds="int", bpms="int")), 4))
    if sv:
        out.append(("sv_ties_unsorted", std_spec(game, hits=[(0, 0)], holds=[], bpms=[(0, 120)], svs=[(500, 2.0), (250, 0.5), (500, 0.75)], labels=dict(svs="perm")), 5))
        out.append(("sv_only", std_spec(game, hits=[], holds=[], bpms=[], svs=[(500, 2.0), (0, 0.5)], labels=dict(svs="sorted")), 2))
    if game == "sm":
        out.append(("sm_all_lists", std_spec(game, hits=[(0, 0)], holds=[(250, 1, 100)], bpms=[(0, 120)], stops=[(500, 250), (400, 10)], fakes=[(600, 2)], lifts=[(700, 3)],
                                            mines=[(750, 1), (750, 2)], rolls=[(800, 0, 0)], keysounds=[(900, 1)],
                                            labels=dict(stops="perm", mines="rev", rolls="gappy", fakes="after", lifts="mask", keysounds="gappy")), 11))
    out.append(("one_row", std_spec(game, hits=[(500, 1)], holds=[], bpms=[]), 1))
    # dimension 15: the dtype states the library itself leaves a chart in (rate() and a stack edit re-type the integer / bool
    # columns of the lists they go through; append of an item builds a new frame)
    base = dict(hits=[(0, 0), (500, 1)], holds=[(1000, 1, 250)], bpms=[(0, 120)])
    out.append(("after_rate", std_spec(game, pre=[["rate", 1.0]], **base), 4))
    out.append(("after_append", std_spec(game, pre=[["append", "hits"]], hits=[(500, 1)], holds=[(1000, 1, 250)], bpms=[(0, 120)]), 4))
    out.append(("after_stack_edit", std_spec(game, pre=[["stack_edit"]], **base), 4))
    return out + _c12_repeated_label_specs(game)


def _c12_repeated_label_specs(game):
    """dimension 18: REPEATED ROW LABELS - lists whose frame index has duplicate labels, as public construction gives them:
    ListClass(pd.concat([a.df, b.df])) without ignore_index ("dup": labels 0, 0, 1 / 0, 1, 2, 0, 1, 2) or a list built from a
    frame with one label on every row ("same": 7, 7).  One list of the chart / every list of the chart (notes, tempo, SV, stops,
    mines) / a larger chart, rows in and out of time order.  Lengths, row order and values are compared as for every chart (the
    statement is silent about the labels themselves: not asserted)."""
    sv = game in ("osu", "qua")
    out = []
    out.append(("repeated_labels", std_spec(game, hits=[(0, 0), (500, 1), (600, 2)], holds=[], bpms=[(0, 120)], labels=dict(hits="dup")), 4))
    if sv:
        out.append(("repeated_labels_all", std_spec(game, hits=[(500, 1), (0, 0)], holds=[], bpms=[(0, 120), (700, 60)], svs=[(250, 1.5), (250, 0.5)],
                                                    labels=dict(hits="same", bpms="dup", svs="dup")), 6))
    elif game == "sm":
        out.append(("repeated_labels_all", std_spec(game, hits=[(500, 1), (0, 0)], holds=[], bpms=[(0, 120), (700, 60)], stops=[(500, 250), (400, 10)], mines=[(750, 1), (750, 2)],
                                                    labels=dict(hits="same", bpms="dup", stops="dup", mines="same")), 8))
    else:
        out.append(("repeated_labels_all", std_spec(game, hits=[(500, 1), (0, 0)], holds=[], bpms=[(0, 120), (700, 60)], labels=dict(hits="same", bpms="dup")), 4))
    out.append(("repeated_labels_larger", std_spec(game, hits=[(i * 250, i % 4) for i in range(6)], holds=[(2000 + i * 500, (i + 1) % 4, 250) for i in range(3)], bpms=[(0, 120), (1000, 180), (3000, 90)],
                                                   labels=dict(hits="dup", holds="same", bpms="dup"), **({"svs": [(0, 1.0), (1250, 0.5)], } if sv else {})), 12 + (2 if sv else 0)))
    if sv:
        out[-1][1].setdefault("labels", {})["svs"] = "same"
    return out


def _c12_game(rep, game):
    rng = rep.rng
    specs = _c12_specs(game)
    quick = rep.tier == "quick"
    n_seq = [0]
    sizes = {}
    stopped = [False]

    def run(spec, ops, check_all=False, twin=False):
        if stopped[0] or rep.out_of_time(38, 330):
            stopped[0] = True
            return
        case = dict(spec=spec, ops=ops)
        if twin:
            case["twin"] = True
        rep.case(case, nontrivial=any(o[0] != "restack" for o in ops))
        n_seq[0] += 1
        # prefixes are cases of their own, so an enumerated sequence is compared after its last op only
        for what, d in _run_chart_case(case, check_from=0 if check_all else len(ops) - 1):
            rep.fail(what, case, d)

    # phase 0 (breadth first, so that a time cut never leaves a chart unvisited): on EVERY chart the single ops of the reduced
    # alphabet, every further type restriction followed by assignments, some single ops and sequences of the complete alphabet
    # (half of the sequences with a second chart + stacker alive)
    alph = {label: (_alphabet(game, nrows, True), _alphabet(game, nrows, False)) for label, spec, nrows in specs}
    # pass 0 (first of all, a few dozen cases): every column name found in the data, every access form, on the one small chart
    # that fills every list kind the game's other small charts fill
    first = "with_sv" if game in ("osu", "qua") else "small"
    for label, spec, nrows in specs:
        if label == first:
            for op in _data_ops(game, spec, True):
                run(spec, [op])
    for label, spec, nrows in specs:  # pass 1: the reduced alphabet, one op at a time
        for op in alph[label][1]:
            run(spec, [op])
    n_data = n_seq[0]
    for label, spec, nrows in specs:  # pass 1b: every column name found in the data of the chart's lists; the value range
        for op in (_data_ops(game, spec, label in RICH_SPECS) if label != first else []):
            run(spec, [op])
        for op in RANGE_OPS:
            run(spec, [op])
    rep.extra["data_columns"] = {k: type(v).__name__ for k, v in _data_columns(game).items()}
    rep.extra["data_column_and_range_cases"] = n_seq[0] - n_data
    for label, spec, nrows in specs:  # pass 2: a first draw from the complete alphabet
        full = alph[label][0]
        for op in rng.sample(full, min(3, len(full))):
            run(spec, [op])
        for i in range(2):
            run(spec, [rng.choice(full) for _ in range(3)], check_all=True, twin=(i == 0))
    for label, spec, nrows in specs:  # pass 3: the further type restrictions, a second draw
        full, red = alph[label]
        assign = [o for o in red if o[0] != "restack"]
        for r in _more_restacks(game):
            for op in rng.sample(assign, 3):
                run(spec, [r, op])
        for op in rng.sample(full, min(3, len(full))):
            run(spec, [op])
        for i in range(2):
            run(spec, [rng.choice(full) for _ in range(3)], check_all=True, twin=(i == 0))
    n_phase0 = n_seq[0]
    # phase A: every single op of the complete alphabet on every chart
    for label, spec, nrows in specs:
        full = _alphabet(game, nrows, True)
        sizes[label] = dict(complete=len(full), reduced=len(_alphabet(game, nrows, False)))
        for op in full:
            run(spec, [op])
    # phase B: all sequences of length 3 over the reduced alphabet (quick: 10 of its 13 ops, on the filtered-label chart)
    for label, spec, nrows in specs:
        if nrows > 4 or nrows == 0 or (quick and label != "filtered"):
            continue
        red = _alphabet(game, nrows, False)
        if quick:
            red = [o for o in red if o not in (["iadd", "length", 0.5], ["iadd", "column", 1], ["restack", ["HitList", "HoldList"]])]
        for p3 in itertools.product(red, repeat=3):
            run(spec, list(p3))
    # phase C: all sequences of length 2 over the reduced alphabet on every small chart
    for label, spec, nrows in specs:
        if nrows > 4 or (quick and label in ("gappy", "empty_holds", "all_empty", "int_columns", "one_row", "sv_only", "after_append", "after_stack_edit")):
            continue
        red = _alphabet(game, nrows, False)
        for p2 in itertools.product(red, repeat=2):
            run(spec, list(p2))
    # phase D: random sequences of length 3 over the complete alphabet, compared after every op (every 4th with a twin chart)
    for label, spec, nrows in specs:
        full = _alphabet(game, nrows, True)
        for i in range(rep.n(25, 1500)):
            run(spec, [rng.choice(full) for _ in range(3)], check_all=True, twin=(i % 4 == 3))
    rep.extra["alphabet_sizes"] = sizes
    rep.extra["sequences"] = n_seq[0]
    rep.extra["sequences_breadth_first_phase"] = n_phase0
    rep.extra["charts"] = [x[0] for x in specs]
    rep.extra["stopped_by_time_budget"] = stopped[0]
    rep.extra["condition_masks_differing_between_stack_view_and_lists"] = PHANTOM[0]
    rep.bound = (f"{game}: {len(specs)} charts (<= 4 stacked rows incl. empty lists, gappy / filtered labels; one larger chart; added: empty tempo list alone, rows not in time order, "
                 f"permuted / reversed / sorted()-made labels on notes, tempo, SV and stop lists, ties (two notes / tempo changes / SVs at one time), zero-length hold on a mask threshold, "
                 f"negative / 1e9 / fractional times, integer-typed offset and length columns, every StepMania list kind filled, osu samples filled, single row; "
                 f"dimension 18, REPEATED ROW LABELS: {len(REPEATED_LABEL_SPECS)} charts whose lists carry duplicate index labels as ListClass(pd.concat([a.df, b.df])) without ignore_index (0, 0, 1 / 0, 1, 2, 0, 1, 2) or a frame with one label on every row (7, 7) give them - "
                 f"on one list, on every list kind of the chart (notes, tempo, SV, stops, mines), on a larger chart); "
                 f"breadth first on every chart: reduced-alphabet single ops, EVERY COLUMN NAME FOUND IN THE DATA of the chart's stacked lists beyond the five base ones ({sorted(set(_data_columns(game)) - set(_BASE_COLS))}: "
                 f"plain assignment of a value of the column's kind; on {len([x for x in specs if x[0] in RICH_SPECS])} charts also += / -= / self-assignment / loc assignment; a column the stack does not expose is the class stack_property_missing.<game>.<column>), "
                 f"{len(RANGE_OPS)} value-range ops (shift by -1e9 / +1e12, column * -1, offset * 0, column = 0, column - 3, bpm = 0.001), {len(_more_restacks(game))} further type restrictions (NoteList, exact list classes) x 3 assignments, 6 + 4 random complete-alphabet ops / "
                 f"length-3 sequences (half with a second equal chart and its stacker alive); then every single op of the complete alphabet "
                 f"(whole-column += -= *= /= self-assign and plain assignment of one value on offset/column/bpm/length/metronome, python and numpy scalar values, loc[mask, col(s)] = / += with ALL 2^n positional masks and 6 condition masks "
                 f"(two with rows exactly on the threshold) on 4 single and 2 double "
                 f"column choices, re-stack, type-restricted stacks, game specific props); ALL length-3 sequences over a reduced alphabet "
                 f"({'10 ops, filtered-label chart' if quick else '13 ops, every small chart'}); ALL length-2 sequences over the 13-op reduced alphabet on {'most of the' if quick else 'all'} small charts; "
                 f"{rep.n(25, 1500)} random length-3 sequences per chart over the complete alphabet (every 4th with a twin chart)")
    rep.rule = ("a case is (chart, op sequence[, twin]), compared list by list with the per-list oracle after the last op; non-trivial when it contains an assignment; "
                "twin cases also demand that a second equal chart is unchanged and then behaves the same through its own earlier-made stacker")


def _mk_game_check(game):
    def fn(rep):
        _c12_game(rep, game)

    fn.__name__ = f"stack_sequences_{game}"
    return fn


for _g in GAMES:
    _f = _mk_game_check(_g)
    globals()[_f.__name__] = bounded("C12", note=f"stack operation sequences (length <= 3) on {_g} charts against a per-list oracle on plain rows")(_f)

    def _mk_replay(_name=_f.__name__):
        @replayer(_name)
        def _replay(case, what):
            bad = _run_chart_case(case)
            hit = [d for w, d in bad if w == what]
            return (bool(hit), hit[0] if hit else "passes")

        return _replay

    _mk_replay()


# ---------------------------------------------------------------------------------------------------------------- mapset stack
def _set_fields(ms):
    """the mapset's own dataclass fields (not the charts)"""
    out = {}
    if dataclasses.is_dataclass(ms):
        for f in dataclasses.fields(ms):
            if f.name != "maps":
                out[f.name] = _field_value(getattr(ms, f.name))
    return out


def _run_mapset_ops(ms, ops, check_from=0, s=None):
    models = [_Model(m) for m in ms.maps]
    fields0 = [_fields_of(m) for m in ms.maps]
    set0 = _set_fields(ms)
    if s is None:
        s = ms.stack()
    out = []
    for k, op in enumerate(ops):
        if op[0] == "restack":
            s = ms.stack()
            for md in models:
                md.touched = set()
        else:
            col = op[1]
            if not all(md.has_col(col) for md in models):
                continue
            if models and _missing_prop(s, models[0], op) is not None:
                return out + [(f"stack_property_missing.{_game_of(ms)}.{col}", f"op {k} {op}: the lists of every chart of the set carry a column {col!r}, {type(s).__qualname__} has no attribute of that name")]
            try:
                if op[0] == "self":
                    setattr(s, col, getattr(s, col))
                    for md in models:
                        md.touched = set()
                else:
                    v = _val(op[2])
                    cur = getattr(s, col)
                    if op[0] == "iadd":
                        cur += v
                    elif op[0] == "isub":
                        cur -= v
                    elif op[0] == "idiv":
                        cur /= v
                    else:
                        cur *= v
                    setattr(s, col, cur)
                    for md in models:
                        md.whole(op[0], col, _plain(v))
            except Exception as ex:
                return out + [("stack_op_raises", f"op {k} {op}: {type(ex).__name__}: {ex}")]
        if k >= check_from:
            for i, (m, md, f0) in enumerate(zip(ms.maps, models, fields0)):
                bad = _compare(m, md, f0)
                if bad:
                    return out + [(wh, f"after op {k} {op}: chart {i}: {d}") for wh, d in bad]
            if len(ms.maps) != len(models):
                return out + [("list_length", f"after op {k} {op}: number of charts {len(models)} -> {len(ms.maps)}")]
            d = diff(set0, _set_fields(ms))
            if d:
                return out + [("chart_fields_untouched", f"after op {k} {op}: mapset fields: {'; '.join(d[:3])}")]
    return out


def _run_mapset_case(case, check_from=0):
    """case: dict(spec=mapset spec, ops=[whole-column ops / restack], twin=bool); twin as in _run_chart_case: a second equal
    mapset and its stacker are alive while the first one is edited."""
    ms = _fresh(case["spec"])
    if not case.get("twin"):
        return _run_mapset_ops(ms, case["ops"], check_from)
    ms2 = _fresh(case["spec"])
    s2 = ms2.stack()
    before = snapshot(ms2)
    out = _run_mapset_ops(ms, case["ops"], check_from)
    if out:
        return out
    d = diff(before, snapshot(ms2))
    if d:
        return [("other_chart_untouched", "a second mapset (own objects, equal content) changed while the first one was edited through its stack: " + "; ".join(d[:3]))]
    return [(wh, "second mapset, stacked before the first one was edited: " + dd) for wh, dd in _run_mapset_ops(ms2, case["ops"], check_from, s=s2)]


def _mapset_specs(game):
    a = std_spec(game, hits=[(0, 0), (500, 1)], holds=[(1000, 1, 250)], bpms=[(0, 120)])
    b = std_spec(game, hits=[(100, 2)], holds=[], bpms=[(0, 100), (400, 50)], labels=dict(hits="gappy", bpms="after"))
    c = std_spec(game, hits=[(i * 100, i % 3) for i in range(5)], holds=[(700, 1, 50), (900, 0, 60)], bpms=[(0, 150)], labels=dict(hits="mask", holds="gappy"))
    e = std_spec(game, hits=[], holds=[], bpms=[])
    out = [("one", dict(game=game, maps=[a])), ("two_ragged", dict(game=game, maps=[a, b])), ("three", dict(game=game, maps=[c, a, b])), ("equal_charts", dict(game=game, maps=[a, a])),
           ("with_empty_chart", dict(game=game, maps=[a, e])), ("no_charts", dict(game=game, maps=[]))]
    # added: a chart that lacks one kind of object (or every object) at EVERY position of the set, not only at the end; rows not in
    # time order / permuted, reversed, sorted()-made labels / ties / integer columns on notes AND tempo lists; SV lists; five charts
    nh = std_spec(game, hits=[], holds=[(50, 2, 0), (50, 3, 75.5)], bpms=[(0, 90), (0, 45, 3)], labels=dict(holds="rev", bpms="perm"))      # no hits; ties; zero-length hold
    nb = std_spec(game, hits=[(300, 1), (-200.25, 0)], holds=[(1000000000.5, 1, 10)], bpms=[], labels=dict(hits="sorted"))                    # no tempo rows; unsorted, negative, large
    ic = std_spec(game, hits=[(700, 3), (100, 2)], holds=[(200, 0, 100)], bpms=[(50, 200)], labels=dict(hits="int", holds="int", bpms="int"))  # integer-typed columns, rows not in time order
    out += [("empty_chart_middle", dict(game=game, maps=[a, e, c])), ("empty_chart_first", dict(game=game, maps=[e, b, a])),
            ("no_holds_middle", dict(game=game, maps=[a, b, c])), ("no_holds_first", dict(game=game, maps=[b, c])),
            ("no_hits_middle", dict(game=game, maps=[c, nh, a])), ("no_bpms_middle", dict(game=game, maps=[a, nb, ic])),
            ("five_mixed", dict(game=game, maps=[a, b, nh, e, ic])), ("only_empty_charts", dict(game=game, maps=[e, e]))]
    # dimension 18: charts whose lists carry REPEATED row labels (pd.concat of two lists' frames without ignore_index; one label on every row)
    dl = std_spec(game, hits=[(0, 0), (500, 1), (600, 2)], holds=[(700, 1, 50), (900, 0, 60)], bpms=[(0, 120), (700, 60)], labels=dict(hits="dup", holds="same", bpms="dup"))
    out += [("repeated_labels_middle", dict(game=game, maps=[a, dl, b])), ("repeated_labels_twice", dict(game=game, maps=[dl, dl]))]
    if game in ("osu", "qua"):
        sa = std_spec(game, hits=[(0, 0)], holds=[], bpms=[(0, 120)], svs=[(500, 2.0), (250, 0.5), (500, 0.75)], labels=dict(svs="perm"))
        out += [("with_svs", dict(game=game, maps=[sa, a, b]))]
    if game == "sm":
        sl = std_spec(game, hits=[(0, 0)], holds=[], bpms=[(0, 120)], stops=[(500, 250), (400, 10)], fakes=[(600, 2)], lifts=[(700, 3)], mines=[(750, 1), (750, 2)],
                      rolls=[(800, 0, 30)], keysounds=[(900, 1)], labels=dict(stops="perm", mines="rev", rolls="gappy"))
        out += [("sm_all_lists", dict(game=game, maps=[a, sl, b]))]
    return out


def _mapset_alphabet():
    ops = []
    for c in ["offset", "column", "bpm", "length", "metronome"]:
        ops += [["iadd", c, 5], ["imul", c, 2], ["iadd", c, 0.5], ["self", c]]
    ops += [["restack"]]
    # added: the other two in-place operators, numpy scalars as values
    for c in ["offset", "length", "bpm"]:
        ops += [["isub", c, 5], ["idiv", c, 2]]
    ops += [["iadd", "offset", {"np": "float64", "v": 2.5}], ["imul", "column", {"np": "int64", "v": 2}], ["isub", "length", {"np": "float32", "v": 1.5}]]
    return ops


def _c12_mapset_game(rep, game):
    rng = rep.rng
    ops = _mapset_alphabet()
    red = [["iadd", "offset", 5], ["imul", "offset", 2], ["iadd", "column", 1], ["imul", "bpm", 2], ["iadd", "length", 0.5], ["self", "offset"], ["restack"]]
    core = [["iadd", "offset", 5], ["imul", "length", 2], ["iadd", "column", 1], ["imul", "bpm", 2], ["idiv", "offset", 2], ["iadd", "metronome", 0.5]]
    specs = _mapset_specs(game)
    st = dict(stopped=False, n=0)

    def run(spec, sq, twin=False):
        if st["stopped"] or rep.out_of_time(38, 300):
            st["stopped"] = True
            return
        case = dict(spec=spec, ops=sq)
        if twin:
            case["twin"] = True
        rep.case(case, nontrivial=any(o[0] != "restack" for o in sq) and len(spec["maps"]) > 0)
        st["n"] += 1
        for what, d in _run_mapset_case(case, check_from=len(sq) - 1):
            rep.fail(what, case, d)

    # every column name found in the data of the charts' lists beyond the five base ones, for the games that have a mapset class
    # of their own (a plain reamber.base.MapSet of osu / Quaver / BMS charts is a generic container: not asserted there)
    data_ops = []
    if game_table()[game]["mapset"] is not None:
        for c, v0 in _data_columns(game).items():
            if c not in _BASE_COLS:
                data_ops += [["self", c, None, "data"]] + ([["iadd", c, 1, "data"]] if isinstance(v0, (int, float)) and not isinstance(v0, bool) else [])
    for label, spec in specs:
        if label in ("one", "two_ragged", "three"):
            for op in data_ops:
                run(spec, [op])
    rep.extra["data_column_ops"] = data_ops
    # breadth first, so that a time cut never leaves a mapset unvisited: (0) one op on each stacked property + two sequences on every
    # mapset, (1) every single op, (2) random sequences, (3) all pairs, (4) all triples
    for label, spec in specs:
        for op in (core[:4] if label == "no_charts" else core):
            run(spec, [op])
        if label != "no_charts":
            run(spec, [["iadd", "length", 5], ["imul", "offset", 2], ["iadd", "column", 1]], twin=True)
            run(spec, [["imul", "bpm", 2], ["restack"], ["isub", "offset", 5]])
    n0 = st["n"]
    for label, spec in specs:
        for op in (ops[:4] + [["restack"]] if label == "no_charts" else ops):
            run(spec, [op])
    for label, spec in specs:
        if label != "no_charts":
            for i in range(rep.n(10, 300)):
                run(spec, [rng.choice(ops) for _ in range(3)], twin=(i % 3 == 2))
    for label, spec in specs:
        if label != "no_charts":
            for p in itertools.product(red, repeat=2):
                run(spec, list(p))
    for label, spec in specs:
        if label != "no_charts" and (rep.tier != "quick" or label in ("two_ragged", "with_empty_chart", "empty_chart_middle", "no_holds_middle")):
            for p in itertools.product(red, repeat=3):
                run(spec, list(p))
    rep.extra["stopped_by_time_budget"] = st["stopped"]
    rep.extra["mapsets"] = [x[0] for x in specs]
    rep.extra["sequences_breadth_first_phase"] = n0
    rep.bound = (f"{game}: {len(specs)} mapsets (1-5 charts of different sizes, two equal charts, no chart; a chart whose hit / hold / tempo lists carry REPEATED row labels (pd.concat without ignore_index, one label on every row) in the middle of a set and twice; an all-empty chart and a chart without holds / hits / tempo rows at the FIRST, a MIDDLE and the last "
                 f"position, only empty charts; sm / o2j: every game specific column name found in the data, += 1 and self-assignment, class stack_property_missing.<game>.<column>; gappy / filtered / permuted / reversed / sorted()-made labels and rows not in time order on notes and tempo lists, ties, zero-length holds, negative / 1e9 / fractional "
                 f"times, integer-typed columns, SV lists (osu, quaver), every StepMania list kind): breadth first 6 ops + 2 sequences on every mapset (one with a second equal mapset and its stacker alive), "
                 f"then every single whole-column op (+=, -=, *=, /=, self-assign on offset/column/bpm/length/metronome, python and numpy scalar values; re-stack), {rep.n(10, 300)} random length-3 sequences per mapset "
                 f"(every 3rd with a twin), all length-2 sequences over a 7-op alphabet, all length-3 sequences "
                 f"{'on 4 mapsets (ragged, with an empty chart last / in the middle, without holds in the middle)' if rep.tier == 'quick' else 'on every mapset'}; {st['n']} sequences")
    rep.rule = ("a case is (mapset, op sequence[, twin]); compared per chart and per list with the per-list oracle; non-trivial when it contains an assignment on a non-empty mapset; "
                "twin cases also demand that a second equal mapset is unchanged and then behaves the same through its own earlier-made stacker")


def _mk_mapset_check(game):
    def fn(rep):
        _c12_mapset_game(rep, game)

    fn.__name__ = f"mapset_stack_sequences_{game}"
    return fn


for _g in GAMES:
    _f = _mk_mapset_check(_g)
    globals()[_f.__name__] = bounded("C12", note=f"MapSet.stack(): whole-column operation sequences (length <= 3) on {_g} mapsets; per chart, per list oracle")(_f)

    def _mk_replay_ms(_name=_f.__name__):
        @replayer(_name)
        def _replay(case, what):
            bad = _run_mapset_case(case)
            hit = [d for w, d in bad if w == what]
            return (bool(hit), hit[0] if hit else "passes")

        return _replay

    _mk_replay_ms()


# ---------------------------------------------------------------------------------------------------------------- stale stackers
def _model_direct(model, step):
    """direct edits of the lists (not through a stacker), on the oracle"""
    kind, name = step[1], step[2]
    l = model.lists[name]
    model.touched = set()
    if kind == "iadd":
        col, v = step[3], step[4]
        l["data"][col] = [x + v for x in l["data"][col]]
    elif kind == "filter_after":
        keep = [x > step[3] for x in l["data"]["offset"]]
        for c in l["cols"]:
            l["data"][c] = [x for x, k in zip(l["data"][c], keep) if k]
        l["n"] = sum(keep)
    elif kind == "reverse":
        order = sorted(range(l["n"]), key=lambda i: -l["data"]["offset"][i])
        for c in l["cols"]:
            l["data"][c] = [l["data"][c][i] for i in order]
    elif kind == "append_first":
        for c in l["cols"]:
            l["data"][c] = l["data"][c] + l["data"][c][:1]
        l["n"] += 1
    else:
        raise ValueError(step)


def _real_direct(m, step):
    kind, name = step[1], step[2]
    lst = getattr(m, name)
    if kind == "iadd":
        setattr(lst, step[3], getattr(lst, step[3]) + step[4])
    elif kind == "filter_after":
        setattr(m, name, lst.after(step[3]))
    elif kind == "reverse":
        setattr(m, name, lst.sorted(reverse=True))
    elif kind == "append_first":
        setattr(m, name, lst.append(lst[0:1]))


def _run_stale_case(case, stale=True):
    """case: dict(spec=, history=[["new", s] | ["op", s, op] | ["direct", kind, list, ...]]).  Every difference from the per-list
    oracle is reported under the one clause `stale_stacker` (stale=False: under the ordinary clause ids)."""
    m = _fresh(case["spec"])
    model = _Model(m)
    fields0 = _fields_of(m)
    st = {}
    for k, step in enumerate(case["history"]):
        if step[0] == "new":
            st[step[1]] = m.stack()
        elif step[0] == "direct":
            if model.lists[step[2]]["n"] == 0:
                continue
            _real_direct(m, step)
            _model_direct(model, step)
        else:
            try:
                r = _apply_real(st[step[1]], model, step[2])
            except Exception as ex:
                return [("stale_stacker" if stale else "stack_op_raises", f"step {k} {step}: {type(ex).__name__}: {ex}")]
            if r == "skip":
                continue
        bad = _compare(m, model, fields0, stale=stale)
        if bad:
            return [(wh, f"after step {k} {step}: {d}") for wh, d in bad[:1]]
    return []


def _stale_histories():
    first = [
        ["op", "s2", ["iadd", "column", 1]],
        ["op", "s2", ["imul", "bpm", 2]],
        ["op", "s2", ["iadd", "offset", 7]],
        ["op", "s2", ["loc", "set", {"cond": ["offset", ">", 400.0]}, "column", 3]],
        ["direct", "iadd", "hits", "offset", 5],
        ["direct", "iadd", "bpms", "bpm", 5],
        ["direct", "filter_after", "hits", 250.0],
        ["direct", "filter_after", "holds", 250.0],
        ["direct", "reverse", "hits"],
        ["direct", "append_first", "hits"],
    ]
    stale = [["op", "s", ["iadd", "offset", 1]], ["op", "s", ["imul", "bpm", 2]], ["op", "s", ["iadd", "column", 1]], ["op", "s", ["iadd", "length", 1]], ["op", "s", ["self", "offset"]]]
    out = []
    for f in first:
        for u in stale:
            out.append([["new", "s"], ["new", "s2"], f, u])
    # the stale stacker used twice, and the other stacker used again afterwards
    out.append([["new", "s"], ["new", "s2"], ["op", "s2", ["iadd", "column", 1]], ["op", "s", ["iadd", "offset", 1]], ["op", "s2", ["iadd", "offset", 1]]])
    out.append([["new", "s"], ["op", "s", ["iadd", "offset", 1]], ["new", "s2"], ["op", "s2", ["iadd", "column", 1]], ["op", "s", ["iadd", "offset", 1]]])
    return out


@bounded("C12", note="a stacker used after the lists were changed through another stacker or directly (suspected defect F18: the stale stacker writes back every column and row of its old copy)")
def stale_stacker_histories(rep):
    hs = _stale_histories()
    n_fail = 0
    for game in GAMES:
        specs = [x for x in _c12_specs(game) if x[0] in ("small", "filtered", "larger", "empty_holds")]
        for label, spec, nrows in specs:
            for h in hs:
                if rep.out_of_time(35, 200):
                    break
                case = dict(spec=spec, history=h)
                rep.case(case, nontrivial=True)
                bad = _run_stale_case(case)
                n_fail += bool(bad)
                for what, d in bad:
                    rep.fail(what, case, d)
    rep.extra["histories_failing"] = n_fail
    rep.bound = (f"5 games x 4 charts x {len(hs)} histories: s = m.stack(); then the lists are changed through a second stacker (4 ops) or directly "
                 f"(list.col += v, m.hits = m.hits.after(t), reverse sort, append); then one whole-column op through the stale s (5 ops); 2 longer interleavings")
    rep.rule = "a case is (chart, history); compared with the per-list oracle after every step; every case uses a stale stacker"


@replayer("stale_stacker_histories")
def _replay_stale(case, what):
    bad = _run_stale_case(case)
    hit = [d for w, d in bad if w == what]
    return (bool(hit), hit[0] if hit else "passes")


# ---------------------------------------------------------------------------------------------------------------- stack - change - stack again
def _fresh_after_change_histories():
    """s = m.stack(); an assignment through s; the lists are changed directly (public list operations: col += v on a list,
    assigning a filtered / re-sorted / longer list to the chart); s = m.stack() AGAIN; an assignment through the new s.
    No stacker is ever used after a change it has not seen, so the per-list oracle applies to every step."""
    direct = [
        ["direct", "iadd", "hits", "offset", 5],
        ["direct", "iadd", "hits", "column", 1],
        ["direct", "iadd", "holds", "length", 2.5],
        ["direct", "iadd", "bpms", "bpm", 5],
        ["direct", "filter_after", "hits", 250.0],
        ["direct", "filter_after", "holds", 250.0],
        ["direct", "filter_after", "bpms", -1.0],
        ["direct", "reverse", "hits"],
        ["direct", "append_first", "hits"],
        ["direct", "append_first", "bpms"],
    ]
    before = [["iadd", "offset", 1], ["imul", "column", 2], ["self", "bpm"]]
    after = [["iadd", "offset", 1], ["imul", "bpm", 2], ["iadd", "column", 1], ["iadd", "length", 1], ["self", "offset"], ["loc", "set", {"cond": ["offset", ">", 400.0]}, "column", 3]]
    out = []
    for d in direct:
        for i, u in enumerate(after):
            out.append([["new", "s"], ["op", "s", before[i % len(before)]], d, ["new", "s"], ["op", "s", u]])
    # two rounds of change - re-stack, and a change before the very first stack
    out.append([["new", "s"], ["op", "s", ["iadd", "offset", 1]], direct[4], ["new", "s"], ["op", "s", ["iadd", "column", 1]], direct[8], ["new", "s"], ["op", "s", ["imul", "offset", 2]]])
    out.append([direct[1], ["new", "s"], ["op", "s", ["iadd", "column", 1]], direct[7], ["new", "s"], ["op", "s", ["self", "column"]], ["op", "s", ["iadd", "offset", 3]]])
    return out


@bounded("C12", note="stack - assign - change the lists through public list operations - stack AGAIN - assign: the new stacker must see the chart as it is now (nothing cached from the first stack)")
def restack_after_direct_change(rep):
    hs = _fresh_after_change_histories()
    for game in GAMES:
        specs = [x for x in _c12_specs(game) if x[0] in ("small", "filtered", "larger", "empty_holds", "unsorted_perm", "repeated_labels_larger")]
        for h in hs:  # breadth first over the charts
            for label, spec, nrows in specs:
                if rep.out_of_time(30, 200):
                    break
                case = dict(spec=spec, history=h)
                rep.case(case, nontrivial=True)
                for what, d in _run_stale_case(case, stale=False):
                    rep.fail(what, case, d)
    rep.bound = (f"5 games x 6 charts (one with REPEATED row labels on its hit, hold and tempo lists) x {len(hs)} histories: s = m.stack(); one assignment through s (3 ops); the lists changed directly (list.offset / column / length / bpm += v, m.hits / holds / bpms = "
                 f"list.after(t), reverse sort, append: 10 changes); s = m.stack() again; one assignment through the new s (6 ops incl. a conditional one); 2 longer histories with two rounds")
    rep.rule = "a case is (chart, history); compared with the per-list oracle after every step under the ordinary clause ids; no stacker is used after a change it has not seen"


@replayer("restack_after_direct_change")
def _replay_fresh(case, what):
    bad = _run_stale_case(case, stale=False)
    hit = [d for w, d in bad if w == what]
    return (bool(hit), hit[0] if hit else "passes")


# ---------------------------------------------------------------------------------------------------------------- dimension 15: column types
_DTYPE_OPS = [["iadd", "offset", 5], ["loc", "set", {"cond": ["offset", ">", 400.0]}, "offset", 777.0], ["set", "bpm", 90.5], ["imul", "length", 2], ["self", "offset"],
              ["loc", "iadd", {"cond": ["column", "==", 1]}, ["offset", "length"], 2.0]]
_DTYPE_CHARTS = ("small", "larger", "int_columns", "with_sv", "sm_all_lists", "empty_holds", "after_rate", "after_append", "after_stack_edit")


def _dtypes_of(m):
    return {name: {str(c): str(t) for c, t in zip(lst.df.columns, lst.df.dtypes)} for name, lst in chart_lists(m).items()}


def _run_dtype_case(case):
    """case: dict(spec=, include=None | [kinds], op=) -> [(what, detail)].  `changes nothing else ... other columns and lists that
    lack the property are untouched`: after ONE assignment through a (possibly type-restricted) stack every column that the
    per-list assignment does not assign keeps its dtype - in the lists of the stack (`untouched_column_dtype.<from>_to_<to>`, one
    clause per kind of re-typing) and in the lists outside it (`lacking_list_dtypes`)."""
    m = _fresh(case["spec"])
    model = _Model(m)
    model.include = case.get("include")
    before = _dtypes_of(m)
    try:
        s = _do_stack(m, model.include)
        r = _apply_real(s, model, case["op"])
    except Exception as ex:
        return [("stack_op_raises", f"{case['op']}: {type(ex).__name__}: {ex}")]
    if r == "skip":
        return None
    after = _dtypes_of(m)
    inc = set(model.included())
    out, seen = [], set()
    for name, cols in before.items():
        for c, t0 in cols.items():
            t1 = after.get(name, {}).get(c)
            if t1 is None or t1 == t0 or (name, c) in model.touched_cols:
                continue
            what = f"untouched_column_dtype.{t0}_to_{t1}" if name in inc else "lacking_list_dtypes"
            if what not in seen:
                seen.add(what)
                out.append((what, f"{case['op']} through stack({case.get('include')}): {name}.{c} ({len(chart_lists(m)[name])} rows) is not assigned by the per-list assignment, its type changed {t0} -> {t1}"))
    return out


@bounded("C12", note="dimension 15: one assignment through a stack leaves the TYPE of every column it does not assign as it was (lists in the stack and outside it), on charts in every dtype state the library produces (fresh, integer-typed, after rate(), after append of an item, after an earlier stack edit)")
def stack_edit_keeps_untouched_dtypes(rep):
    n = 0
    for game in GAMES:
        specs = {label: spec for label, spec, _ in _c12_specs(game)}
        incs = [None, ["HitList"], ["BpmList"], ["NoteList"], ["list:holds"]]
        for label in _DTYPE_CHARTS:
            if label not in specs:
                continue
            for inc in incs:
                for op in _DTYPE_OPS:
                    if rep.out_of_time(20, 120):
                        break
                    case = dict(spec=specs[label], op=op)
                    if inc is not None:
                        case["include"] = inc
                    bad = _run_dtype_case(case)
                    if bad is None:
                        continue
                    n += 1
                    rep.case(case, nontrivial=True)
                    for what, d in bad:
                        rep.fail(what, case, d)
    rep.bound = (f"5 games x up to {len(_DTYPE_CHARTS)} charts {_DTYPE_CHARTS} (fresh int64 / bool columns, integer-typed offsets, after rate(1), after append of an item, "
                 f"after a value-preserving stack edit) x 5 stacks (whole chart, HitList, BpmList, NoteList, the exact hold list class) x {len(_DTYPE_OPS)} assignments (whole column += / = / *= / self, "
                 f"conditional on one and two columns): {n} applicable cases")
    rep.rule = "a case is (chart, stack restriction, one assignment); every (list, column) the per-list assignment does not assign must keep its dtype"


@replayer("stack_edit_keeps_untouched_dtypes")
def _replay_dtype(case, what):
    bad = _run_dtype_case(case) or []
    hit = [d for w, d in bad if w == what]
    return (bool(hit), hit[0] if hit else "passes")
