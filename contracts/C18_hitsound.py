"""C18 - hitsound copy (deductive kernels; the grouping pipeline and whole charts: contracts/C18_bounded.py).

The two slot-filling loops of hitsound_copy as loop-body units from an arbitrary state:
 * one default-sample step: when a target note is free it receives exactly the sounds still owed (one clap /
   finish / whistle each at most), the owed counters go down by what was placed - so never more sounds than the
   source had, and as many as the notes can hold; when no note is free nothing is written;
 * one named-sample step: the file lands on the next free note, or - EVERY time no note is free - becomes an event
   sample at that time; no other note is touched.
"""
from pyvc.dsl import contract, lemma, bounded, loop_unit, Int, Real, Bool, Obj, Const, Choice, ListT, FrameT, Text, TimedListT, MapT
from pyvc.ghost import eqr, implies, rows

HSC = "reamber.algorithms.osu.hitsound_copy:hitsound_copy"

_DF = FrameT(dict(offset=Real(), column=Int(), hitsound_set=Int(0, 14), volume=Int(0, 100), hitsound_file=Const("")), 3)


def _ix_ok(slot_indexes, n):
    return all(0 <= i and i < n for i in slot_indexes) and len(set(slot_indexes)) == len(slot_indexes)


@loop_unit("C18", HSC, anchor="for _ in range(samples)",
           args=dict(df=_DF, slot_indexes=Choice([Const([]), Const([1]), Const([0, 2]), Const([2, 0, 1])]), slot=Int(0), slot_max=Int(0),
                     claps=Int(0), finishes=Int(0), whistles=Int(0), volume=Int(), offset=Real(),
                     HS_CLAP=Const(2), HS_FINISH=Const(4), HS_WHISTLE=Const(8)))
class default_sample_step:
    assumes = ["the state's target table has 3 rows (static shape); slot list of 0..3 distinct row labels"]
    max_paths = 3000

    def requires(df, slot_indexes, slot, slot_max, claps, finishes, whistles, volume, offset, HS_CLAP, HS_FINISH, HS_WHISTLE):
        return slot_max == len(slot_indexes) and slot <= slot_max

    def ensures_free_note_gets_exactly_the_owed_sounds(df, slot_indexes, slot, slot_max, claps, finishes, whistles, volume, offset, HS_CLAP, HS_FINISH, HS_WHISTLE, result, old):
        placed = (2 if claps > 0 else 0) + (4 if finishes > 0 else 0) + (8 if whistles > 0 else 0)
        return implies(slot < slot_max,
                       result.outcome == "normal" and result.slot == slot + 1
                       and result.claps == (claps - 1 if claps > 0 else 0) and result.finishes == (finishes - 1 if finishes > 0 else 0) and result.whistles == (whistles - 1 if whistles > 0 else 0)
                       and all(implies(k == slot, result.df["hitsound_set"].tolist()[slot_indexes[k]] == placed) for k in range(len(slot_indexes))))

    def ensures_no_free_note_nothing_written(df, slot_indexes, slot, slot_max, claps, finishes, whistles, volume, offset, HS_CLAP, HS_FINISH, HS_WHISTLE, result, old):
        return implies(slot == slot_max, result.outcome == "break" and result.df["hitsound_set"].tolist() == old.df["hitsound_set"].tolist()
                       and result.df["volume"].tolist() == old.df["volume"].tolist() and result.claps == claps and result.slot == slot)

    def ensures_other_notes_untouched(df, slot_indexes, slot, slot_max, claps, finishes, whistles, volume, offset, HS_CLAP, HS_FINISH, HS_WHISTLE, result, old):
        now, was = result.df["hitsound_set"].tolist(), old.df["hitsound_set"].tolist()
        return (all(implies(not any(k == slot and slot_indexes[k] == r for k in range(len(slot_indexes))), now[r] == was[r]) for r in range(3))
                and result.df["offset"].tolist() == old.df["offset"].tolist() and result.df["column"].tolist() == old.df["column"].tolist())

    def witnesses(rng):
        import pandas as pd

        for _ in range(150):
            si = rng.choice([[], [1], [0, 2], [2, 0, 1]])
            df = pd.DataFrame(dict(offset=[0.0, 0.0, 100.0], column=[0, 1, 2], hitsound_set=[rng.choice([0, 2, 8]) for _ in range(3)], volume=[0, 30, 0], hitsound_file=["", "", ""]))
            yield dict(df=df, slot_indexes=si, slot=rng.randrange(0, len(si) + 1), slot_max=len(si), claps=rng.randrange(0, 3), finishes=rng.randrange(0, 3), whistles=rng.randrange(0, 3),
                       volume=rng.choice([0, 20, 30, -5]), offset=0.0, HS_CLAP=2, HS_FINISH=4, HS_WHISTLE=8)


OSU = "reamber.osu.OsuMap:OsuMap"


@loop_unit("C18", HSC, anchor="for file in hitsound_files",
           args=dict(df=_DF, slot_indexes=Choice([Const([]), Const([1]), Const([0, 2])]), slot=Int(0), slot_max=Int(0), file=Choice(["clap.wav", "b"]),
                     volume=Int(), offset=Real(), osu_tgt=MapT(OSU, dict(hits=0, holds=0, bpms=0, svs=0))))
class named_sample_step:
    assumes = ["the state's target table has 3 rows (static shape); file names concrete"]
    max_paths = 3000

    def requires(df, slot_indexes, slot, slot_max, file, volume, offset, osu_tgt):
        return slot_max == len(slot_indexes) and slot <= slot_max and len(rows(osu_tgt.samples)) == 0

    def ensures_free_note_gets_the_file(df, slot_indexes, slot, slot_max, file, volume, offset, osu_tgt, result, old):
        return implies(slot < slot_max,
                       result.slot == slot + 1 and len(rows(result.osu_tgt.samples)) == 0
                       and all(implies(k == slot, result.df["hitsound_file"].tolist()[slot_indexes[k]] == file) for k in range(len(slot_indexes))))

    def ensures_every_excess_file_becomes_an_event_sample_at_that_time(df, slot_indexes, slot, slot_max, file, volume, offset, osu_tgt, result, old):
        s = rows(result.osu_tgt.samples)
        return implies(slot == slot_max,
                       result.outcome == "continue" and len(s) == 1 and s[0]["sample_file"] == file and s[0]["offset"] == offset
                       and result.df["hitsound_file"].tolist() == old.df["hitsound_file"].tolist() and result.slot == slot)

    def ensures_notes_themselves_never_move(df, slot_indexes, slot, slot_max, file, volume, offset, osu_tgt, result, old):
        return result.df["offset"].tolist() == old.df["offset"].tolist() and result.df["column"].tolist() == old.df["column"].tolist() and len(result.df["offset"].tolist()) == 3

    def witnesses(rng):
        import pandas as pd
        from reamber.osu.OsuMap import OsuMap

        for _ in range(100):
            si = rng.choice([[], [1], [0, 2]])
            df = pd.DataFrame(dict(offset=[0.0, 0.0, 100.0], column=[0, 1, 2], hitsound_set=[0, 0, 0], volume=[0, 30, 0], hitsound_file=["", "", ""]))
            yield dict(df=df, slot_indexes=si, slot=rng.randrange(0, len(si) + 1), slot_max=len(si), file=rng.choice(["clap.wav", "b"]), volume=rng.choice([0, 20, 30]), offset=0.0, osu_tgt=OsuMap())
