"""C20 bounded stand-ins: the real `Pattern.group`, `PtnCombo.combinations`, the two templates and the three filter
classes on small note sets, against oracles written from the property statement.

 * grouping: the groups partition the notes (and hold tails when requested); inside a group every time lies within
   the vertical window of the group's first note, every column within the horizontal window of it, and no column
   repeats when jacks are avoided.  (The statement does not ask groups to be maximal - not asserted.)
 * combinations of size n: exactly the sequences taking one note from each of n consecutive groups (in the order
   `group` returned them) that pass the chord-size, column and type filters - compared as multisets with a direct
   comprehension, none missing, none extra.
 * what "passes a filter" means: the filter object's public table `ar` + `invert_filter`: a chord-size vector / a column
   sequence passes when it IS a row of the table, a type sequence passes when some row holds a superclass at every
   position; `invert_filter` negates.  Tables are produced by the real `create` with every option bitmask.
 * which table a filter created from (base rows, options, exclude) stands for ("all filter options" of the statement):
   the documented meaning of each option (docstrings of the three Option classes), applied to every base row:
   columns REPEAT = every translation that stays inside the key count, HMIRROR = the left-right mirror image, VMIRROR =
   the reversed sequence; chord sizes ANY_ORDER = every permutation, AND_LOWER = every vector between 1 and the row,
   AND_HIGHER = every vector between the row and the key count; types ANY_ORDER = every permutation, MIRROR = the
   reversed row.  The documentation describes each option on its own; for SEVERAL options at once the table must lie
   between the union of the single-option expansions and their closure (both readings accepted).  `exclude` must end
   up as `invert_filter`.  Clauses `*_options_as_documented`.

The generator varies, besides the note set and the 24 group settings: the key count (4, 5, 7), the time scale (negative,
an hour in, fractions of a ms, int-typed, 0.5 ms steps), zero-length and off-grid holds, the note classes of every game
(StepMania with mines and rolls as further lists), how the note lists were built (row order, row labels), the entry
point (from_note_lists with the lists in either order, `include_tails` defaulted, or the Pattern constructor), the way
arguments are passed (defaults omitted / positional / keywords), earlier group() calls on the same Pattern, one PtnCombo
used for all calls of a case, calls repeated with the same filter objects, 1..3 base rows per filter; note lists that were
ALREADY grouped once with other contents and then edited in place (times shifted through `.offset +=`, columns rotated
through `.column =`) before the Pattern of the case is made from the same list objects (`relist`); a vertical window far
beyond every time difference (1e9) and between two grid steps; 10 columns; for StepMania every further note list the chart
itself carries (lifts, fakes, keysounds - read from SMMap().objs, not from a table here)."""
from __future__ import annotations

from collections import Counter
from itertools import permutations, product

from pyvc.dsl import bounded
from pyvc.bounded import replayer

KEYS = 4
KEY_COUNTS = [4, 4, 4, 5, 7, 4, 4, 5, 7, 10]
TIMES = [0.0, 50.0, 100.0]
V_WINDOWS = [0, 50, 100]
# alternative time scales: (times, vertical windows); all dyadic so that t0 + v is exact in floating point
TIME_SETS = {
    "base": (TIMES, V_WINDOWS),
    "negative": ([-100.0, -50.0, 0.0], V_WINDOWS),
    "large": ([3600000.0, 3600050.0, 3600100.0], V_WINDOWS),
    "fraction": ([0.25, 50.25, 100.25], [0.0, 50.0, 100.0]),
    "int": ([0, 50, 100], V_WINDOWS),                                   # python ints: int-typed offset column
    "tight": ([0.0, 0.5, 1.0], [0, 0.5, 1.0]),                          # several times inside one millisecond
    # dimension 18: times that lie on two different grids (k * 100 and k * 100 + 31.25; differences 31.25 / 68.75 / 100 / 131.25) with vertical
    # windows finer than, equal to and coarser than the steps - each window value IS one of the differences, so a note sits exactly on its end
    "uneven": ([0.0, 31.25, 100.0, 131.25], [31.25, 68.75, 100.0]),
}
V_EXTRA = ["huge", "between"]                                           # 1e9 (beyond every difference) / half a grid step
H_WINDOWS = [None, 0, 1, 2]
H_WIDE = [2, 2, 3, 10]                                                  # the last window of a note set, incl. >= key count
HOLD_LENGTHS = [50.0, 100.0]
HOLD_LENGTHS_MORE = [0.0, 25.0]                                         # tail on its own head / off the time grid
TYPE_NAMES = ["Hit", "Hold", "HoldTail", "object"]
TYPE_NAMES_MORE = ["hit", "hold"]                                       # the exact item classes of the lists
GAMES = ["base", "base", "osu", "osu", "qua", "sm", "sm", "bms", "o2j"]
JUNK_T = -99999.0

# The documentation of AND_LOWER / AND_HIGHER speaks of "the current" base row.  With False, a table that exceeds the
# per-row reading for SEVERAL base rows is only counted (extra.chord_tables_beyond_per_row_bounds); with True it is the
# failing clause `chord_filter_lower_higher_per_base_row` (kept apart from `chord_filter_options_as_documented`).
ASSERT_PER_ROW_BOUNDS = False  # the Option docstring defines AND_LOWER / AND_HIGHER for ONE base row only; with several rows reamber pools them into one bounding box.
# Neither the property nor the docstring says which reading is meant, so this is counted (extra.chord_tables_beyond_per_row_bounds), not asserted (DESIGN section 10).


def _sm_further_lists():
    """The note lists an SMMap carries besides hits / holds / mines / rolls, read from the chart object itself:
    [(name, list class, item class, is hold-like)]"""
    from reamber.sm import SMMap
    from reamber.base.lists.notes.NoteList import NoteList
    from reamber.base.lists.notes.HoldList import HoldList

    out = []
    for name, lst in SMMap().objs.items():
        if isinstance(lst, NoteList) and name not in ("hits", "holds", "mines", "rolls"):
            out.append((name, type(lst), type(lst)._item_class(), isinstance(lst, HoldList)))
    return sorted(out, key=lambda e: e[0])


def _sm_further_kinds():
    """kind id ('hit3', 'hit4', ... / 'hold3', ...) -> (list class, item class)"""
    out, nh, nl = {}, 2, 2
    for _, L, I, hold in _sm_further_lists():
        if hold:
            nl += 1
            out[f"hold{nl}"] = (L, I)
        else:
            nh += 1
            out[f"hit{nh}"] = (L, I)
    return out


def _types(cls):
    from reamber.base.Hit import Hit
    from reamber.base.Hold import Hold, HoldTail

    base = dict(Hit=Hit, Hold=Hold, HoldTail=HoldTail, object=object)
    if cls == "osu":
        from reamber.osu import OsuHit, OsuHold

        return dict(base, hit=OsuHit, hold=OsuHold)
    if cls == "qua":
        from reamber.quaver import QuaHit, QuaHold

        return dict(base, hit=QuaHit, hold=QuaHold)
    if cls == "sm":
        from reamber.sm import SMHit, SMHold, SMMine, SMRoll

        return dict(base, hit=SMHit, hold=SMHold, hit2=SMMine, hold2=SMRoll, **{k: I for k, (L, I) in _sm_further_kinds().items()})
    if cls == "bms":
        from reamber.bms import BMSHit, BMSHold

        return dict(base, hit=BMSHit, hold=BMSHold)
    if cls == "o2j":
        from reamber.o2jam import O2JHit, O2JHold

        return dict(base, hit=O2JHit, hold=O2JHold)
    return dict(base, hit=Hit, hold=Hold)


def _list_classes(cls):
    """kind -> (list class, extra constructor arguments of its items)"""
    if cls == "osu":
        from reamber.osu.lists.notes import OsuHitList, OsuHoldList

        return dict(hit=(OsuHitList, {}), hold=(OsuHoldList, {}))
    if cls == "qua":
        from reamber.quaver.lists.notes import QuaHitList, QuaHoldList

        return dict(hit=(QuaHitList, {"keysounds": []}), hold=(QuaHoldList, {"keysounds": []}))
    if cls == "sm":
        from reamber.sm.lists.notes import SMHitList, SMHoldList, SMMineList, SMRollList

        return dict(hit=(SMHitList, {}), hold=(SMHoldList, {}), hit2=(SMMineList, {}), hold2=(SMRollList, {}), **{k: (L, {}) for k, (L, I) in _sm_further_kinds().items()})
    if cls == "bms":
        from reamber.bms.lists.notes import BMSHitList, BMSHoldList

        return dict(hit=(BMSHitList, {}), hold=(BMSHoldList, {}))
    if cls == "o2j":
        from reamber.o2jam.lists.notes import O2JHitList, O2JHoldList

        return dict(hit=(O2JHitList, {}), hold=(O2JHoldList, {}))
    from reamber.base.lists.notes.HitList import HitList
    from reamber.base.lists.notes.HoldList import HoldList

    return dict(hit=(HitList, {}), hold=(HoldList, {}))


def _mk_list(cls, rows, mk, lay):
    """One note list from its rows (construction order) through PUBLIC list operations only."""
    import numpy as np

    lay = lay or {}
    via = lay.get("via", "ctor")
    items = [mk(r) for r in rows]
    if via == "ctor" or not items:
        return cls(items)
    if via == "sorted":
        return cls(items).sorted()
    if via == "sorted_reverse":
        return cls(items).sorted(reverse=True)
    if via == "append_sorted":
        return cls(items[:-1]).append(items[-1], sort=True)
    if via == "filter":                                         # junk rows interleaved, then removed by a mask / after()
        junk = set(lay["junk_at"])
        full, keep, it = [], [], iter(items)
        for p in range(len(items) + len(junk)):
            if p in junk:
                jr = list(rows[0])
                jr[1] = type(rows[0][1])(JUNK_T)
                full.append(mk(jr))
                keep.append(False)
            else:
                full.append(next(it))
                keep.append(True)
        lst = cls(full)
        return lst.after(JUNK_T) if lay.get("by") == "after" else lst[np.array(keep)]
    if via == "labels":                                         # a list made from a DataFrame that carries these row labels
        return cls(cls(items).df.set_axis(lay["labels"]))
    raise ValueError(via)


def _kind(note):
    """hit / hold / hit2 / hold2 (the 4th entry of a note selects the game's second list class of that kind)"""
    k = "hit" if note[2] is None else "hold"
    return k + str(note[3] + 1) if len(note) > 3 and note[3] else k


def _pattern(case):
    """The real Pattern of the case and, from the statement, the multiset of (column, time, type) it must group."""
    from reamber.algorithms.pattern import Pattern

    T = _types(case["cls"])
    if case.get("np_scalars"):
        import numpy as np

        def num(x):
            return np.int64(x) if isinstance(x, int) else np.float64(x)
    else:
        def num(x):
            return x
    tails = case["tails"]
    want = Counter()
    for note in case["notes"]:
        c, t, ln = note[:3]
        want[(c, float(t), T[_kind(note)])] += 1
        if ln is not None and tails:
            want[(c, float(t) + float(ln), T["HoldTail"])] += 1
    if case.get("entry") == "ctor":                                 # Pattern(cols, offsets, types), any order of the entries
        cols, offs, tys = [], [], []
        for note in case["notes"]:
            c, t, ln = note[:3]
            cols.append(num(c)), offs.append(num(t)), tys.append(T[_kind(note)])
        for note in case["notes"]:
            c, t, ln = note[:3]
            if ln is not None and tails:
                cols.append(num(c)), offs.append(num(t + ln)), tys.append(T["HoldTail"])
        if case.get("ctor_order"):
            o = case["ctor_order"]
            cols, offs, tys = [cols[i] for i in o], [offs[i] for i in o], [tys[i] for i in o]
        return Pattern(cols, offs, tys), want
    LC = _list_classes(case["cls"])
    lay = case.get("layout") or {}
    lists = []
    rl = case.get("relist")                                         # {"d": time shift, "rot": bool}: see below
    keys = case.get("keys", KEYS)
    for kind in LC:
        rows = [n for n in case["notes"] if _kind(n) == kind]
        if rl:                                                      # the lists are first built with OTHER contents
            rows = [[(n[0] + 1) % keys if rl.get("rot") else n[0], n[1] - rl["d"], *n[2:]] for n in rows]
        L, kw = LC[kind]
        if kind.startswith("hit"):
            lists.append(_mk_list(L, rows, lambda r, kind=kind, kw=kw: T[kind](offset=num(r[1]), column=num(r[0]), **kw), lay.get(kind)))
        else:
            lists.append(_mk_list(L, rows, lambda r, kind=kind, kw=kw: T[kind](offset=num(r[1]), column=num(r[0]), length=num(r[2]), **kw), lay.get(kind)))
    if case.get("entry") == "lists_reversed":
        lists.reverse()
    if rl:
        # ... grouped once as they are, then edited IN PLACE through the list properties to the contents of the case; the Pattern
        # under test is made from the same list objects afterwards and must show the notes as they are now
        Pattern.from_note_lists(lists, include_tails=tails).group(v_window=case["v"], h_window=case["h"], avoid_jack=case["jack"])
        for lst in lists:
            if len(lst.df):
                lst.offset += rl["d"]
                if rl.get("rot"):
                    lst.column = (lst.column + (keys - 1)) % keys
    if case.get("tails_arg") == "default" and tails:
        return Pattern.from_note_lists(lists), want                 # include_tails defaults to True
    if case.get("tails_arg") == "positional":
        return Pattern.from_note_lists(lists, tails), want
    return Pattern.from_note_lists(lists, include_tails=tails), want


def _group(p, v, h, jack, how):
    """group() with every argument by keyword / positionally / with the arguments that equal their default left out."""
    if how == "positional":
        return p.group(v, h, jack)
    if how == "defaults":
        kw = {}
        if v != 50:
            kw["v_window"] = v
        if h is not None:
            kw["h_window"] = h
        if jack is not True:
            kw["avoid_jack"] = jack
        return p.group(**kw)
    return p.group(v_window=v, h_window=h, avoid_jack=jack)


def _plain(groups):
    return [[(int(r["column"]), float(r["offset"]), r["type"]) for r in g] for g in groups]


# ---------------------------------------------------------------------------------------------- grouping clauses
def _check_grouping(groups, want, v, h, jack):
    failed = []
    got = Counter(x for g in groups for x in g)
    if got != want:
        failed.append(("groups_partition_the_notes", f"in no group: {sorted((want - got).elements(), key=repr)}, in more groups than it occurs / not a note: {sorted((got - want).elements(), key=repr)}"))
    for i, g in enumerate(groups):
        if not g:
            failed.append(("groups_partition_the_notes", f"group {i} is empty"))
            continue
        t0 = min(t for _, t, _ in g)
        if any(not (t0 <= t <= t0 + v) for _, t, _ in g):
            failed.append(("times_within_vertical_window", f"group {i}: times {[t for _, t, _ in g]}, first {t0}, window {v}"))
        if h is not None:
            firsts = [c for c, t, _ in g if t == t0]            # any earliest note may be taken as "the first note"
            if not any(all(abs(c - c0) <= h for c, _, _ in g) for c0 in firsts):
                failed.append(("columns_within_horizontal_window", f"group {i}: columns {[c for c, _, _ in g]}, earliest notes in columns {firsts}, window {h}"))
        if jack:
            cols = [c for c, _, _ in g]
            if len(set(cols)) != len(cols):
                failed.append(("no_column_repeats_when_jacks_avoided", f"group {i}: columns {cols}"))
    return failed


# ---------------------------------------------------------------------------------------------- filters
def _mk_filter(kind, spec, cls, keys=KEYS):
    """The real filter object from a JSON-able spec {rows, options, exclude}; None stays None."""
    if spec is None:
        return None
    from reamber.algorithms.pattern.filters import PtnFilterChord, PtnFilterCombo, PtnFilterType

    if kind == "chord":
        return PtnFilterChord.create([list(r) for r in spec["rows"]], keys=keys, options=spec["options"], exclude=spec["exclude"])
    if kind == "combo":
        return PtnFilterCombo.create([list(r) for r in spec["rows"]], keys=keys, options=spec["options"], exclude=spec["exclude"])
    T = _types(cls)
    return PtnFilterType.create([[T[n] for n in r] for r in spec["rows"]], options=spec["options"], exclude=spec["exclude"])


def _documented_tables(kind, rows, options, keys):
    """(lower, upper): the rows a filter created from these base rows must hold according to the documented meaning
    of each selected option applied to each base row (lower = union of the single-option expansions), and the rows it
    may hold at most (upper = closure under the selected options)."""
    from reamber.algorithms.pattern.filters import PtnFilterChord, PtnFilterCombo, PtnFilterType

    rows = [tuple(r) for r in rows]
    ops = []
    if kind == "combo":
        O = PtnFilterCombo.Option
        if options & O.REPEAT:          # "repeats the base pattern without changing its orientation": translations inside 0..keys-1
            ops.append(lambda p: [tuple(c + d for c in p) for d in range(-keys, keys + 1) if all(0 <= c + d < keys for c in p)])
        if options & O.HMIRROR:         # "reflects the pattern on the y-axis": [0][1] -> [2][3]... i.e. [keys-1-c]
            ops.append(lambda p: [tuple(keys - 1 - c for c in p)])
        if options & O.VMIRROR:         # "reflects the pattern on the x-axis": [0][1] -> [1][0]
            ops.append(lambda p: [tuple(reversed(p))])
    elif kind == "chord":
        O = PtnFilterChord.Option
        if options & O.ANY_ORDER:
            ops.append(lambda p: list(permutations(p)))
        if options & O.AND_LOWER:       # [2][2][1] -> [2][2][1],[1][2][1],[2][1][1],[1][1][1]
            ops.append(lambda p: list(product(*[range(1, x + 1) for x in p])))
        if options & O.AND_HIGHER:      # "just the opposite of AndLower"
            ops.append(lambda p: list(product(*[range(x, keys + 1) for x in p])))
    else:
        O = PtnFilterType.Option
        if options & O.ANY_ORDER:
            ops.append(lambda p: list(permutations(p)))
        if options & O.MIRROR:
            ops.append(lambda p: [tuple(reversed(p))])
    lower = set(rows) | {q for op in ops for p in rows for q in op(p)}
    if kind == "chord":
        # the closure in closed form (the generic loop below would expand thousands of rows): permutations first, then the
        # boxes; AND_LOWER and AND_HIGHER together reach every vector (up to [keys]*n, then down from there)
        O = PtnFilterChord.Option
        start = {q for p in rows for q in permutations(p)} if options & O.ANY_ORDER else set(rows)
        if options & O.AND_LOWER and options & O.AND_HIGHER:
            return lower, set(product(range(1, keys + 1), repeat=len(rows[0])))
        if options & O.AND_LOWER:
            return lower, {q for p in start for q in product(*[range(1, x + 1) for x in p])}
        if options & O.AND_HIGHER:
            return lower, {q for p in start for q in product(*[range(x, keys + 1) for x in p])}
        return lower, start
    upper, todo = set(rows), list(rows)
    while todo:
        p = todo.pop()
        for op in ops:
            for q in op(p):
                if q not in upper:
                    upper.add(q)
                    todo.append(q)
    return lower, upper


def _check_table(kind, spec, flt, keys, cls, observe=None):
    """Clauses `<kind>_filter_options_as_documented`: the created filter's table against the documented expansion."""
    T = _types(cls)
    rows = [[T[n] for n in r] for r in spec["rows"]] if kind == "type" else spec["rows"]
    lower, upper = _documented_tables(kind, rows, spec["options"], keys)
    table = {tuple(r) for r in flt.ar.tolist()}
    name = {"combo": "column_filter_options_as_documented", "chord": "chord_filter_options_as_documented", "type": "type_filter_options_as_documented"}[kind]

    def show(s):
        return sorted([[getattr(x, "__name__", x) for x in r] for r in s], key=repr)[:12]

    failed = []
    if bool(flt.invert_filter) != bool(spec["exclude"]):
        failed.append((name, f"exclude={spec['exclude']} but invert_filter={flt.invert_filter}"))
    if not lower <= table:
        failed.append((name, f"base rows {show(rows)} options {spec['options']} keys {keys}: documented rows missing from the table: {show(lower - table)}; table {show(table)}"))
    if not table <= upper:
        beyond = table - upper
        per_row = kind == "chord" and len(spec["rows"]) > 1
        if per_row:
            # is every surplus row inside the bounding box of the base rows' expansions (several rows pooled)?
            if observe is not None:
                observe["chord_tables_beyond_per_row_bounds"] += 1
            if ASSERT_PER_ROW_BOUNDS:
                failed.append(("chord_filter_lower_higher_per_base_row", f"base rows {show(rows)} options {spec['options']} keys {keys}: the table holds {show(beyond)}, which no documented option produces from any single base row; table {show(table)}"))
        else:
            failed.append((name, f"base rows {show(rows)} options {spec['options']} keys {keys}: rows that no documented option produces: {show(beyond)}; table {show(table)}"))
    return failed


def _row_member(flt, vec):
    return any(list(r) == list(vec) for r in flt.ar.tolist()) != bool(flt.invert_filter)


def _type_pass(flt, types):
    return any(all(issubclass(t, c) for t, c in zip(types, row)) for row in flt.ar.tolist()) != bool(flt.invert_filter)


def _oracle_sequences(groups, n, chord, combo, typ, chord_verdict=None):
    """Statement: one note from each of n consecutive groups, passing the chord-size, column and type filters."""
    out = Counter()
    for i in range(0, len(groups) - n + 1):
        chunk = groups[i:i + n]
        sizes = [len(g) for g in chunk]
        if chord is not None and not (chord_verdict(sizes) if chord_verdict else _row_member(chord, sizes)):
            continue
        for seq in product(*chunk):
            if combo is not None and not _row_member(combo, [c for c, _, _ in seq]):
                continue
            if typ is not None and not _type_pass(typ, [t for _, _, t in seq]):
                continue
            out[tuple(seq)] += 1
    return out


def _pairs(seqs):
    out = Counter()
    for s, k in seqs.items():
        for a, b in zip(s, s[1:]):
            out[(a, b)] += k
    return out


def _reported(arrs):
    out = Counter()
    for ar in arrs:
        for row in ar:
            out[tuple((int(x["column"]), float(x["offset"]), x["type"]) for x in row)] += 1
    return out


def _show(cn, limit=6):
    items = [tuple((c, t, ty.__name__) for c, t, ty in s) for s in cn.elements()]
    return f"{len(items)}: {sorted(items, key=repr)[:limit]}"


def _check_combos(pc, groups, cfg, cls, keys=KEYS, observe=None):
    import numpy as np

    failed = []
    defaults = cfg.get("call") == "defaults"
    rounds = 2 if cfg.get("twice") else 1                      # the same call again, with the same filter objects
    if cfg["kind"] == "combinations":
        n = cfg["size"]
        chord, combo, typ = (_mk_filter(k, cfg[k], cls, keys) for k in ("chord", "combo", "type"))
        for k, f in (("chord", chord), ("combo", combo), ("type", typ)):
            if f is not None:
                failed += _check_table(k, cfg[k], f, keys, cls, observe)
        want = _oracle_sequences(groups, n, chord, combo, typ)
        if cfg["size2"]:
            want = _pairs(want)
        for rnd in range(rounds):
            if defaults:                                       # arguments that equal their default are left out
                kw = {}
                if n != 2:
                    kw["size"] = n
                if cfg["size2"]:
                    kw["make_size2"] = True
                for nme, f in (("chord_filter", chord), ("combo_filter", combo), ("type_filter", typ)):
                    if f is not None:
                        kw[nme] = f.filter
                got = _reported(pc.combinations(**kw))
            else:
                got = _reported(pc.combinations(size=n, make_size2=cfg["size2"],
                                                chord_filter=chord.filter if chord else None,
                                                combo_filter=combo.filter if combo else None,
                                                type_filter=typ.filter if typ else None))
            if got != want:
                tag = f"size {n}" + (" (second identical call)" if rnd else "")
                # is the whole difference explained by the chord-size filter's own verdicts?
                if chord is not None:
                    alt = _oracle_sequences(groups, n, chord, combo, typ, chord_verdict=lambda s: bool(chord.filter(np.array(s))))
                    if cfg["size2"]:
                        alt = _pairs(alt)
                    if alt == got:
                        bad = next(s for i in range(len(groups) - n + 1) for s in [[len(g) for g in groups[i:i + n]]] if bool(chord.filter(np.array(s))) != _row_member(chord, s))
                        failed.append(("chord_filter_exact", f"chord sizes {bad}: filter says {bool(chord.filter(np.array(bad)))}, table {chord.ar.tolist()} exclude={chord.invert_filter}; extra {_show(got - want)}, missing {_show(want - got)}"))
                        return failed
                if got - want:
                    failed.append(("combinations_none_extra", f"{tag}: extra {_show(got - want)}"))
                if want - got:
                    failed.append(("combinations_none_missing", f"{tag}: missing {_show(want - got)}"))
        return failed

    T = _types(cls)
    tail = T["HoldTail"]
    if cfg["kind"] == "jacks":
        n = cfg["length"]
        # docstring: jacks that last at least n notes - n consecutive groups, one column, no hold tail among them
        want = Counter()
        for i in range(len(groups) - n + 1):
            for seq in product(*groups[i:i + n]):
                if len({c for c, _, _ in seq}) == 1 and not any(issubclass(t, tail) for _, _, t in seq):
                    want[tuple(seq)] += 1
        want = _pairs(want)
        for rnd in range(rounds):
            got = _reported(pc.template_jacks(minimum_length=n, keys=keys) if defaults else pc.template_jacks(n, keys))
            if got != want:
                failed.append(("template_jacks", f"length {n}: extra {_show(got - want)}, missing {_show(want - got)}"))
        return failed

    if cfg["kind"] == "chord_stream":
        p, s = cfg["primary"], cfg["secondary"]
        # docstring: pairs from two consecutive groups of sizes (primary, secondary) - with and_lower any sizes up to
        # them in either order -, never a hold tail, never the same column twice unless jacks are included
        want = Counter()
        for i in range(len(groups) - 1):
            a, b = len(groups[i]), len(groups[i + 1])
            ok = (a <= p and b <= s) or (a <= s and b <= p) if cfg["and_lower"] else (a == p and b == s)
            if not ok:
                continue
            for x, y in product(groups[i], groups[i + 1]):
                if issubclass(x[2], tail) or issubclass(y[2], tail):
                    continue
                if not cfg["include_jack"] and x[0] == y[0]:
                    continue
                want[(x, y)] += 1
        for rnd in range(rounds):
            if defaults:                                       # keywords; and_lower / include_jack left out when False
                kw = dict(primary=p, secondary=s, keys=keys)
                if cfg["and_lower"]:
                    kw["and_lower"] = True
                if cfg["include_jack"]:
                    kw["include_jack"] = True
                got = _reported(pc.template_chord_stream(**kw))
            else:
                got = _reported(pc.template_chord_stream(p, s, keys, and_lower=cfg["and_lower"], include_jack=cfg["include_jack"]))
            if got != want:
                sizes = [len(g) for g in groups]
                what = "template_chord_stream"
                # is the whole difference explained by the verdicts of the chord-size filter the template is documented to build?
                from reamber.algorithms.pattern.filters import PtnFilterChord

                flt = PtnFilterChord.create([[p, s]], keys=keys, options=(PtnFilterChord.Option.ANY_ORDER | PtnFilterChord.Option.AND_LOWER) if cfg["and_lower"] else 0)
                alt = Counter()
                for i in range(len(groups) - 1):
                    if not bool(flt.filter(np.array([len(groups[i]), len(groups[i + 1])]))):
                        continue
                    for x, y in product(groups[i], groups[i + 1]):
                        if issubclass(x[2], tail) or issubclass(y[2], tail) or (not cfg["include_jack"] and x[0] == y[0]):
                            continue
                        alt[(x, y)] += 1
                if alt == got:
                    what = "chord_filter_exact"
                failed.append((what, f"primary {p} secondary {s} and_lower {cfg['and_lower']} include_jack {cfg['include_jack']}, group sizes {sizes}: extra {_show(got - want)}, missing {_show(want - got)}"))
        return failed
    raise ValueError(cfg["kind"])


def _run_case(case, observe=None):
    from reamber.algorithms.pattern.combos import PtnCombo

    failed = []
    keys = case.get("keys", KEYS)
    try:
        p, want = _pattern(case)
        for v, h, j in case.get("before", []):                 # earlier groupings of the same Pattern object
            p.group(v_window=v, h_window=h, avoid_jack=j)
        real = _group(p, case["v"], case["h"], case["jack"], case.get("group_call"))
    except Exception as ex:
        return [("grouping_completes", f"{type(ex).__name__}: {ex}")]
    groups = _plain(real)
    failed += _check_grouping(groups, want, case["v"], case["h"], case["jack"])
    pc = PtnCombo(real) if case.get("combos") else None        # ONE PtnCombo for all the calls of the case
    for cfg in case.get("combos", []):
        try:
            failed += _check_combos(pc, groups, cfg, case["cls"], keys, observe)
        except Exception as ex:
            failed.append(("combinations_complete", f"{cfg}: {type(ex).__name__}: {ex}"))
    seen, out = set(), []
    for w, d in failed:
        if w not in seen:
            seen.add(w)
            out.append((w, d))
    return out


# ---------------------------------------------------------------------------------------------- generation
def _random_notes(rng, keys=KEYS, times=TIMES, lengths=HOLD_LENGTHS, second_kinds=False, narrow=False):
    k = rng.choice([0, 1, 2, 3, 3, 4, 4, 5, 5, 6, 6, 6])
    cells = [(c, t) for c in range(keys) for t in times]
    hold_p = 0.3
    if narrow:
        # everything in one or two columns, half of the notes holds: same-column runs over 3 consecutive groups, with hold
        # tails at the start, INSIDE and at the end of a run
        cols = rng.sample(range(keys), rng.choice([1, 2, 2]))
        cells = [(c, t) for c in cols for t in times]
        k, hold_p = min(rng.choice([3, 4, 5, 6]), len(cells)), 0.5
    notes = []
    for c, t in rng.sample(cells, k):
        notes.append([c, t, rng.choice(lengths) if rng.random() < hold_p else None])
    if notes and rng.random() < 0.1:                                   # a second note on an occupied cell
        c, t, _ = rng.choice(notes)
        if len(notes) < 6:
            notes.append([c, t, rng.choice([None, 50.0])])
    if second_kinds:                                                   # StepMania: mines / rolls / every further list of the chart
        n_hit = 1 + sum(1 for k in _sm_further_kinds() if k.startswith("hit"))
        n_hold = 1 + sum(1 for k in _sm_further_kinds() if k.startswith("hold"))
        for n in notes:
            if rng.random() < 0.45:
                n.append(rng.randrange(1, (n_hit if n[2] is None else n_hold) + 1))
    if isinstance(times[0], int):                                      # int-typed charts: lengths are ints too
        for n in notes:
            if n[2] is not None:
                n[2] = int(n[2])
    rng.shuffle(notes)
    return notes


def _random_rows(rng, kind, n, keys):
    """1..3 base rows of a filter; for columns often several rows of different extent."""
    rows = rng.choice([1, 1, 1, 2, 2, 3])
    if kind == "chord":
        return [[rng.randrange(1, keys + 1) for _ in range(n)] for _ in range(rows)]
    if kind == "combo":
        base = [[rng.randrange(keys) for _ in range(n)] for _ in range(rows)]
        if rng.random() < 0.3:
            base[0] = [0] * n
        return base
    names = TYPE_NAMES + (TYPE_NAMES_MORE if rng.random() < 0.3 else [])
    return [[rng.choice(names) for _ in range(n)] for _ in range(rows)]


def _random_filter(rng, kind, n, keys=KEYS):
    if rng.random() < 0.4:
        return None
    rows = _random_rows(rng, kind, n, keys)
    if kind == "chord":
        return dict(rows=rows, options=rng.randrange(8), exclude=rng.random() < 0.3)
    if kind == "combo":
        return dict(rows=rows, options=rng.randrange(8), exclude=rng.random() < 0.3)
    return dict(rows=rows, options=rng.randrange(4), exclude=rng.random() < 0.4)


def _random_cfgs(rng, keys=KEYS, narrow=False):
    cfgs = []
    for _ in range(4):
        n = rng.choice([2, 2, 3, 4])
        cfgs.append(dict(kind="combinations", size=n, size2=rng.random() < 0.3, chord=_random_filter(rng, "chord", n, keys), combo=_random_filter(rng, "combo", n, keys), type=_random_filter(rng, "type", n, keys)))
    cfgs.append(dict(kind="jacks", length=rng.choice([3, 3, 4, 2] if narrow else [2, 2, 3, 4])))
    cfgs.append(dict(kind="chord_stream", primary=rng.randrange(1, 4), secondary=rng.randrange(1, 3), and_lower=rng.random() < 0.5, include_jack=rng.random() < 0.5))
    for c in cfgs:
        if rng.random() < 0.3:
            c["call"] = "defaults"
        if rng.random() < 0.15:
            c["twice"] = True
    return cfgs


def _random_layout(rng, rows):
    n = len(rows)
    if n == 0 or rng.random() < 0.45:
        return None
    r = rng.random()
    if r < 0.25:
        return dict(via="sorted")
    if r < 0.33:
        return dict(via="sorted_reverse")
    if r < 0.45 and n >= 2:
        return dict(via="append_sorted")
    if r < 0.65:
        k = rng.choice([1, 1, 2])
        return dict(via="filter", junk_at=sorted(rng.sample(range(n + k), k)), by=rng.choice(["mask", "after"]))
    q = rng.random()
    if q < 0.35:
        labels = rng.sample(range(n), n)
    elif q < 0.5:
        labels = list(range(n - 1, -1, -1))
    elif q < 0.65:
        k = rng.randrange(1, 6)
        labels = list(range(k, k + n))
    elif q < 0.85:
        labels = rng.sample(range(3 * n + 2), n)
    else:
        labels = [rng.randrange(max(1, n - 1)) for _ in range(n)]     # duplicated labels
    return dict(via="labels", labels=labels)


def _random_base(rng, plain=False):
    """One note set with everything that stays the same over its 24 groupings.  plain=True: the original scope."""
    if plain:
        notes = _random_notes(rng)
        return dict(notes=notes, cls=rng.choice(["base", "base", "osu"]), tails=rng.random() < 0.6), TIMES, V_WINDOWS, H_WINDOWS
    keys = rng.choice(KEY_COUNTS)
    tname = rng.choice(["base"] * 8 + ["negative", "large", "fraction", "int", "int", "tight", "tight", "uneven", "uneven"])
    times, vws = TIME_SETS[tname]
    cls = rng.choice(GAMES)
    lengths = HOLD_LENGTHS + (HOLD_LENGTHS_MORE if rng.random() < 0.4 else [])
    if tname == "tight":
        lengths = [0.5, 1.0] + ([0.0, 0.25] if rng.random() < 0.4 else [])
    elif tname == "int":
        lengths = [x for x in lengths if float(x).is_integer()]
    narrow = rng.random() < 0.15
    notes = _random_notes(rng, keys, times, lengths, second_kinds=(cls == "sm"), narrow=narrow)
    base = dict(notes=notes, cls=cls, tails=rng.random() < (0.9 if narrow else 0.6), keys=keys, times=tname)
    if narrow:
        base["narrow"] = True
    r = rng.random()
    if r < 0.15:
        base["entry"] = "ctor"
        n_entries = len(notes) + (sum(1 for n in notes if n[2] is not None) if base["tails"] else 0)
        if rng.random() < 0.7:
            base["ctor_order"] = rng.sample(range(n_entries), n_entries)
    else:
        if r < 0.4:
            base["entry"] = "lists_reversed"
        layout = {}
        for kind in _list_classes(cls):
            lay = _random_layout(rng, [n for n in notes if _kind(n) == kind])
            if lay:
                layout[kind] = lay
        if layout:
            base["layout"] = layout
        q = rng.random()
        if q < 0.25:
            base["tails_arg"] = "default"
        elif q < 0.4:
            base["tails_arg"] = "positional"
        if rng.random() < 0.2:
            step = times[1] - times[0]                                 # int for the int-typed scale
            base["relist"] = dict(d=step, rot=rng.random() < 0.5)
    if rng.random() < 0.08:
        base["np_scalars"] = True
    hws = H_WINDOWS[:3] + [rng.choice(H_WIDE)]
    if rng.random() < 0.3:
        vws = [float(v) for v in vws]                               # float windows
    return base, times, vws, hws


@bounded("C20", note="real Pattern.group + PtnCombo.combinations + templates on note sets of <= 6 notes (4/5/7 columns x 3 times on six time scales, holds with tails, note classes of every game, lists in any row order / labelling, both entry points), every window / jack setting, sizes 2..4, every filter option bitmask with 1..3 base rows, against the statement (partition, window facts, set-comprehension oracle, documented option tables)")
def grouping_and_combinations_vs_statement(rep):
    rng = rep.rng
    N = rep.n(700, 25000)
    rep.bound = (f"up to {N} seeded note sets: 0..6 notes on distinct cells of K columns x 3 times (time scale 'uneven': 4 times on two interleaved grids, windows equal to the differences 31.25 / 68.75 / 100) (10% with a second note on an occupied cell), 30% holds with tails requested or not; "
                 f"one note set in 4 in the original scope (K={KEYS}, times {TIMES}, hold lengths {HOLD_LENGTHS}, base / osu classes, from_note_lists([hits, holds], include_tails=..), keyword arguments); the others: K in {sorted(set(KEY_COUNTS))}, "
                 f"times {({k: v[0] for k, v in TIME_SETS.items()})}, hold lengths also {HOLD_LENGTHS_MORE} (40%), note classes of base / osu / quaver / sm (with mine and roll lists) / bms / o2jam, 8% numpy scalars, "
                 "15% through Pattern(cols, offsets, types) in any entry order, else from_note_lists with the lists in either order, include_tails by keyword / positional / defaulted, each note list in 55% built by "
                 ".sorted() / .sorted(reverse=True) / append(sort=True) / a filter removing interleaved rows / a DataFrame with permuted, reversed, offset, gappy or duplicated labels; "
                 f"EACH note set is grouped with all 24 settings v in 3 windows (0, one step, two steps of its time scale; 30% as floats) x h in {H_WINDOWS[:3]} + one of {sorted(set(H_WIDE))} x avoid_jack in (True, False), "
                 "15% positionally, 25% with default-valued arguments left out, 20% after 1-2 other group() calls on the same Pattern; "
                 "15% of the wider note sets 'narrow': 3..6 notes in one or two columns, half of them holds, tails requested in 90%, combinations / templates for 8 of the groupings, template_jacks lengths mostly 3-4 "
                 "(same-column runs over 3+ groups with a hold tail inside); 35% of the wider note sets with 2 more groupings at v = 1e9 or half a grid step; 20% of the from_note_lists sets: the lists were built one grid step earlier (half of them with rotated columns), "
                 "grouped once, then edited in place through .offset += / .column = before the Pattern under test is made from the same objects; K also 10 (1/10); StepMania notes also in every further "
                 "note list SMMap().objs carries (lifts, fakes, keysounds); "
                 "for 3 of the 24 groupings, on ONE PtnCombo: 4 combinations() calls (size 2..4, make_size2 30%, chord-size / column / type filter each absent 40% or created by the real create() from 1-3 random rows "
                 "with a random option bitmask (chord 0..7, column 0..7, type 0..3) and exclude; every created table is compared with the documented option expansion), 1 template_jacks (length 2..4), 1 template_chord_stream; "
                 "30% of the calls with defaults left out / by keyword, 15% made twice")
    rep.rule = "a case is one (note set, classes, construction, tails, v, h, avoid_jack, call form, earlier groupings, list of combination / template calls); non-trivial when the note set has >= 2 notes"
    stats = Counter()
    obs = Counter()
    for i in range(N):
        if rep.out_of_time(22, 400):
            break
        plain = i % 4 == 3
        base, times, vws, hws = _random_base(rng, plain)
        notes = base["notes"]
        keys = base.get("keys", KEYS)
        settings = [(v, h, j) for v in vws for h in hws for j in (True, False)]
        with_combos = set(rng.sample(range(len(settings)), 8 if base.get("narrow") else 3))
        if not plain and rng.random() < 0.35:
            # the ends of the vertical window's range: beyond every time difference / strictly between two grid steps
            step = times[1] - times[0]
            v_more = 1000000000.0 if rng.random() < 0.5 else (step / 2 if not isinstance(step, int) else 25)
            settings += [(v_more, rng.choice(hws), j) for j in (True, False)]
            stats["extra_v_windows"] += 1
        stats["note_sets"] += 1
        for k in ("entry", "tails_arg", "np_scalars", "times", "cls"):
            if base.get(k) not in (None, "base"):
                stats[f"{k}={base[k]}"] += 1
        if base.get("narrow"):
            stats["narrow_note_sets"] += 1
        if base.get("relist"):
            stats["lists_grouped_before_then_edited_in_place"] += 1
        if any(len(n) > 3 and n[3] > 1 for n in notes):
            stats["sm_further_lists"] += 1
        if keys > 7:
            stats["keys=10"] += 1
        for kind, lay in (base.get("layout") or {}).items():
            stats[f"list_via_{lay['via']}"] += 1
        if any(n[2] == 0 for n in notes):
            stats["zero_length_hold"] += 1
        for i_s, (v, h, j) in enumerate(settings):
            case = dict(base, v=v, h=h, jack=j, combos=_random_cfgs(rng, keys, bool(base.get("narrow"))) if i_s in with_combos else [])
            if not plain:
                r = rng.random()
                if r < 0.15:
                    case["group_call"] = "positional"
                elif r < 0.4:
                    case["group_call"] = "defaults"
                if rng.random() < 0.2:
                    case["before"] = [list(rng.choice(settings)) for _ in range(rng.choice([1, 2]))]
            rep.case(case, nontrivial=len(notes) >= 2)
            stats["groupings"] += 1
            stats["combination_calls"] += sum(1 for c in case["combos"] if c["kind"] == "combinations")
            stats["chord_filter_calls"] += sum(1 for c in case["combos"] if c["kind"] == "combinations" and c["chord"])
            stats["filters_with_several_base_rows"] += sum(1 for c in case["combos"] if c["kind"] == "combinations" for k in ("chord", "combo", "type") if c[k] and len(c[k]["rows"]) > 1)
            stats["template_calls"] += sum(1 for c in case["combos"] if c["kind"] != "combinations")
            for what, d in _run_case(case, obs):
                rep.fail(what, case, d)
    rep.extra["counts"] = dict(sorted(stats.items()))
    rep.extra["chord_tables_beyond_per_row_bounds"] = obs["chord_tables_beyond_per_row_bounds"]
    rep.extra["assert_per_row_bounds"] = ASSERT_PER_ROW_BOUNDS


@replayer("grouping_and_combinations_vs_statement")
def _replay(case, what):
    failed = _run_case(case)
    hit = [d for w, d in failed if w == what]
    return (bool(hit), hit[0] if hit else "passes")


# ---------------------------------------------------------------------------------------------- filter verdicts, exhaustively
def _verdict_case(case):
    """One filter (kind, rows, options, exclude[, keys]) asked about one data vector: the real verdict against row
    membership; and the filter's table against the documented option expansion."""
    import numpy as np

    keys = case.get("keys", KEYS)
    flt = _mk_filter(case["kind"], case, "base", keys)
    failed = _check_table(case["kind"], case, flt, keys, "base")
    if case.get("data") is None:
        return failed
    if case["kind"] == "chord":
        got = bool(flt.filter(np.array(case["data"])))
        want = _row_member(flt, case["data"])
        if got != want:
            failed.append(("chord_filter_exact", f"sizes {case['data']}: filter says {got}; table {flt.ar.tolist()}, exclude={flt.invert_filter}"))
    elif case["kind"] == "combo":
        got = bool(flt.filter(np.array([case["data"]]))[0])
        want = _row_member(flt, case["data"])
        if got != want:
            failed.append(("column_filter_exact", f"columns {case['data']}: filter says {got}; table {flt.ar.tolist()}, exclude={flt.invert_filter}"))
    else:
        T = _types("base")
        data = np.empty((1, len(case["data"])), dtype=object)
        for j, nme in enumerate(case["data"]):
            data[0, j] = T[nme]
        got = bool(flt.filter(data)[0])
        want = _type_pass(flt, [T[nme] for nme in case["data"]])
        if got != want:
            failed.append(("type_filter_exact", f"types {case['data']}: filter says {got}; table {[[c.__name__ for c in r] for r in flt.ar.tolist()]}, exclude={flt.invert_filter}"))
    return failed


@bounded("C20", note="every single-row chord-size / column / type filter of length 2 (thorough: 3) for 4 and 5 keys with every option bitmask and exclude setting, asked about every data vector: verdict == row membership in the filter's own table; every such table, and every table from TWO base rows (4 keys, length 2), against the documented option expansion")
def filter_verdicts_vs_tables(rep):
    sizes = [2] if rep.tier == "quick" else [2, 3]
    rep.bound = (f"exhaustive for lengths {sizes} and key counts K in (4, 5): chord-size filters from every base row in {{1..K}}^n x option bitmask 0..7 x exclude, asked about every size vector in {{1..K}}^n; "
                 f"column filters from every base row in {{0..K-1}}^n x bitmask 0..7 x exclude, every column vector; type filters from every base row over {TYPE_NAMES} x bitmask 0..3 x exclude, every type vector over Hit/Hold/HoldTail; "
                 "each created table compared with the documented option expansion; then every ORDERED PAIR of base rows of length 2 for 4 keys x every bitmask (exclude False): table against the documented expansion, "
                 "and in the thorough tier (column and type filters) the verdict about every data vector")
    rep.rule = "a case is one (filter kind, key count, base row(s), option bitmask, exclude, data vector) or, for the table clause, one created filter; all are non-trivial"
    rep.exhaustive = True
    import numpy as np

    T = _types("base")
    obs = Counter()

    def ask(kind, flt, spec, data, n, excl):
        case = dict(spec, data=list(data))
        rep.case(case)
        # same comparison as _verdict_case, with the filter built once
        if kind == "chord":
            got, want = bool(flt.filter(np.array(data))), _row_member(flt, data)
            what = "chord_filter_exact"
        elif kind == "combo":
            got, want = bool(flt.filter(np.array([data]))[0]), _row_member(flt, data)
            what = "column_filter_exact"
        else:
            arr = np.empty((1, n), dtype=object)
            for j, nme in enumerate(data):
                arr[0, j] = T[nme]
            got, want = bool(flt.filter(arr)[0]), _type_pass(flt, [T[x] for x in data])
            what = "type_filter_exact"
        if got != want:
            rep.fail(what, case, f"data {list(data)}: filter says {got}, row membership says {want}; table {[[getattr(c, '__name__', c) for c in r] for r in flt.ar.tolist()]}, exclude={excl}")

    def kinds(keys):
        return (("chord", range(1, keys + 1), range(8), range(1, keys + 1)),
                ("combo", range(keys), range(8), range(keys)),
                ("type", TYPE_NAMES, range(4), TYPE_NAMES[:3]))

    for n in sizes:
        for keys in (4, 5):
            for kind, alphabet, masks, data_alphabet in kinds(keys):
                if kind == "type" and keys != 4:
                    continue                                        # type filters do not depend on the key count
                for row in product(alphabet, repeat=n):
                    for mask in masks:
                        for excl in (False, True):
                            spec = dict(kind=kind, rows=[list(row)], options=mask, exclude=excl)
                            if keys != KEYS:
                                spec["keys"] = keys
                            try:
                                flt = _mk_filter(kind, spec, "base", keys)
                            except Exception as ex:
                                rep.case(spec)
                                rep.fail("filter_create_completes", spec, f"{type(ex).__name__}: {ex}")
                                continue
                            for what, d in _check_table(kind, spec, flt, keys, "base"):
                                rep.fail(what, dict(spec, data=None), d)
                            for data in product(data_alphabet, repeat=n):
                                if rep.out_of_time(25, 400):
                                    rep.exhaustive = False
                                    return
                                ask(kind, flt, spec, data, n, excl)
    # ---- two base rows: the options apply to EVERY base row
    n, keys = 2, KEYS
    for kind, alphabet, masks, data_alphabet in kinds(keys):
        rows = [list(r) for r in product(alphabet, repeat=n)]
        for r1 in rows:
            for r2 in rows:
                if r1 == r2:
                    continue
                for mask in masks:
                    spec = dict(kind=kind, rows=[r1, r2], options=mask, exclude=False)
                    if rep.out_of_time(25, 400):
                        rep.exhaustive = False
                        return
                    try:
                        flt = _mk_filter(kind, spec, "base", keys)
                    except Exception as ex:
                        rep.case(spec)
                        rep.fail("filter_create_completes", spec, f"{type(ex).__name__}: {ex}")
                        continue
                    rep.case(dict(spec, data=None))
                    for what, d in _check_table(kind, spec, flt, keys, "base", obs):
                        rep.fail(what, dict(spec, data=None), d)
                    if kind != "chord" and rep.tier != "quick":
                        for data in product(data_alphabet, repeat=n):
                            ask(kind, flt, spec, data, n, False)
    rep.extra["chord_tables_beyond_per_row_bounds"] = obs["chord_tables_beyond_per_row_bounds"]
    rep.extra["assert_per_row_bounds"] = ASSERT_PER_ROW_BOUNDS


@replayer("filter_verdicts_vs_tables")
def _replay_verdict(case, what):
    failed = _verdict_case(case)
    hit = [d for w, d in failed if w == what]
    return (bool(hit), hit[0] if hit else "passes")
