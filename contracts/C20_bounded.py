"""C20 bounded stand-ins: the real `Pattern.group`, `PtnCombo.combinations`, the two templates and the three filter
classes on small note sets, against oracles written from the property statement.

 * grouping: the groups partition the notes (and hold tails when requested); inside a group every time lies within
   the vertical window of the group's first note, every column within the horizontal window of it, and no column
   repeats when jacks are avoided.  (The statement does not ask groups to be maximal - not asserted.)
 * combinations of size n: exactly the sequences taking one note from each of n consecutive groups (in the order
   `group` returned them) that pass the chord-size, column and type filters - compared as multisets with a direct
   comprehension, none missing, none extra.
 * what "passes a filter" means: the filter object's public table `ar` + `invert_filter`: a chord-size vector / a column
   sequence passes when it IS a row of the table, a type sequence passes when some row holds a superclass at every
   position; `invert_filter` negates.  Tables are produced by the real `create` with every option bitmask.  How
   `create` expands the options is not part of the statement and is not judged here."""
from __future__ import annotations

from collections import Counter
from itertools import product

from pyvc.dsl import bounded
from pyvc.bounded import replayer

KEYS = 4
TIMES = [0.0, 50.0, 100.0]
V_WINDOWS = [0, 50, 100]
H_WINDOWS = [None, 0, 1, 2]
HOLD_LENGTHS = [50.0, 100.0]
TYPE_NAMES = ["Hit", "Hold", "HoldTail", "object"]


def _types(cls):
    from reamber.base.Hit import Hit
    from reamber.base.Hold import Hold, HoldTail

    if cls == "osu":
        from reamber.osu import OsuHit, OsuHold

        return dict(Hit=Hit, Hold=Hold, HoldTail=HoldTail, object=object, hit=OsuHit, hold=OsuHold)
    return dict(Hit=Hit, Hold=Hold, HoldTail=HoldTail, object=object, hit=Hit, hold=Hold)


def _pattern(case):
    """The real Pattern of the case and, from the statement, the multiset of (column, time, type) it must group."""
    from reamber.algorithms.pattern import Pattern

    T = _types(case["cls"])
    if case["cls"] == "osu":
        from reamber.osu.lists.notes import OsuHitList as HL, OsuHoldList as OL
    else:
        from reamber.base.lists.notes.HitList import HitList as HL
        from reamber.base.lists.notes.HoldList import HoldList as OL
    hits = [(c, t) for c, t, ln in case["notes"] if ln is None]
    holds = [(c, t, ln) for c, t, ln in case["notes"] if ln is not None]
    hl = HL([T["hit"](offset=t, column=c) for c, t in hits])
    ol = OL([T["hold"](offset=t, column=c, length=ln) for c, t, ln in holds])
    want = Counter()
    for c, t in hits:
        want[(c, float(t), T["hit"])] += 1
    for c, t, ln in holds:
        want[(c, float(t), T["hold"])] += 1
        if case["tails"]:
            want[(c, float(t) + float(ln), T["HoldTail"])] += 1
    return Pattern.from_note_lists([hl, ol], include_tails=case["tails"]), want


def _plain(groups):
    return [[(int(r["column"]), float(r["offset"]), r["type"]) for r in g] for g in groups]


# ---------------------------------------------------------------------------------------------- grouping clauses
def _check_grouping(groups, want, v, h, jack):
    failed = []
    got = Counter(x for g in groups for x in g)
    if got != want:
        failed.append(("groups_partition_the_notes", f"in no group: {sorted((want - got).elements(), key=repr)}, in more groups than it occurs / not a note: {sorted((got - want).elements(), key=repr)}"))
    for i, g in enumerate(groups):
        if not g:
            failed.append(("groups_partition_the_notes", f"group {i} is empty"))
            continue
        t0 = min(t for _, t, _ in g)
        if any(not (t0 <= t <= t0 + v) for _, t, _ in g):
            failed.append(("times_within_vertical_window", f"group {i}: times {[t for _, t, _ in g]}, first {t0}, window {v}"))
        if h is not None:
            firsts = [c for c, t, _ in g if t == t0]            # any earliest note may be taken as "the first note"
            if not any(all(abs(c - c0) <= h for c, _, _ in g) for c0 in firsts):
                failed.append(("columns_within_horizontal_window", f"group {i}: columns {[c for c, _, _ in g]}, earliest notes in columns {firsts}, window {h}"))
        if jack:
            cols = [c for c, _, _ in g]
            if len(set(cols)) != len(cols):
                failed.append(("no_column_repeats_when_jacks_avoided", f"group {i}: columns {cols}"))
    return failed


# ---------------------------------------------------------------------------------------------- filters
def _mk_filter(kind, spec, cls):
    """The real filter object from a JSON-able spec {rows, options, exclude}; None stays None."""
    if spec is None:
        return None
    from reamber.algorithms.pattern.filters import PtnFilterChord, PtnFilterCombo, PtnFilterType

    if kind == "chord":
        return PtnFilterChord.create([list(r) for r in spec["rows"]], keys=KEYS, options=spec["options"], exclude=spec["exclude"])
    if kind == "combo":
        return PtnFilterCombo.create([list(r) for r in spec["rows"]], keys=KEYS, options=spec["options"], exclude=spec["exclude"])
    T = _types(cls)
    return PtnFilterType.create([[T[n] for n in r] for r in spec["rows"]], options=spec["options"], exclude=spec["exclude"])


def _row_member(flt, vec):
    return any(list(r) == list(vec) for r in flt.ar.tolist()) != bool(flt.invert_filter)


def _type_pass(flt, types):
    return any(all(issubclass(t, c) for t, c in zip(types, row)) for row in flt.ar.tolist()) != bool(flt.invert_filter)


def _oracle_sequences(groups, n, chord, combo, typ, chord_verdict=None):
    """Statement: one note from each of n consecutive groups, passing the chord-size, column and type filters."""
    out = Counter()
    for i in range(0, len(groups) - n + 1):
        chunk = groups[i:i + n]
        sizes = [len(g) for g in chunk]
        if chord is not None and not (chord_verdict(sizes) if chord_verdict else _row_member(chord, sizes)):
            continue
        for seq in product(*chunk):
            if combo is not None and not _row_member(combo, [c for c, _, _ in seq]):
                continue
            if typ is not None and not _type_pass(typ, [t for _, _, t in seq]):
                continue
            out[tuple(seq)] += 1
    return out


def _pairs(seqs):
    out = Counter()
    for s, k in seqs.items():
        for a, b in zip(s, s[1:]):
            out[(a, b)] += k
    return out


def _reported(arrs):
    out = Counter()
    for ar in arrs:
        for row in ar:
            out[tuple((int(x["column"]), float(x["offset"]), x["type"]) for x in row)] += 1
    return out


def _show(cn, limit=6):
    items = [tuple((c, t, ty.__name__) for c, t, ty in s) for s in cn.elements()]
    return f"{len(items)}: {sorted(items, key=repr)[:limit]}"


def _check_combos(groups_real, groups, cfg, cls):
    import numpy as np
    from reamber.algorithms.pattern.combos import PtnCombo

    failed = []
    pc = PtnCombo(groups_real)
    if cfg["kind"] == "combinations":
        n = cfg["size"]
        chord, combo, typ = (_mk_filter(k, cfg[k], cls) for k in ("chord", "combo", "type"))
        got = _reported(pc.combinations(size=n, make_size2=cfg["size2"],
                                        chord_filter=chord.filter if chord else None,
                                        combo_filter=combo.filter if combo else None,
                                        type_filter=typ.filter if typ else None))
        want = _oracle_sequences(groups, n, chord, combo, typ)
        if cfg["size2"]:
            want = _pairs(want)
        if got != want:
            # is the whole difference explained by the chord-size filter's own verdicts?
            if chord is not None:
                alt = _oracle_sequences(groups, n, chord, combo, typ, chord_verdict=lambda s: bool(chord.filter(np.array(s))))
                if cfg["size2"]:
                    alt = _pairs(alt)
                if alt == got:
                    bad = next(s for i in range(len(groups) - n + 1) for s in [[len(g) for g in groups[i:i + n]]] if bool(chord.filter(np.array(s))) != _row_member(chord, s))
                    failed.append(("chord_filter_exact", f"chord sizes {bad}: filter says {bool(chord.filter(np.array(bad)))}, table {chord.ar.tolist()} exclude={chord.invert_filter}; extra {_show(got - want)}, missing {_show(want - got)}"))
                    return failed
            if got - want:
                failed.append(("combinations_none_extra", f"size {n}: extra {_show(got - want)}"))
            if want - got:
                failed.append(("combinations_none_missing", f"size {n}: missing {_show(want - got)}"))
        return failed

    T = _types(cls)
    tail = T["HoldTail"]
    if cfg["kind"] == "jacks":
        n = cfg["length"]
        got = _reported(pc.template_jacks(n, KEYS))
        # docstring: jacks that last at least n notes - n consecutive groups, one column, no hold tail among them
        want = Counter()
        for i in range(len(groups) - n + 1):
            for seq in product(*groups[i:i + n]):
                if len({c for c, _, _ in seq}) == 1 and not any(issubclass(t, tail) for _, _, t in seq):
                    want[tuple(seq)] += 1
        want = _pairs(want)
        if got != want:
            failed.append(("template_jacks", f"length {n}: extra {_show(got - want)}, missing {_show(want - got)}"))
        return failed

    if cfg["kind"] == "chord_stream":
        p, s = cfg["primary"], cfg["secondary"]
        got = _reported(pc.template_chord_stream(p, s, KEYS, and_lower=cfg["and_lower"], include_jack=cfg["include_jack"]))
        # docstring: pairs from two consecutive groups of sizes (primary, secondary) - with and_lower any sizes up to
        # them in either order -, never a hold tail, never the same column twice unless jacks are included
        want = Counter()
        for i in range(len(groups) - 1):
            a, b = len(groups[i]), len(groups[i + 1])
            ok = (a <= p and b <= s) or (a <= s and b <= p) if cfg["and_lower"] else (a == p and b == s)
            if not ok:
                continue
            for x, y in product(groups[i], groups[i + 1]):
                if issubclass(x[2], tail) or issubclass(y[2], tail):
                    continue
                if not cfg["include_jack"] and x[0] == y[0]:
                    continue
                want[(x, y)] += 1
        if got != want:
            sizes = [len(g) for g in groups]
            what = "template_chord_stream"
            # is the whole difference explained by the verdicts of the chord-size filter the template is documented to build?
            from reamber.algorithms.pattern.filters import PtnFilterChord

            flt = PtnFilterChord.create([[p, s]], keys=KEYS, options=(PtnFilterChord.Option.ANY_ORDER | PtnFilterChord.Option.AND_LOWER) if cfg["and_lower"] else 0)
            alt = Counter()
            for i in range(len(groups) - 1):
                if not bool(flt.filter(np.array([len(groups[i]), len(groups[i + 1])]))):
                    continue
                for x, y in product(groups[i], groups[i + 1]):
                    if issubclass(x[2], tail) or issubclass(y[2], tail) or (not cfg["include_jack"] and x[0] == y[0]):
                        continue
                    alt[(x, y)] += 1
            if alt == got:
                what = "chord_filter_exact"
            failed.append((what, f"primary {p} secondary {s} and_lower {cfg['and_lower']} include_jack {cfg['include_jack']}, group sizes {sizes}: extra {_show(got - want)}, missing {_show(want - got)}"))
        return failed
    raise ValueError(cfg["kind"])


def _run_case(case):
    failed = []
    try:
        p, want = _pattern(case)
        real = p.group(v_window=case["v"], h_window=case["h"], avoid_jack=case["jack"])
    except Exception as ex:
        return [("grouping_completes", f"{type(ex).__name__}: {ex}")]
    groups = _plain(real)
    failed += _check_grouping(groups, want, case["v"], case["h"], case["jack"])
    for cfg in case.get("combos", []):
        try:
            failed += _check_combos(real, groups, cfg, case["cls"])
        except Exception as ex:
            failed.append(("combinations_complete", f"{cfg}: {type(ex).__name__}: {ex}"))
    seen, out = set(), []
    for w, d in failed:
        if w not in seen:
            seen.add(w)
            out.append((w, d))
    return out


# ---------------------------------------------------------------------------------------------- generation
def _random_notes(rng):
    k = rng.choice([0, 1, 2, 3, 3, 4, 4, 5, 5, 6, 6, 6])
    cells = [(c, t) for c in range(KEYS) for t in TIMES]
    notes = []
    for c, t in rng.sample(cells, k):
        notes.append([c, t, rng.choice(HOLD_LENGTHS) if rng.random() < 0.3 else None])
    if notes and rng.random() < 0.1:                                   # a second note on an occupied cell
        c, t, _ = rng.choice(notes)
        if len(notes) < 6:
            notes.append([c, t, rng.choice([None, 50.0])])
    rng.shuffle(notes)
    return notes


def _random_filter(rng, kind, n):
    if rng.random() < 0.4:
        return None
    rows = rng.choice([1, 1, 2])
    if kind == "chord":
        return dict(rows=[[rng.randrange(1, KEYS + 1) for _ in range(n)] for _ in range(rows)], options=rng.randrange(8), exclude=rng.random() < 0.3)
    if kind == "combo":
        base = [[rng.randrange(KEYS) for _ in range(n)] for _ in range(rows)]
        if rng.random() < 0.3:
            base = [[0] * n]
        return dict(rows=base, options=rng.randrange(8), exclude=rng.random() < 0.3)
    return dict(rows=[[rng.choice(TYPE_NAMES) for _ in range(n)] for _ in range(rows)], options=rng.randrange(4), exclude=rng.random() < 0.4)


def _random_cfgs(rng):
    cfgs = []
    for _ in range(4):
        n = rng.choice([2, 2, 3, 4])
        cfgs.append(dict(kind="combinations", size=n, size2=rng.random() < 0.3, chord=_random_filter(rng, "chord", n), combo=_random_filter(rng, "combo", n), type=_random_filter(rng, "type", n)))
    cfgs.append(dict(kind="jacks", length=rng.choice([2, 2, 3, 4])))
    cfgs.append(dict(kind="chord_stream", primary=rng.randrange(1, 4), secondary=rng.randrange(1, 3), and_lower=rng.random() < 0.5, include_jack=rng.random() < 0.5))
    return cfgs


@bounded("C20", note="real Pattern.group + PtnCombo.combinations + templates on note sets of <= 6 notes (4 columns x 3 times, holds with tails), every window / jack setting, sizes 2..4, every filter option bitmask, against the statement (partition, window facts, set-comprehension oracle)")
def grouping_and_combinations_vs_statement(rep):
    rng = rep.rng
    N = rep.n(700, 25000)
    rep.bound = (f"up to {N} seeded note sets: 0..6 notes on distinct cells of {KEYS} columns x times {TIMES} (10% with a second note on an occupied cell), 30% holds of length {HOLD_LENGTHS} "
                 f"with tails requested or not, base and osu note classes; EACH note set is grouped with all 24 settings v in {V_WINDOWS} x h in {H_WINDOWS} x avoid_jack in (True, False); "
                 "for 3 of the 24 groupings: 4 combinations() calls (size 2..4, make_size2 30%, chord-size / column / type filter each absent 40% or created by the real create() from 1-2 random rows "
                 "with a random option bitmask (chord 0..7, column 0..7, type 0..3) and exclude), 1 template_jacks (length 2..4), 1 template_chord_stream")
    rep.rule = "a case is one (note set, tails, v, h, avoid_jack, list of combination / template calls); non-trivial when the note set has >= 2 notes"
    stats = Counter()
    settings = [(v, h, j) for v in V_WINDOWS for h in H_WINDOWS for j in (True, False)]
    for _ in range(N):
        if rep.out_of_time(22, 400):
            break
        notes = _random_notes(rng)
        base = dict(notes=notes, cls=rng.choice(["base", "base", "osu"]), tails=rng.random() < 0.6)
        with_combos = set(rng.sample(range(len(settings)), 3))
        for i, (v, h, j) in enumerate(settings):
            case = dict(base, v=v, h=h, jack=j, combos=_random_cfgs(rng) if i in with_combos else [])
            rep.case(case, nontrivial=len(notes) >= 2)
            stats["groupings"] += 1
            stats["combination_calls"] += sum(1 for c in case["combos"] if c["kind"] == "combinations")
            stats["chord_filter_calls"] += sum(1 for c in case["combos"] if c["kind"] == "combinations" and c["chord"])
            stats["template_calls"] += sum(1 for c in case["combos"] if c["kind"] != "combinations")
            for what, d in _run_case(case):
                rep.fail(what, case, d)
    rep.extra["counts"] = dict(stats)


@replayer("grouping_and_combinations_vs_statement")
def _replay(case, what):
    failed = _run_case(case)
    hit = [d for w, d in failed if w == what]
    return (bool(hit), hit[0] if hit else "passes")


# ---------------------------------------------------------------------------------------------- filter verdicts, exhaustively
def _verdict_case(case):
    """One filter (kind, rows, options, exclude) asked about one data vector: the real verdict against row membership."""
    import numpy as np

    flt = _mk_filter(case["kind"], case, "base")
    failed = []
    if case["kind"] == "chord":
        got = bool(flt.filter(np.array(case["data"])))
        want = _row_member(flt, case["data"])
        if got != want:
            failed.append(("chord_filter_exact", f"sizes {case['data']}: filter says {got}; table {flt.ar.tolist()}, exclude={flt.invert_filter}"))
    elif case["kind"] == "combo":
        got = bool(flt.filter(np.array([case["data"]]))[0])
        want = _row_member(flt, case["data"])
        if got != want:
            failed.append(("column_filter_exact", f"columns {case['data']}: filter says {got}; table {flt.ar.tolist()}, exclude={flt.invert_filter}"))
    else:
        T = _types("base")
        data = np.empty((1, len(case["data"])), dtype=object)
        for j, nme in enumerate(case["data"]):
            data[0, j] = T[nme]
        got = bool(flt.filter(data)[0])
        want = _type_pass(flt, [T[nme] for nme in case["data"]])
        if got != want:
            failed.append(("type_filter_exact", f"types {case['data']}: filter says {got}; table {[[c.__name__ for c in r] for r in flt.ar.tolist()]}, exclude={flt.invert_filter}"))
    return failed


@bounded("C20", note="every single-row chord-size / column / type filter of length 2 (thorough: 3) with every option bitmask and exclude setting, asked about every data vector: verdict == row membership in the filter's own table")
def filter_verdicts_vs_tables(rep):
    sizes = [2] if rep.tier == "quick" else [2, 3]
    rep.bound = (f"exhaustive for lengths {sizes}: chord-size filters from every base row in {{1..{KEYS}}}^n x option bitmask 0..7 x exclude, asked about every size vector in {{1..{KEYS}}}^n; "
                 f"column filters from every base row in {{0..{KEYS - 1}}}^n x bitmask 0..7 x exclude, every column vector; type filters from every base row over {TYPE_NAMES} x bitmask 0..3 x exclude, every type vector over Hit/Hold/HoldTail")
    rep.rule = "a case is one (filter kind, base row, option bitmask, exclude, data vector); all are non-trivial"
    rep.exhaustive = True
    import numpy as np

    T = _types("base")
    for n in sizes:
        for kind, alphabet, masks, data_alphabet in (("chord", range(1, KEYS + 1), range(8), range(1, KEYS + 1)),
                                                     ("combo", range(KEYS), range(8), range(KEYS)),
                                                     ("type", TYPE_NAMES, range(4), TYPE_NAMES[:3])):
            for row in product(alphabet, repeat=n):
                for mask in masks:
                    for excl in (False, True):
                        spec = dict(kind=kind, rows=[list(row)], options=mask, exclude=excl)
                        try:
                            flt = _mk_filter(kind, spec, "base")
                        except Exception as ex:
                            rep.case(spec)
                            rep.fail("filter_create_completes", spec, f"{type(ex).__name__}: {ex}")
                            continue
                        for data in product(data_alphabet, repeat=n):
                            if rep.out_of_time(25, 400):
                                rep.exhaustive = False
                                return
                            case = dict(spec, data=list(data))
                            rep.case(case)
                            # same comparison as _verdict_case, with the filter built once
                            if kind == "chord":
                                got, want = bool(flt.filter(np.array(data))), _row_member(flt, data)
                                what = "chord_filter_exact"
                            elif kind == "combo":
                                got, want = bool(flt.filter(np.array([data]))[0]), _row_member(flt, data)
                                what = "column_filter_exact"
                            else:
                                arr = np.empty((1, n), dtype=object)
                                for j, nme in enumerate(data):
                                    arr[0, j] = T[nme]
                                got, want = bool(flt.filter(arr)[0]), _type_pass(flt, [T[x] for x in data])
                                what = "type_filter_exact"
                            if got != want:
                                rep.fail(what, case, f"data {list(data)}: filter says {got}, row membership says {want}; table {[[getattr(c, '__name__', c) for c in r] for r in flt.ar.tolist()]}, exclude={excl}")


@replayer("filter_verdicts_vs_tables")
def _replay_verdict(case, what):
    failed = _verdict_case(case)
    hit = [d for w, d in failed if w == what]
    return (bool(hit), hit[0] if hit else "passes")
