"""C07 - O2Jam reading (deductive kernel; byte-level decoding and whole files: contracts/C07_bounded.py).

The tempo sweep of O2JMap.read_pkgs: ONE iteration of the `while` loop that consumes tempo events, verified as a
loop-body unit from an arbitrary state (any number of tempo events): consuming event k advances the running time
by the measures since the previous position at the tempo active there (a measure lasts 240000 / bpm ms), stamps
the event with that time and makes its tempo the active one.  By induction every tempo event - also those after
the last note - gets the piecewise-integrated time, and the note formula `offset + 4*(m - measure)/bpm_val`
evaluated after the loop is the integrated time of measure m.
"""
from fractions import Fraction

from pyvc.dsl import contract, lemma, bounded, loop_unit, Int, Real, Bool, Obj, Const, Choice, ListT
from pyvc.ghost import eqr, implies

READ_PKGS = "reamber.o2jam.O2JMap:O2JMap.read_pkgs"


def _mk_bpm(bpm, offset, measure):
    from reamber.o2jam.O2JBpm import O2JBpm

    b = O2JBpm(bpm=bpm, offset=offset)
    b.measure = measure
    return b


class _BpmEventT(Obj):
    pass


def BpmEventT():
    """An O2JBpm item as read_events_bpm leaves it: data {bpm, offset} plus the attribute `measure`."""
    from pyvc.dsl import Ty
    from pyvc.engine import SObj
    from pyvc.dsl import resolve

    class T(Ty):
        def make(self, name, ctx):
            import z3

            bpm, off, mea = z3.Real(name + ".bpm"), z3.Real(name + ".offset"), z3.Real(name + ".measure")
            return SObj(resolve("reamber.o2jam.O2JBpm:O2JBpm"), {"data": {"bpm": bpm, "offset": off}, "measure": mea})

        def concretize(self, name, model):
            import z3
            from pyvc.dsl import _mval

            def val(n):
                m = _mval(model, z3.Real(n))
                return float(Fraction(m.numerator_as_long(), m.denominator_as_long()))

            return _mk_bpm(val(name + ".bpm"), val(name + ".offset"), val(name + ".measure"))

    return T()


@loop_unit("C07", READ_PKGS, anchor="while bpm_ix < len(bpms) and",
           args=dict(n=Choice([1, 2, 3]), bpms=Choice([ListT(BpmEventT(), n) for n in (1, 2, 3)]), bpm_ix=Int(), offset=Real(), measure=Real(), bpm_val=Real(),
                     until_measure=Choice([Real(), Const(None)])))
class tempo_sweep_step:
    max_paths = 3000
    assumes = ["shape-bounded in the length of the tempo-event list held in the state (1..3); the step itself is index-generic"]

    def requires(n, bpms, bpm_ix, offset, measure, bpm_val, until_measure):
        return (len(bpms) == n and 0 <= bpm_ix and bpm_ix < n and bpm_val > 0 and all(b.bpm > 0 for b in bpms)
                and all(b.measure >= measure for k, b in enumerate(bpms) if k >= 0) or False)

    def requires_loop_condition(n, bpms, bpm_ix, offset, measure, bpm_val, until_measure):
        return any(k == bpm_ix and (until_measure is None or b.measure <= until_measure) and b.measure >= measure for k, b in enumerate(bpms))

    def ensures_time_advances_by_the_elapsed_measures(n, bpms, bpm_ix, offset, measure, bpm_val, until_measure, result):
        return all(implies(k == bpm_ix, eqr((result.offset - offset) * bpm_val, 240000 * (b.measure - measure)) and eqr(result.bpms[k].offset, result.offset))
                   for k, b in enumerate(bpms))

    def ensures_event_becomes_the_active_tempo(n, bpms, bpm_ix, offset, measure, bpm_val, until_measure, result):
        return (result.outcome == "normal" and result.bpm_ix == bpm_ix + 1
                and all(implies(k == bpm_ix, result.measure == b.measure and result.bpm_val == b.bpm) for k, b in enumerate(bpms)))

    def ensures_other_events_untouched(n, bpms, bpm_ix, offset, measure, bpm_val, until_measure, result):
        return all(implies(k != bpm_ix, result.bpms[k].offset == b.offset) and result.bpms[k].bpm == b.bpm and result.bpms[k].measure == b.measure for k, b in enumerate(bpms))

    def witnesses(rng):
        for _ in range(120):
            n = rng.randrange(1, 4)
            base = rng.choice([0.0, 1.5, 3.0])
            bs = [_mk_bpm(float(rng.choice([60, 120, 177.5])), 0.0, base + rng.choice([0, 0.25, 1, 2.5, 7])) for _ in range(n)]
            yield dict(n=n, bpms=bs, bpm_ix=rng.randrange(n), offset=float(rng.choice([0, 1234.5])), measure=base, bpm_val=float(rng.choice([90, 150])),
                       until_measure=rng.choice([None, base + 10.0]))


# ---------------------------------------------------------------------------------------------------------------
# The whole of read_pkgs at small shapes: entry, the sort, both call sites of the sweep, the note formula, the
# hold length and the exit glue - everything the step unit leaves to the induction argument - executed from the
# real source for symbolic measures / tempos, against an ORDER-FREE statement of "time is the integral of
# 240000 / bpm over measures": for any two positions (origin, tempo events, notes, hold tails) with no tempo
# event strictly between them, the elapsed time is the measures between them at the tempo active at the first.


def _mk_hit(measure, column=0):
    from reamber.o2jam.O2JHit import O2JHit

    h = O2JHit(offset=0.0, column=column)
    h.measure = measure
    return h


def _mk_hold(measure, tail_measure, column=0):
    from reamber.o2jam.O2JHold import O2JHold

    h = O2JHold(offset=0.0, column=column, length=0.0)
    h.measure = measure
    h.tail_measure = tail_measure
    return h


def _ItemT(kind):
    from pyvc.dsl import Ty, resolve, _mval
    from pyvc.engine import SObj

    def val(model, n):
        import z3

        m = _mval(model, z3.Real(n))
        return float(Fraction(m.numerator_as_long(), m.denominator_as_long()))

    class T(Ty):
        def make(self, name, ctx):
            import z3

            if kind == "hit":
                return SObj(resolve("reamber.o2jam.O2JHit:O2JHit"), {"data": {"offset": z3.RealVal(0), "column": 0, "volume": 0, "pan": 8}, "measure": z3.Real(name + ".measure")})
            return SObj(resolve("reamber.o2jam.O2JHold:O2JHold"),
                        {"data": {"offset": z3.RealVal(0), "column": 1, "length": z3.RealVal(0), "volume": 0, "pan": 8}, "measure": z3.Real(name + ".measure"), "tail_measure": z3.Real(name + ".tail_measure")})

        def concretize(self, name, model):
            if kind == "hit":
                return _mk_hit(val(model, name + ".measure"))
            return _mk_hold(val(model, name + ".measure"), val(model, name + ".tail_measure"), 1)

    return T()


def _active(p, init, tempo):
    """bpm in force at measure p: the tempo event with the greatest measure <= p (the later one in file order
    among equals), else the header tempo."""
    best = -1
    val = init
    for m, b in tempo:
        val = b if (m <= p and m >= best) else val
        best = m if (m <= p and m >= best) else best
    return val


def _positions(tb, hs, ls):
    return ([(0, 0)] + [(b.measure, b.offset) for b in tb] + [(h.measure, h.offset) for h in hs]
            + [(h.measure, h.offset) for h in ls] + [(h.tail_measure, h.offset + h.length) for h in ls])


ORDERS = ["tnl", "ntl", "lnt"]


@lemma("C07", args=dict(tb=Choice([ListT(BpmEventT(), n) for n in (0, 1, 2)]), hs=Choice([ListT(_ItemT("hit"), n) for n in (0, 1)]),
                        ls=Choice([ListT(_ItemT("hold"), n) for n in (0, 1)]), init_bpm=Real(), order=Choice([Const(o) for o in ORDERS[1:]])))
class read_pkgs_integrates_time:
    """read_pkgs gives every tempo event, note and hold tail the integrated time of its measure."""

    max_paths = 20000
    explore_s = 300
    explore_s_thorough = 3000
    args_thorough = dict(order=Choice([Const(o) for o in ORDERS]))
    assumes = ["shape-bounded: 0..2 tempo events, 0..1 hits, 0..1 holds in one package, two (thorough: three) file orders; measures and tempos symbolic reals",
               "the O2JHitList / O2JHoldList / O2JBpmList constructors at the end are executed over the frame model (A2)"]

    def requires(tb, hs, ls, init_bpm, order):
        return (init_bpm > 0 and all(b.bpm > 0 and b.measure >= 0 for b in tb) and all(h.measure >= 0 for h in hs)
                and all(h.measure >= 0 and h.tail_measure >= h.measure for h in ls))

    def body(tb, hs, ls, init_bpm, order):
        from reamber.o2jam.O2JEventPackage import O2JEventPackage
        from reamber.o2jam.O2JMap import O2JMap

        pkg = O2JEventPackage()
        groups = dict(t=list(tb), n=list(hs), l=list(ls))
        pkg.events = [e for g in order for e in groups[g]]
        return O2JMap.read_pkgs([pkg], init_bpm)

    def ensures_elapsed_time_is_measures_at_the_active_tempo(tb, hs, ls, init_bpm, order, result):
        tempo = [(b.measure, b.bpm) for b in tb]
        pos = _positions(tb, hs, ls)
        return all(
            implies(p <= q and all(not (p < m and m < q) for m, _ in tempo), eqr((tq - tp) * _active(p, init_bpm, tempo), 240000 * (q - p)))
            for p, tp in pos for q, tq in pos
        )

    def ensures_result_lists_hold_the_events(tb, hs, ls, init_bpm, order, result):
        return (len(result.hits) == len(hs) and len(result.holds) == len(ls) and len(result.bpms) == len(tb) + 1
                and sorted(result.hits.offset.tolist()) == sorted(h.offset for h in hs)
                and sorted(result.holds.offset.tolist()) == sorted(h.offset for h in ls)
                and sorted(result.holds.length.tolist()) == sorted(h.length for h in ls))

    def ensures_header_tempo_is_first(tb, hs, ls, init_bpm, order, result):
        return eqr(result.bpms.offset.tolist()[0], 0) and eqr(result.bpms.bpm.tolist()[0], init_bpm)

    def witnesses(rng):
        for _ in range(80):
            nb, nh, nl = rng.randrange(0, 3), rng.randrange(0, 2), rng.randrange(0, 2)
            ms = [0, 0.5, 1, 1.25, 2, 3.75, 6]
            tb = [_mk_bpm(float(rng.choice([60, 120, 177.5])), 0.0, float(rng.choice(ms))) for _ in range(nb)]
            hs = [_mk_hit(float(rng.choice(ms))) for _ in range(nh)]
            ls = []
            for _ in range(nl):
                a = float(rng.choice(ms))
                ls.append(_mk_hold(a, a + float(rng.choice([0, 0.25, 1, 4])), 1))
            yield dict(tb=tb, hs=hs, ls=ls, init_bpm=float(rng.choice([90, 150])), order=rng.choice(ORDERS))
