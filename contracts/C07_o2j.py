"""C07 - O2Jam reading (deductive kernel; byte-level decoding and whole files: contracts/C07_bounded.py).

The tempo sweep of O2JMap.read_pkgs: ONE iteration of the `while` loop that consumes tempo events, verified as a
loop-body unit from an arbitrary state (any number of tempo events): consuming event k advances the running time
by the measures since the previous position at the tempo active there (a measure lasts 240000 / bpm ms), stamps
the event with that time and makes its tempo the active one.  By induction every tempo event - also those after
the last note - gets the piecewise-integrated time, and the note formula `offset + 4*(m - measure)/bpm_val`
evaluated after the loop is the integrated time of measure m.
"""
from fractions import Fraction

from pyvc.dsl import contract, lemma, bounded, loop_unit, Int, Real, Bool, Obj, Const, Choice, ListT
from pyvc.ghost import eqr, implies

READ_PKGS = "reamber.o2jam.O2JMap:O2JMap.read_pkgs"


def _mk_bpm(bpm, offset, measure):
    from reamber.o2jam.O2JBpm import O2JBpm

    b = O2JBpm(bpm=bpm, offset=offset)
    b.measure = measure
    return b


class _BpmEventT(Obj):
    pass


def BpmEventT():
    """An O2JBpm item as read_events_bpm leaves it: data {bpm, offset} plus the attribute `measure`."""
    from pyvc.dsl import Ty
    from pyvc.engine import SObj
    from pyvc.dsl import resolve

    class T(Ty):
        def make(self, name, ctx):
            import z3

            bpm, off, mea = z3.Real(name + ".bpm"), z3.Real(name + ".offset"), z3.Real(name + ".measure")
            return SObj(resolve("reamber.o2jam.O2JBpm:O2JBpm"), {"data": {"bpm": bpm, "offset": off}, "measure": mea})

        def concretize(self, name, model):
            import z3
            from pyvc.dsl import _mval

            def val(n):
                m = _mval(model, z3.Real(n))
                return float(Fraction(m.numerator_as_long(), m.denominator_as_long()))

            return _mk_bpm(val(name + ".bpm"), val(name + ".offset"), val(name + ".measure"))

    return T()


@loop_unit("C07", READ_PKGS, anchor="while bpm_ix < len(bpms) and",
           args=dict(n=Choice([1, 2, 3]), bpms=Choice([ListT(BpmEventT(), n) for n in (1, 2, 3)]), bpm_ix=Int(), offset=Real(), measure=Real(), bpm_val=Real(),
                     until_measure=Choice([Real(), Const(None)])))
class tempo_sweep_step:
    max_paths = 3000
    assumes = ["shape-bounded in the length of the tempo-event list held in the state (1..3); the step itself is index-generic"]

    def requires(n, bpms, bpm_ix, offset, measure, bpm_val, until_measure):
        return (len(bpms) == n and 0 <= bpm_ix and bpm_ix < n and bpm_val > 0 and all(b.bpm > 0 for b in bpms)
                and all(b.measure >= measure for k, b in enumerate(bpms) if k >= 0) or False)

    def requires_loop_condition(n, bpms, bpm_ix, offset, measure, bpm_val, until_measure):
        return any(k == bpm_ix and (until_measure is None or b.measure <= until_measure) and b.measure >= measure for k, b in enumerate(bpms))

    def ensures_time_advances_by_the_elapsed_measures(n, bpms, bpm_ix, offset, measure, bpm_val, until_measure, result):
        return all(implies(k == bpm_ix, eqr((result.offset - offset) * bpm_val, 240000 * (b.measure - measure)) and eqr(result.bpms[k].offset, result.offset))
                   for k, b in enumerate(bpms))

    def ensures_event_becomes_the_active_tempo(n, bpms, bpm_ix, offset, measure, bpm_val, until_measure, result):
        return (result.outcome == "normal" and result.bpm_ix == bpm_ix + 1
                and all(implies(k == bpm_ix, result.measure == b.measure and result.bpm_val == b.bpm) for k, b in enumerate(bpms)))

    def ensures_other_events_untouched(n, bpms, bpm_ix, offset, measure, bpm_val, until_measure, result):
        return all(implies(k != bpm_ix, result.bpms[k].offset == b.offset) and result.bpms[k].bpm == b.bpm and result.bpms[k].measure == b.measure for k, b in enumerate(bpms))

    def witnesses(rng):
        for _ in range(120):
            n = rng.randrange(1, 4)
            base = rng.choice([0.0, 1.5, 3.0])
            bs = [_mk_bpm(float(rng.choice([60, 120, 177.5])), 0.0, base + rng.choice([0, 0.25, 1, 2.5, 7])) for _ in range(n)]
            yield dict(n=n, bpms=bs, bpm_ix=rng.randrange(n), offset=float(rng.choice([0, 1234.5])), measure=base, bpm_val=float(rng.choice([90, 150])),
                       until_measure=rng.choice([None, base + 10.0]))
