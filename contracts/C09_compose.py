"""C09 - read -> convert -> write (deductive part: composition lemmas; whole files: contracts/C09_bounded.py).

The property is a composition.  Two composition lemmas are machine-checked over the frame model - the converter's
result is handed to the target's record writer in the SAME symbolic run, so the converter's postcondition really is
what the writer's contract needs (states native charts never have: fresh labels 0..n-1 from `empty`, default
fields, float times):

 * osu chart (any history: symbolic row labels) -> OsuToQua.convert -> Qua*List.to_yaml: the records denote the
   source's hits / holds / tempo points / SVs with lanes = column + 1 and times truncated to whole ms (< 1 ms),
   only the format's keys;
 * BMS chart -> BMSToQua.convert -> to_yaml likewise.

The other legs (text <-> lists of each format) are C01-C07's contracts and bounded checks.
"""
from pyvc.dsl import contract, lemma, bounded, Int, Real, Bool, Obj, Const, Choice, ListT, TimedListT, MapT, resolve
from pyvc.ghost import rows, labels, columns, eqr, implies
from contracts.C12_stack import OSU, BMS, _rand_map, SHAPE_NOTE

_COL = dict(column=Int(0, 6))
_OV = dict(hits=_COL, holds=dict(column=Int(0, 6), length=Real(lo=0)))
OSU_SHAPES = Choice([MapT(OSU, dict(hits=2, holds=1, bpms=1, svs=1), overrides=_OV), MapT(OSU, dict(hits=0, holds=2, bpms=2, svs=0), overrides=_OV)])
BMS_SHAPES = Choice([MapT(BMS, dict(hits=1, holds=2, bpms=1), overrides=_OV)])


def _within(a, b):
    return abs(a - b) < 1


def _records_denote(recs_hits, recs_holds, recs_bpms, src):
    h, d, b = rows(src.hits), rows(src.holds), rows(src.bpms)
    return (len(recs_hits) == len(h) and len(recs_holds) == len(d) and len(recs_bpms) == len(b)
            and all(sorted(r.keys()) == ["KeySounds", "Lane", "StartTime"] and r["Lane"] == x["column"] + 1 and _within(r["StartTime"], x["offset"]) and r["KeySounds"] == []
                    for r, x in zip(recs_hits, h))
            and all(sorted(r.keys()) == ["EndTime", "KeySounds", "Lane", "StartTime"] and r["Lane"] == x["column"] + 1 and _within(r["StartTime"], x["offset"])
                    and _within(r["EndTime"], x["offset"] + x["length"]) for r, x in zip(recs_holds, d))
            and all(sorted(r.keys()) == ["Bpm", "StartTime"] and eqr(r["Bpm"], x["bpm"]) and _within(r["StartTime"], x["offset"]) for r, x in zip(recs_bpms, b)))


@lemma("C09", args=dict(src=OSU_SHAPES))
class osu_to_quaver_records:
    assumes = SHAPE_NOTE + ["yaml.dump of the records and the text -> list legs are outside this lemma (C01 / C06)"]

    def body(src):
        from reamber.algorithms.convert.OsuToQua import OsuToQua

        q = OsuToQua.convert(src, False)
        return (q.hits.to_yaml(), q.holds.to_yaml(), q.bpms.to_yaml(), q.svs.to_yaml())

    def ensures_records_denote_the_source_chart(src, result, old):
        return _records_denote(result[0], result[1], result[2], old.src)

    def ensures_svs_carried(src, result, old):
        s = rows(old.src.svs)
        return len(result[3]) == len(s) and all(sorted(r.keys()) == ["Multiplier", "StartTime"] and eqr(r["Multiplier"], x["multiplier"]) and _within(r["StartTime"], x["offset"]) for r, x in zip(result[3], s))

    def witnesses(rng):
        for _ in range(40):
            m = _rand_map(rng, OSU)
            if len(m.hits) + len(m.holds):
                yield dict(src=m)


@lemma("C09", args=dict(src=BMS_SHAPES))
class bms_to_quaver_records:
    assumes = SHAPE_NOTE

    def body(src):
        from reamber.algorithms.convert.BMSToQua import BMSToQua

        q = BMSToQua.convert(src, False)
        return (q.hits.to_yaml(), q.holds.to_yaml(), q.bpms.to_yaml())

    def ensures_records_denote_the_source_chart(src, result, old):
        return _records_denote(result[0], result[1], result[2], old.src)

    def witnesses(rng):
        for _ in range(40):
            m = _rand_map(rng, BMS)
            if len(m.hits) + len(m.holds):
                yield dict(src=m)


QUA = "reamber.quaver.QuaMap:QuaMap"
_COL4 = dict(column=Int(0, 3))
QUA_SHAPES = Choice([MapT(QUA, dict(hits=2, holds=1, bpms=1, svs=1), overrides=dict(hits=_COL4, holds=dict(column=Int(0, 3), length=Real(lo=0)), bpms=dict(bpm=Real(lo=1)), svs=dict(multiplier=Real(lo=0.01))),
                          fields=dict(mode="Keys4"))])


@lemma("C09", args=dict(src=QUA_SHAPES))
class quaver_to_osu_lines:
    """Quaver chart (any history) -> QuaToOsu.convert -> the item writers of the .osu text: every written line parses
    by the .osu line grammar to the source object - column (through the x coordinate and the converted key count),
    time within 1 ms, hold end within 1 ms, bpm / SV code inverted exactly."""

    assumes = SHAPE_NOTE + ["4-key chart; section assembly of OsuMap.write and the text -> list legs are C01's"]

    def body(src):
        from reamber.algorithms.convert.QuaToOsu import QuaToOsu
        from contracts.C01_osu import a5_parse_hit, a5_parse_hold, a5_parse_timing

        osu = QuaToOsu.convert(src)
        k = int(osu.circle_size)
        return (k, [a5_parse_hit(h.write_string(k)) for h in osu.hits], [a5_parse_hold(h.write_string(k)) for h in osu.holds],
                [a5_parse_timing(b.write_string()) for b in osu.bpms], [a5_parse_timing(s.write_string()) for s in osu.svs])

    def ensures_key_count_from_the_mode(src, result, old):
        return result[0] == 4

    def ensures_note_lines_denote_the_source_notes(src, result, old):
        from contracts.C01_osu import fmt_column

        k, hits, holds = result[0], result[1], result[2]
        h, d = rows(old.src.hits), rows(old.src.holds)
        return (len(hits) == len(h) and len(holds) == len(d)
                and all(fmt_column(p["x"], k) == x["column"] and _within(p["time"], x["offset"]) for p, x in zip(hits, h))
                and all(fmt_column(p["x"], k) == x["column"] and _within(p["time"], x["offset"]) and _within(p["end"], x["offset"] + x["length"]) for p, x in zip(holds, d)))

    def ensures_timing_lines_denote_the_source_tempo_and_svs(src, result, old):
        b, s = rows(old.src.bpms), rows(old.src.svs)
        return (len(result[3]) == len(b) and len(result[4]) == len(s)
                and all(p["uninherited"] == 1 and eqr(p["beat_length"] * x["bpm"], 60000) and eqr(p["time"], x["offset"]) for p, x in zip(result[3], b))
                and all(p["uninherited"] == 0 and eqr(p["beat_length"] * x["multiplier"], -100) and eqr(p["time"], x["offset"]) for p, x in zip(result[4], s)))

    def witnesses(rng):
        for _ in range(30):
            m = _rand_map(rng, QUA)
            m.mode = "Keys4"
            if len(m.hits) + len(m.holds) == 0 or any(x <= 0 for x in m.svs.multiplier.tolist()):
                continue
            yield dict(src=m)
