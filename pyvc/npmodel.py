"""numpy pieces of assumption A2 used by the timing engine and the pattern code (1-D, static length).

np.array(list)           -> SArrayLite of the elements
a.argsort()              -> a sorting permutation w.r.t. the elements' `<` (insertion sort forking on the
                            comparisons; for equal keys BOTH relative orders are explored: numpy's default
                            sort is not stable)
a[perm] / a[::-1]        -> positional selection
np.asarray / np.array of concrete data stay native.
"""
from __future__ import annotations

import ast

import numpy as np

import z3

from . import lib
from .engine import Undecided, PyRaise, Handler, is_sym, deep_concrete, SObj
from .frames import SArrayLite, _cell_compare, SSeries


def _lt(it, a, b):
    return it.truthy(it.compare(ast.Lt(), a, b))


def argsort(it, vals, stable=False):
    order = []
    for r in range(len(vals)):
        pos = len(order)
        while pos > 0:
            pk = vals[order[pos - 1]]
            if it.ctx.decide(_lt(it, vals[r], pk), "argsort-lt"):
                pos -= 1
                continue
            if not stable:
                # tie (neither smaller): an unstable sort may put the new element before or after
                if not it.ctx.decide(_lt(it, pk, vals[r]), "argsort-gt"):
                    it.ctx.fresh_n += 1
                    if it.ctx.decide(z3.Bool(f"np_tie!{it.ctx.fresh_n}"), "argsort-tie"):
                        pos -= 1
                        continue
            break
        order.insert(pos, r)
    return order


def _arr_getattr(self, it, name):
    if name == "tolist":
        return Handler(lambda it_: list(self.vals), "ndarray.tolist")
    if name == "argsort":
        def _argsort(it_, *a, kind=None, **k):
            if all(isinstance(v, int) and not isinstance(v, bool) for v in self.vals):
                return SArrayLite(sorted(range(len(self.vals)), key=lambda i: self.vals[i]))
            return SArrayLite(argsort(it_, self.vals, stable=(kind in ("stable", "mergesort"))))
        return Handler(_argsort, "ndarray.argsort")
    if name == "shape":
        return (len(self.vals),)
    if name == "size":
        return len(self.vals)
    if name == "copy":
        return Handler(lambda it_: SArrayLite(self.vals), "ndarray.copy")
    if name in ("sum", "min", "max"):
        fn = {"sum": lib.h_sum, "min": lib.h_min, "max": lib.h_max}[name]
        return Handler(lambda it_: fn(it_, list(self.vals)), "ndarray." + name)
    if name == "any":
        return Handler(lambda it_: lib._disj([it_.truthy(v) for v in self.vals]), "ndarray.any")
    if name == "all":
        return Handler(lambda it_: lib._conj([it_.truthy(v) for v in self.vals]), "ndarray.all")
    raise Undecided(f"ndarray.{name} in the lite model")


def _arr_getitem(self, it, idx):
    if isinstance(idx, slice):
        if any(is_sym(x) for x in (idx.start, idx.stop, idx.step)):
            raise Undecided("symbolic slice of an array")
        return SArrayLite(self.vals[idx])
    if is_sym(idx):
        return it.select_static(self.vals, idx)
    if isinstance(idx, bool):
        raise Undecided("ndarray[bool]")
    if isinstance(idx, int):
        return self.vals[it.norm_index(idx, len(self.vals))]
    if isinstance(idx, (SArrayLite, list)):
        ix = idx.vals if isinstance(idx, SArrayLite) else idx
        if all(isinstance(i, bool) or (is_sym(i) and z3.is_bool(i)) for i in ix) and len(ix) == len(self.vals) and ix:
            return SArrayLite([v for v, m in zip(self.vals, ix) if it.decide(m, "ndarray-mask")])
        out = []
        for i in ix:
            if is_sym(i):
                out.append(it.select_static(self.vals, i))
            else:
                out.append(self.vals[it.norm_index(i, len(self.vals))])
        return SArrayLite(out)
    raise Undecided("ndarray subscript in the lite model")


def _arr_setitem(self, it, idx, v):
    if isinstance(idx, int):
        self.vals[it.norm_index(idx, len(self.vals))] = v
        return
    if isinstance(idx, slice) and not any(is_sym(x) for x in (idx.start, idx.stop, idx.step)):
        rng = range(len(self.vals))[idx]
        if isinstance(v, np.ndarray) and v.ndim == 1:
            v = [x.item() for x in v]
        if isinstance(v, (SArrayLite, list)):
            vs = v.vals if isinstance(v, SArrayLite) else v
            if len(vs) != len(rng):
                raise PyRaise(ValueError, ("could not broadcast",))
            for k, x in zip(rng, vs):
                self.vals[k] = x
        else:
            for k in rng:
                self.vals[k] = v
        return
    if isinstance(idx, (SArrayLite, list)):
        ix = idx.vals if isinstance(idx, SArrayLite) else idx
        if ix and all(isinstance(i, bool) or (is_sym(i) and z3.is_bool(i)) for i in ix) and len(ix) == len(self.vals):
            # boolean-mask store; a sequence value is consumed in order by the selected positions
            seq = v.vals if isinstance(v, SArrayLite) else (list(v) if isinstance(v, list) else None)
            k = 0
            for pos, m in enumerate(ix):
                if it.decide(m, "ndarray-mask-store"):
                    self.vals[pos] = seq[k] if seq is not None else v
                    k += 1
            if seq is not None and k != len(seq):
                raise PyRaise(ValueError, ("NumPy boolean array indexing assignment cannot assign",))
            return
        for i in ix:
            self.vals[it.norm_index(i, len(self.vals))] = v
        return
    raise Undecided("ndarray store in the lite model")


def _arr_unop(self, it, op):
    if isinstance(op, ast.Invert):
        out = []
        for v in self.vals:
            t = it.truthy(v)
            out.append(z3.Not(t) if is_sym(t) else (not t))
        return SArrayLite(out)
    if isinstance(op, ast.USub):
        return SArrayLite([it.binop(ast.Sub(), 0, v) for v in self.vals])
    raise Undecided("ndarray unary operator")


def _arr_binop(self, it, op, other, swapped):
    o = other.vals if isinstance(other, SArrayLite) else (other if isinstance(other, list) else None)
    if o is not None and len(o) != len(self.vals):
        raise PyRaise(ValueError, ("operands could not be broadcast together",))
    out = []
    for k, v in enumerate(self.vals):
        b = o[k] if o is not None else other
        x, y = (b, v) if swapped else (v, b)
        if isinstance(op, (ast.BitAnd, ast.BitOr)):
            tx, ty = it.truthy(x), it.truthy(y)
            if isinstance(tx, bool) and isinstance(ty, bool):
                out.append((tx and ty) if isinstance(op, ast.BitAnd) else (tx or ty))
            else:
                f = z3.And if isinstance(op, ast.BitAnd) else z3.Or
                out.append(z3.simplify(f(lib.to_z3(tx), lib.to_z3(ty))))
        else:
            out.append(it.binop(op, x, y))
    return SArrayLite(out)


def _arr_compare(self, it, op, other, swapped):
    o = other.vals if isinstance(other, SArrayLite) else None
    out = []
    for k, v in enumerate(self.vals):
        b = o[k] if o is not None else other
        out.append(it.compare(op, b, v) if swapped else it.compare(op, v, b))
    return SArrayLite(out)


def _arr_iop(self, it, op, other):
    r = _arr_binop(self, it, op, other, False)
    self.vals[:] = r.vals
    return self


SArrayLite._pyvc_getattr = _arr_getattr
SArrayLite._pyvc_getitem = _arr_getitem
SArrayLite._pyvc_setitem = _arr_setitem
SArrayLite._pyvc_unop = _arr_unop
SArrayLite._pyvc_binop = _arr_binop
SArrayLite._pyvc_compare = _arr_compare
SArrayLite._pyvc_iop = _arr_iop
SArrayLite._pyvc_deepcopy = lambda self, rec: SArrayLite([rec(v) for v in self.vals])
SArrayLite.__repr__ = lambda self: f"SArrayLite({self.vals})"


class SRecArray:
    """numpy record array (1-D) as named parallel columns: ar["field"], len(ar), ar[mask]."""

    _pyvc_symbolic = True

    def __init__(self, cols):
        self.cols = {k: list(v) for k, v in cols.items()}

    def _pyvc_len(self, it):
        return len(next(iter(self.cols.values()))) if self.cols else 0

    def _pyvc_getitem(self, it, idx):
        if isinstance(idx, str):
            if idx not in self.cols:
                raise PyRaise(ValueError, (f"no field of name {idx}",))
            return SArrayLite(self.cols[idx])
        if isinstance(idx, SArrayLite):
            n = self._pyvc_len(it)
            if len(idx.vals) != n:
                raise PyRaise(IndexError, ("boolean index did not match",))
            keep = [k for k, m in enumerate(idx.vals) if it.decide(m, "recarray-mask")]
            return SRecArray({c: [v[k] for k in keep] for c, v in self.cols.items()})
        if isinstance(idx, int):
            k = it.norm_index(idx, self._pyvc_len(it))
            return tuple(v[k] for v in self.cols.values())
        raise Undecided("record array subscript")

    def _pyvc_deepcopy(self, rec):
        return SRecArray({c: [rec(x) for x in v] for c, v in self.cols.items()})

    def __repr__(self):
        return f"SRecArray({self.cols})"


class SymSet(list):
    """A set of symbolic values of static size: one representative per equality class, found by forking on the
    pairwise equalities (so every path has concrete membership)."""

    _pyvc_symbolic = True

    @staticmethod
    def build(it, items):
        out = SymSet()
        for x in items:
            dup = False
            for y in out:
                if it.ctx.decide(it.truthy(it.equals(x, y)), "set-dedupe"):
                    dup = True
                    break
            if not dup:
                out.append(x)
        return out

    def _pyvc_binop(self, it, op, other, swapped):
        if isinstance(op, ast.BitOr) and isinstance(other, (SymSet, set, frozenset)):
            a, b = (list(other), list(self)) if swapped else (list(self), list(other))
            return SymSet.build(it, a + b)
        return NotImplemented

    def _pyvc_contains(self, it, item):
        return lib._disj([it.truthy(it.equals(x, item)) for x in self])


class TableTheory:
    """Axiom schemas over the indices of abstract tables, instantiated on demand at every index term the
    code or the specification touches (sound: only instances of the assumed invariants are added)."""

    def __init__(self, ctx):
        self.ctx = ctx
        self.terms = []
        self.ids = set()
        self.unary = []
        self.binary = []

    def touch(self, t):
        t = z3.simplify(lib.to_z3(t))
        if t.get_id() in self.ids:
            return
        self.ids.add(t.get_id())
        for ax in self.unary:
            self.ctx.assume(ax(t))
        for ax in self.binary:
            for u in self.terms:
                self.ctx.assume(ax(t, u))
                self.ctx.assume(ax(u, t))
        self.terms.append(t)

    def add_unary(self, ax):
        self.unary.append(ax)
        for t in self.terms:
            self.ctx.assume(ax(t))

    def add_binary(self, ax):
        self.binary.append(ax)
        for i, t in enumerate(self.terms):
            for u in self.terms[:i]:
                self.ctx.assume(ax(t, u))
                self.ctx.assume(ax(u, t))


class SFuncArray:
    """An array of symbolic length given by an uninterpreted function index -> value (Int or Real).
    Used for tables whose content is abstracted by invariants (e.g. the Snapper grid)."""

    _pyvc_symbolic = True

    def __init__(self, fn, n, theory):
        self.fn, self.n, self.theory = fn, n, theory

    def _pyvc_len(self, it):
        return self.n

    def _pyvc_getitem(self, it, idx):
        if isinstance(idx, slice):
            raise Undecided("slice of an abstract table")
        i = lib.as_arith(idx)
        if not z3.is_int(i):
            raise PyRaise(IndexError, ("only integers are valid indices",))
        n = lib.to_z3(self.n)
        if it.ctx.decide(z3.And(i >= 0, i < n), "table-index"):
            self.theory.touch(i)
            return self.fn(i)
        if it.ctx.decide(z3.And(i < 0, i >= -n), "table-index-neg"):
            self.theory.touch(n + i)
            return self.fn(n + i)
        raise PyRaise(IndexError, ("index out of bounds",))

    def _pyvc_deepcopy(self, rec):
        return self


class DivFacts:
    """Divisibility facts that follow from how values were computed with np.lcm (per path): lcm(x, y) is a
    common multiple of x and y, divisibility is reflexive and transitive.  Kept as a closed set of pairs of term
    ids, so `divides(x, y)` in a specification is decided by lookup - every fact in the set is a theorem about the
    values on this path, no assumption is added."""

    def __init__(self):
        self.pairs = set()

    @staticmethod
    def key(t):
        return z3.simplify(lib.to_z3(t)).get_id() if lib.is_sym(t) else ("c", t)

    def add(self, x, y):
        kx, ky = self.key(x), self.key(y)
        new = {(kx, ky)}
        new |= {(u, ky) for (u, v) in self.pairs if v == kx}
        new |= {(kx, w) for (v, w) in self.pairs if v == ky}
        new |= {(u, w) for (u, v) in self.pairs if v == kx for (v2, w) in self.pairs if v2 == ky}
        self.pairs |= new

    def holds(self, x, y):
        kx, ky = self.key(x), self.key(y)
        if kx == ky or (kx, ky) in self.pairs:
            return True
        if not lib.is_sym(x) and not lib.is_sym(y) and isinstance(x, int) and isinstance(y, int) and x != 0:
            return y % x == 0
        return False


def divides(x, y):
    """x divides y (native meaning; symbolically decided from the path's lcm facts)."""
    return y % x == 0


def _install():
    import numpy as np
    import bisect

    @lib.handler(np.lcm)
    def _lcm(it, x, y):
        if not lib.is_sym(x) and not lib.is_sym(y):
            return int(np.lcm(x, y))
        a, b = lib.as_arith(x), lib.as_arith(y)
        L = it.ctx.fresh("lcm", "int")
        it.ctx.assume(z3.And(L >= a, L >= b, L >= 1))
        facts = it.ctx.__dict__.setdefault("div_facts", DivFacts())
        facts.add(x, L)
        facts.add(y, L)
        return L

    @lib.handler(divides)
    def _divides(it, x, y):
        facts = it.ctx.__dict__.setdefault("div_facts", DivFacts())
        return facts.holds(x, y)

    def _bisect(left):
        def h(it, a, v, lo=0, hi=None):
            if isinstance(a, SFuncArray):
                if lo != 0 or hi is not None:
                    raise Undecided("bisect with lo/hi on an abstract table")
                ix = it.ctx.fresh("bisect", "int")
                n = lib.to_z3(a.n)
                x = lib.as_real(v) if z3.is_real(a.fn(0)) else lib.as_arith(v)
                it.ctx.assume(z3.And(ix >= 0, ix <= n))
                fn = a.fn
                if left:
                    a.theory.add_unary(lambda j: z3.Implies(z3.And(0 <= j, j < ix), fn(j) < x))
                    a.theory.add_unary(lambda j: z3.Implies(z3.And(ix <= j, j < n), fn(j) >= x))
                else:
                    a.theory.add_unary(lambda j: z3.Implies(z3.And(0 <= j, j < ix), fn(j) <= x))
                    a.theory.add_unary(lambda j: z3.Implies(z3.And(ix <= j, j < n), fn(j) > x))
                return ix
            vals = a.vals if isinstance(a, SArrayLite) else a
            if deep_concrete(vals) and deep_concrete(v) and deep_concrete(lo) and deep_concrete(hi):
                f = bisect.bisect_left if left else bisect.bisect_right
                return f(vals, v, lo, len(vals) if hi is None else hi)
            # static sorted sequence, symbolic probe: the insertion index by forking (requires sortedness of a)
            vals = list(vals)
            if not isinstance(lo, int) or hi is not None:
                raise Undecided("bisect with symbolic lo/hi")
            for k in range(lo, len(vals)):
                c = it.compare(ast.GtE() if left else ast.Gt(), vals[k], v)
                if it.ctx.decide(it.truthy(c), "bisect"):
                    return k
            return len(vals)
        return h

    lib.handler(bisect.bisect_left)(_bisect(True))
    lib.handler(bisect.bisect_right)(_bisect(False))
    lib.handler(bisect.bisect)(_bisect(False))

    def _array(it, data=None, dtype=None, **kw):
        if isinstance(data, SArrayLite):
            return SArrayLite(data.vals)
        if isinstance(data, SSeries):
            return SArrayLite(data.vals)
        if deep_concrete(data) and not (isinstance(data, (list, tuple)) and any(isinstance(x, SObj) for x in data)):
            try:
                real = np.array(data) if dtype is None else np.array(data, dtype=dtype)
            except Exception as ex:
                raise PyRaise(type(ex), ex.args)
            if real.ndim == 1 and real.dtype != object and real.dtype.kind in "ifb":
                return SArrayLite([x.item() for x in real])
            if real.ndim == 1 and real.dtype == object:
                return SArrayLite(list(data))
            return real
        items = it.iterate(data)
        return SArrayLite(items)

    lib.handler(np.array)(_array)
    lib.handler(np.asarray)(_array)

    def _flat(it, x):
        if isinstance(x, SArrayLite):
            return list(x.vals)
        if isinstance(x, SSeries):
            return list(x.vals)
        if isinstance(x, np.ndarray):
            if x.ndim > 1:
                raise Undecided("np.append of a multi-dimensional array")
            return [v.item() for v in x]
        if isinstance(x, (list, tuple)):
            return list(x)
        return [x]

    @lib.handler(np.append)
    def _append(it, arr, values, axis=None):
        if axis is not None:
            raise Undecided("np.append with an axis")
        return SArrayLite(_flat(it, arr) + _flat(it, values))

    @lib.handler(np.zeros)
    def _zeros(it, n, dtype=float, **kw):
        if is_sym(n) or not isinstance(n, int):
            raise Undecided("np.zeros of a symbolic / non-1-D shape")
        z = False if dtype in (bool, np.bool_) else (0 if dtype in (int,) else 0.0)
        return SArrayLite([z] * n)

    @lib.handler(np.ones)
    def _ones(it, n, dtype=float, **kw):
        if is_sym(n) or not isinstance(n, int):
            raise Undecided("np.ones of a symbolic / non-1-D shape")
        z = True if dtype in (bool, np.bool_) else (1 if dtype in (int,) else 1.0)
        return SArrayLite([z] * n)

    @lib.handler(np.isnan)
    def _isnan(it, x):
        from .frames import NAN

        if isinstance(x, SArrayLite):
            return SArrayLite([v is NAN or (isinstance(v, float) and v != v) for v in x.vals])
        if is_sym(x):
            return False
        return x is NAN or (isinstance(x, float) and x != x)


_install()
