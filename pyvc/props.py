"""Per-property claim table (single source for MANIFEST.json and the evidence level)."""

PROPS = {}


def prop(pid, level, text, note, technique, design_ref, **kw):
    PROPS[pid] = dict(level=level, text=text, note=note, technique=technique, design_ref=design_ref, **kw)

prop(
    "C10", "proof",
    "Pre/post contracts on the timing engine's functions (Snap normalisation/order/difference/duration, Snap.from_offset, Snapper.snap over an abstract grid table, from_bpm_changes_snap, TimingMap.bpm_changes_snap/offsets/snaps); VCs generated from the real source and discharged by z3 4.8/5.1 for all values (floats as reals). The two loops (tempo accumulation, reverse query sweep) are verified as loop-body units from an arbitrary state satisfying the stated invariant (unbounded iterations); whole functions are additionally proved at 1..3 tempo changes x 1..3 queries in every order. beats(), non-default Snapper divisions and float rounding only by the bounded native side.",
    "A1 (reals for floats), A3 (stdlib), A2 numpy argsort/fancy-index model (pyvc/npmodel.py); Snapper table abstracted by invariants I1-I4 which are checked natively on the real default table every run (Snapper.__init__ itself is numpy and not verified); domain: a tempo change keeps the metronome or sits on a measure line.",
    "contract-based deductive verification: sidecar pre/postconditions, loop-body units with invariants, modular callee contracts; VCs from the real AST; z3/cvc5",
    "DESIGN.md section 7 C10",
)

prop(
    "C01", "proof",
    "Pre/post contracts on the osu kernels (column<->x for every key count, value<->code, item-line readers against the format's line grammar for all field values, classifiers, writers parsed back by the format grammar with the <1 ms bound, the key:value metadata parser/formatter for all 30 keys with values containing ':'), VCs generated from the real source and discharged by z3; float column arithmetic additionally enumerated exhaustively (18 x 514). DataFrame glue and whole-map round trips are bounded stand-ins.",
    "A1, A3, A5 (.osu v14 grammar oracle in contracts/C01_osu.py); dialect: canonical numerals, hit-sample suffix present, file name without ', : newline'; pandas glue only bounded.",
    "contract-based deductive verification: sidecar contracts + round-trip lemmas over the real source, z3 (LIA/LRA/strings as structured segments) + exhaustive native enumeration of the finite float domain",
    "DESIGN.md section 7 C01",
)

prop(
    "C16", "other",
    "Contracts state every public list operation as the same operation on the plain row sequence rows(L). The real method bodies are executed symbolically over a static-shape frame model (0..3 rows; every cell and every distinct row label symbolic) and the VCs discharged by z3: a proof for all values and labels at those shapes (shape-bounded, not counted as an unbounded proof). Every query / filter / sort contract also carries the frame clause 'the receiver keeps its rows, order, fields and labels'. The same contracts are checked at run time on every list class of every game over operation sequences (bounded).",
    "A2 pandas model (pyvc/frames.py, conformance-tested), A1, A3. Row counts beyond 3 only by the native bounded side.",
    "contract-based deductive verification over a shape-bounded symbolic frame model (z3) + run-time contract checking on all list classes",
    "DESIGN.md section 7 C16", uses_frames=True,
    explanation="shape-bounded deductive verification: obligations are discharged by z3 for all cell values and row labels at 0..3 rows; larger row counts and all list classes are covered by the bounded native side only",
)


prop(
    'C02', 'other',
    'The cell step of SMMap._read_notes (symbol dispatch, position (measure, beat+snap), head/tail pairing per column) is verified as a loop-body unit from an arbitrary state for all positions; position -> ms is TimingMap.offsets (C10 contracts) and the tempo list is the reseated map (C11 step units). Tokenising, header routing and whole files are checked by running the real reader on generated .sm texts against an independent exact-rational StepMania interpreter (bounded).',
    'A1, A3, A5 (.sm denotation in contracts/C02_bounded.py); the state of the cell step holds 3 columns; whole-file part bounded.',
    'contract-based deductive verification (loop-body unit, z3) + bounded run-time checking against an independent format interpreter',
    "DESIGN.md section 7 C02", explanation='loop-body unit proved for all states of the stated shape; the reader as a whole only by the bounded stand-in (592 quick / 5450 thorough generated files)',
)

prop(
    'C03', 'other',
    'The per-measure step of SMMap.write (body of the loop over measures) is verified as a loop-body unit: exactly measure - prev - 1 empty measures of one 0 per column are padded, the measure is written with min(lcm of the denominators, 384) rows, every object lands in its own column at row num * rows / den - exactly its position - and no other cell is set (denominators enumerated, numerators / columns / measure numbers symbolic). Header formatting, the beat computation and whole mapsets: the real writer output is parsed by the independent exact-rational .sm interpreter and compared with the in-memory mapset (rated, selectable False, >384-row measures, empty measures, all chart types, tempo rows in any order); header fields read back; re-read stability (bounded).',
    'A1 (row arithmetic over the reals: a float-only slip such as num / den * rows is invisible to the unit and is caught by the bounded side), A2 (np.lcm on concrete denominators), A5 (.sm denotation)',
    'contract-based deductive verification (loop-body unit, z3) + bounded run-time checking of the real writer against an independent format interpreter',
    "DESIGN.md section 7 C03", uses_frames=True, explanation='loop-body unit proved for the enumerated denominator shapes; the writer as a whole only by the bounded stand-in',
)

prop(
    'C04', 'other',
    'The object step of BMSMap._read_notes (body of the loop over the two-character slots of a data line) is verified as a loop-body unit from an arbitrary state: slot i of `division` slots sits at beat 4*i/division of its measure (i, division, measure symbolic); 00 is no object; on a note channel it becomes a hit of that lane with the #WAV sample of its id, or - the #LNOBJ id - closes the latest hit of the lane into a hold ending here; on channels 03 / 08 a tempo change of the hexadecimal value / the #BPMxx entry; nothing else changes; the code raises exactly on the malformed cases. Position -> ms is TimingMap.offsets (C10). The five layout tables are enumerated completely. Line classification, header routing and whole texts: the real reader on generated BMS/BME/PMS texts against an independent exact-rational BMS interpreter (bounded).',
    'A1, A5 (BMS denotation); BME layout and fixed header tables in the unit state; at most one earlier hit per lane; file-order LN pairing is known finding F6',
    'contract-based deductive verification (loop-body unit, z3) + exhaustive enumeration of the finite layout tables + bounded run-time checking against an independent format interpreter',
    "DESIGN.md section 7 C04", explanation='loop-body unit proved for all slots / positions at the stated state shape; the reader as a whole only by the bounded stand-in',
)

prop(
    'C05', 'other',
    "find_lcm (denominator grouping) carries a contract - every returned denominator is a positive multiple of the line's own and is the original or below the threshold - discharged by z3 from the real source for 1..3 symbolic denominators with np.lcm used through its contract; tempo ids 1..1295 and the five layout tables are enumerated completely; the writer as a whole is run on generated charts (unsorted tempo rows included) and its bytes parsed by the independent BMS interpreter (bounded).",
    'A2 (np.lcm contract), A5; slot arithmetic and DataFrame grouping only bounded',
    'contract-based deductive verification (z3, lcm divisibility facts) + exhaustive enumeration of finite tables + bounded run-time checking against an independent interpreter',
    "DESIGN.md section 7 C05", explanation='find_lcm proved at 1..3 denominators (shape-bounded); ids/layouts decided exhaustively; everything else bounded',
)

prop(
    'C06', 'other',
    "The list <-> record translations (Qua*List.to_yaml for hits, holds, tempo points, SVs) carry contracts - exactly the format's keys, 1-based lanes, EndTime = start + length, whole-ms truncation (< 1 ms), the list itself not modified by writing - discharged by z3 over the frame model; mode <-> key count is enumerated. Documents, YAML quoting, omitted-key defaults and converted charts are checked by running the real reader / writer against an independent denotation (bounded).",
    'shape-bounded (0..3 rows); A2 frame model, yaml only bounded',
    'contract-based deductive verification over a shape-bounded symbolic frame model (z3) + bounded run-time checking against an independent denotation',
    "DESIGN.md section 7 C06", uses_frames=True, explanation='shape-bounded deductive verification: the REAL function bodies are executed symbolically over a static-shape model of pandas frames / numpy arrays (every cell value and every row label symbolic, row counts 0..3) and the VCs discharged by z3 - a proof for all values at those shapes, NOT an unbounded proof; larger shapes, other classes and whole files only by the bounded native side',
)

prop(
    'C07', 'other',
    'The tempo sweep of O2JMap.read_pkgs is verified as a loop-body unit from an arbitrary state (any number of tempo events): consuming an event advances the running time by the elapsed measures at the active tempo (240000/bpm ms per measure), stamps the event and makes its tempo active. The WHOLE of read_pkgs (the stable sort by measure, the split into notes and tempo events, the measure->time dictionary, trailing tempo events, hold length from the time of the tail, the result lists) is additionally executed from the real source for 0..2 tempo events x 0..1 hits x 0..1 holds with symbolic measures and tempos against an order-free integral statement (shape-bounded). Byte decoding (struct), package framing, hold pairing and whole files are checked by running the real reader on generated OJN bytes (tempo packages in any file order) against an independent exact-rational OJN interpreter (bounded).',
    'A1, A3 (struct), A5 (OJN layout in contracts/C07_bounded.py); state holds 1..3 tempo events',
    'contract-based deductive verification (loop-body unit, z3) + bounded run-time checking against an independent format interpreter',
    "DESIGN.md section 7 C07", explanation='loop-body unit proved for all states of the stated shape; byte-level reader only by the bounded stand-in',
)

prop(
    'C08', 'other',
    "ConvertBase.cast and eight whole converters (OsuToQua, QuaToOsu, OsuToBMS, QuaToBMS, OsuToSM, QuaToSM, BMSToQua, BMSToSM) are executed from their real source over the frame model with SYMBOLIC ROW LABELS (= any history of the source): target hits/holds/tempo points/SVs equal the source's positionally, explicit column shift only, only the target's declared fields, nothing missing, metadata from the source, source untouched. All 16 converters + merge on histories of real charts: bounded.",
    'shape-bounded (lists of 0..3 rows, all cells and labels symbolic); A2 frame model; dtypes not modelled; metadata strings concrete in the symbolic run',
    'contract-based deductive verification over a shape-bounded symbolic frame model (z3) + bounded run-time checking over histories',
    "DESIGN.md section 7 C08", uses_frames=True, explanation='shape-bounded deductive verification: the REAL function bodies are executed symbolically over a static-shape model of pandas frames / numpy arrays (every cell value and every row label symbolic, row counts 0..3) and the VCs discharged by z3 - a proof for all values at those shapes, NOT an unbounded proof; larger shapes, other classes and whole files only by the bounded native side',
)

prop(
    'C09', 'other',
    'The property is a composition. Three composition lemmas are machine-checked over the frame model: an osu chart of any history (symbolic row labels) -> OsuToQua.convert -> the Quaver record writers, a BMS chart -> BMSToQua.convert -> the record writers, and a Quaver chart -> QuaToOsu.convert -> the .osu item-line writers parsed back by the .osu line grammar: the written records / lines denote the source objects (column, time < 1 ms, hold end, bpm, SV) - i.e. the converter post-state is what the target writer needs. The remaining legs are C01-C08. End to end: generated source files in all five formats x 16 pairs through the real read / convert / write, the written text parsed by the target format interpreter and compared with the source interpreter (bounded).',
    'shape-bounded lemmas (lists of 0..2 rows); A5 oracles of C01/C02/C04/C06/C07; yaml / byte-level writers only in the bounded run',
    'contract-based deductive verification of compositions over a shape-bounded symbolic frame model (z3) + bounded end-to-end run against independent format interpreters',
    "DESIGN.md section 7 C09", uses_frames=True, explanation='three converter->writer composition lemmas proved at small shapes; the 16-pair end-to-end claim only by the bounded stand-in',
)

prop(
    'C11', 'other',
    'One iteration of the reseat loop is verified as a loop-body unit per branch from an arbitrary state (for every metronome 1..8 and all bpms / times): whole measures -> nothing changes and the next change is seated at its own time; a partial measure -> the current change is re-timed in place or exactly one point is inserted on a measure line whose single measure spans the rest; the just-after-a-line case stretches the last measure. Elapsed time between the two changes is preserved in every case. The whole loop (lists of 2-4 changes on the half-beat grid exhaustively, random finer grids) is enumerated natively against exact rational integration (bounded).',
    "A1; proof hints (real-arithmetic identities proved by nlsat first); the tiny-gap and near-beat-gap classes are known findings and excluded by the step contracts' case preconditions",
    'contract-based deductive verification (loop-body units per branch, z3 nlsat / linear abstraction) + bounded enumeration of the whole loop',
    "DESIGN.md section 7 C11", explanation='step obligations proved for all states; the loop-level claim (induction over iterations) is argued in DESIGN.md and enumerated natively, not machine-checked',
)

prop(
    'C12', 'other',
    'Map.stack / Stacker.__init__ / __getitem__ / __setitem__ / _update / loc and the generated stack properties are executed from their real source over the frame model: whole-column arithmetic and conditional assignment change exactly the selected rows and columns of each list as the same edit on each list alone would; lengths, order, classes, other columns and lists lacking the property untouched (empty lists and arbitrary labels included). Operation sequences, mapset stacks and stale stackers: bounded.',
    'shape-bounded (lists of 0..2 rows); A2 frame model; dtypes not modelled',
    'contract-based deductive verification over a shape-bounded symbolic frame model (z3) + bounded run-time checking over operation sequences',
    "DESIGN.md section 7 C12", uses_frames=True, explanation='shape-bounded deductive verification: the REAL function bodies are executed symbolically over a static-shape model of pandas frames / numpy arrays (every cell value and every row label symbolic, row counts 0..3) and the VCs discharged by z3 - a proof for all values at those shapes, NOT an unbounded proof; larger shapes, other classes and whole files only by the bounded native side',
)

prop(
    'C13', 'other',
    'Map.rate / OsuMap.rate from their real source over the frame model: every time and duration / r, every bpm * r, other fields unchanged, original untouched, new frames; rate(1) identity and rate(a).rate(b) == rate(a*b) over the reals; osu preview point. Write -> read of rated charts, mapsets, int-typed charts and the StepMania file offset: bounded.',
    'shape-bounded; A1 (composition over reals only); dtypes not modelled (int-typed charts are covered by the bounded side)',
    'contract-based deductive verification over a shape-bounded symbolic frame model (z3 nlsat) + bounded run-time checking',
    "DESIGN.md section 7 C13", uses_frames=True, explanation='shape-bounded deductive verification: the REAL function bodies are executed symbolically over a static-shape model of pandas frames / numpy arrays (every cell value and every row label symbolic, row counts 0..3) and the VCs discharged by z3 - a proof for all values at those shapes, NOT an unbounded proof; larger shapes, other classes and whole files only by the bounded native side',
)

prop(
    'C14', 'other',
    "Frame clauses (receiver / arguments unchanged in values, fields and labels; result shares no frame) as postconditions on the real source of the list operations (after, before, sorted, append, move_*, deepcopy, HoldList variants), rate, cast, eight converters and sv_normalize, plus 'editing the copy later does not change the input', all over the frame model which tracks in-place mutation exactly. Every other listed operation (writers, full_ln, hitsound_copy, scroll_speed, dominant_bpm, patterns): dynamic snapshot twin (bounded).",
    'shape-bounded; A2 frame model; objects inside cells are not tracked symbolically',
    'contract-based deductive verification of frame clauses over a shape-bounded symbolic frame model (z3) + bounded dynamic snapshot twin',
    "DESIGN.md section 7 C14", uses_frames=True, explanation='shape-bounded deductive verification: the REAL function bodies are executed symbolically over a static-shape model of pandas frames / numpy arrays (every cell value and every row label symbolic, row counts 0..3) and the VCs discharged by z3 - a proof for all values at those shapes, NOT an unbounded proof; larger shapes, other classes and whole files only by the bounded native side',
)

prop(
    'C15', 'other',
    "Relational (2-safety) lemmas: the real operation is executed symbolically on a chart and on the same chart with every list's rows permuted; the results hold the same objects. Covered: rate, OsuToQua, QuaToOsu, sv_normalize. Writers, full_ln, hitsound_copy, dominant_bpm, scroll_speed: permutation twin on real charts (bounded).",
    'shape-bounded (0..3 rows, selected permutations of each list); A2',
    'contract-based relational verification over a shape-bounded symbolic frame model (z3) + bounded permutation twin',
    "DESIGN.md section 7 C15", uses_frames=True, explanation='shape-bounded deductive verification: the REAL function bodies are executed symbolically over a static-shape model of pandas frames / numpy arrays (every cell value and every row label symbolic, row counts 0..3) and the VCs discharged by z3 - a proof for all values at those shapes, NOT an unbounded proof; larger shapes, other classes and whole files only by the bounded native side',
)

prop(
    'C17', 'other',
    'The per-row decision of full_ln (body of the inner loop) is verified as a loop-body unit from an arbitrary state: exactly one output note per row at its time and column on every path; last of a column keeps kind and length; otherwise a hold ending exactly gap before the next note iff that leaves the threshold, else a hit; a generated hold never reaches the next note. The stack / sort / groupby / diff pipeline and whole charts of every game: bounded against an oracle written from the statement.',
    'A1; NaN handled as missing value; pipeline only bounded',
    'contract-based deductive verification (loop-body unit, z3) + bounded run-time checking against an oracle from the statement',
    "DESIGN.md section 7 C17", explanation='loop-body unit proved for all rows; grouping pipeline only by the bounded stand-in',
)

prop(
    'C18', 'other',
    'The two slot-filling loops of hitsound_copy are verified as loop-body units from an arbitrary state: a free note receives exactly the sounds still owed and the counters go down by what was placed; with no free note nothing is written; a named sample lands on the next free note or - every time none is free - becomes an event sample at that time; notes never move. Grouping by time / volume and whole chart pairs: bounded against the four clauses of the statement.',
    'state table of 3 rows (static shape); A2 (df.at); pipeline only bounded',
    'contract-based deductive verification (loop-body units, z3) + bounded run-time checking',
    "DESIGN.md section 7 C18", uses_frames=True, explanation='loop-body units proved for all states of the stated shape; the grouping pipeline only by the bounded stand-in',
)

prop(
    'C19', 'other',
    "sv_normalize (override given) from its real source over the frame model: one SV per tempo point at its time, multiplier * bpm == reference, the chart's own SV list class, chart untouched. dominant_bpm and scroll_speed are pandas pipelines outside the model: exact rational oracles from the definitions on generated charts (bounded).",
    'shape-bounded; readings fixed in DESIGN.md (last object over all lists; last SV in list order wins)',
    'contract-based deductive verification over a shape-bounded symbolic frame model (z3) + bounded run-time checking against exact oracles',
    "DESIGN.md section 7 C19", uses_frames=True, explanation='shape-bounded deductive verification: the REAL function bodies are executed symbolically over a static-shape model of pandas frames / numpy arrays (every cell value and every row label symbolic, row counts 0..3) and the VCs discharged by z3 - a proof for all values at those shapes, NOT an unbounded proof; larger shapes, other classes and whole files only by the bounded native side',
)

prop(
    'C20', 'other',
    'Pattern.v_mask and Pattern.h_mask from their real source over a numpy lite model (0..4 notes, offsets and columns symbolic): the vertical mask is exactly the window [offset, offset+v] keeping only the first note of each column when jacks are avoided; the horizontal mask is exactly the column-distance test. The grouping loop, combinations and filters: exhaustive small-scope enumeration against a set-comprehension oracle (bounded).',
    'shape-bounded; A2 numpy model (pyvc/npmodel.py): bisect on sorted sequences, symbolic sets',
    'contract-based deductive verification over a shape-bounded numpy model (z3) + bounded exhaustive small-scope enumeration',
    "DESIGN.md section 7 C20", explanation='mask kernels proved at 0..4 notes; partition / combinations only by the bounded stand-in',
)

