"""Per-property claim table (single source for MANIFEST.json and the evidence level)."""

PROPS = {}


def prop(pid, level, text, note, technique, design_ref, **kw):
    PROPS[pid] = dict(level=level, text=text, note=note, technique=technique, design_ref=design_ref, **kw)

prop(
    "C10", "proof",
    "Pre/post contracts on the timing engine's functions (Snap normalisation/order/difference/duration, Snap.from_offset, Snapper.snap over an abstract grid table, from_bpm_changes_snap, TimingMap.bpm_changes_snap/offsets/snaps); VCs generated from the real source and discharged by z3 4.8/5.1 for all values (floats as reals). The two loops (tempo accumulation, reverse query sweep) are verified as loop-body units from an arbitrary state satisfying the stated invariant (unbounded iterations); whole functions are additionally proved at 1..3 tempo changes x 1..3 queries in every order. beats(), non-default Snapper divisions and float rounding only by the bounded native side.",
    "A1 (reals for floats), A3 (stdlib), A2 numpy argsort/fancy-index model (pyvc/npmodel.py); Snapper table abstracted by invariants I1-I4 which are checked natively on the real default table every run (Snapper.__init__ itself is numpy and not verified); domain: a tempo change keeps the metronome or sits on a measure line.",
    "contract-based deductive verification: sidecar pre/postconditions, loop-body units with invariants, modular callee contracts; VCs from the real AST; z3/cvc5",
    "DESIGN.md section 7 C10",
)

prop(
    "C01", "proof",
    "Pre/post contracts on the osu kernels (column<->x for every key count, value<->code, item-line readers against the format's line grammar for all field values, classifiers, writers parsed back by the format grammar with the <1 ms bound, the key:value metadata parser/formatter for all 30 keys with values containing ':'), VCs generated from the real source and discharged by z3; float column arithmetic additionally enumerated exhaustively (18 x 514). DataFrame glue and whole-map round trips are bounded stand-ins.",
    "A1, A3, A5 (.osu v14 grammar oracle in contracts/C01_osu.py); dialect: canonical numerals, hit-sample suffix present, file name without ', : newline'; pandas glue only bounded.",
    "contract-based deductive verification: sidecar contracts + round-trip lemmas over the real source, z3 (LIA/LRA/strings as structured segments) + exhaustive native enumeration of the finite float domain",
    "DESIGN.md section 7 C01",
)

prop(
    "C16", "other",
    "Contracts state every public list operation as the same operation on the plain row sequence rows(L). The real method bodies are executed symbolically over a static-shape frame model (0..3 rows; every cell and every distinct row label symbolic) and the VCs discharged by z3: a proof for all values and labels at those shapes (shape-bounded, not counted as an unbounded proof). The same contracts are checked at run time on every list class of every game over operation sequences (bounded).",
    "A2 pandas model (pyvc/frames.py, conformance-tested), A1, A3. Row counts beyond 3 only by the native bounded side.",
    "contract-based deductive verification over a shape-bounded symbolic frame model (z3) + run-time contract checking on all list classes",
    "DESIGN.md section 7 C16", uses_frames=True,
    explanation="shape-bounded deductive verification: obligations are discharged by z3 for all cell values and row labels at 0..3 rows; larger row counts and all list classes are covered by the bounded native side only",
)


# ---- properties whose checks are being built: provisional claims (refined as contracts land) -------------
_PROVISIONAL = {
    "C02": "StepMania reading",
    "C03": "StepMania writing",
    "C04": "BMS reading",
    "C05": "BMS writing",
    "C06": "Quaver file <-> chart",
    "C07": "O2Jam reading",
    "C08": "converters preserve content",
    "C09": "read -> convert -> write",
    "C11": "reseating tempo changes",
    "C12": "stacking writes through",
    "C13": "rate change",
    "C14": "operations never modify their inputs",
    "C15": "row order does not matter",
    "C17": "full-LN generation",
    "C18": "hitsound copy",
    "C19": "dominant bpm / scroll speed / SV normalisation",
    "C20": "pattern grouping and combinations",
}
for _pid, _what in _PROVISIONAL.items():
    if _pid not in PROPS:
        prop(
            _pid, "exploration",
            f"{_what}: the property's contract is checked at run time on the real functions over enumerated and seeded inputs against an independent oracle (bounded stand-in; nothing is counted as proved).",
            "bounded stand-in only; oracle written from the property statement / public format description",
            "run-time contract checking of the real code against an independent oracle (bounded stand-in of the contract-based family)",
            f"DESIGN.md section 7 {_pid}",
        )
