"""Per-property claim table (single source for MANIFEST.json and the evidence level)."""

PROPS = {}


def prop(pid, level, text, note, technique, design_ref, **kw):
    PROPS[pid] = dict(level=level, text=text, note=note, technique=technique, design_ref=design_ref, **kw)

prop(
    "C10", "proof",
    "Every function of the timing engine that the property depends on carries a pre/post contract; the VCs are generated from the real source by pyvc and discharged by z3 for all inputs (reals for floats). Loops over tempo lists / queries are handled by inductive invariants, not unrolling.",
    "A1 (reals for floats), A3 (stdlib), numpy argsort/fancy-index contracts (A2); Snapper table invariants checked natively on the real default table every run.",
    "contract-based deductive verification: sidecar pre/postconditions + loop invariants, VCs from the real AST, z3/cvc5",
    "DESIGN.md section 7 C10",
)
