"""Obligation generation, discharge, counter-example replay and the native (bounded) side of a contract."""
from __future__ import annotations

import ast
import inspect
import itertools
import json
import math
import os
import subprocess
import tempfile
import time
import traceback
from fractions import Fraction

import z3

from . import engine as E
from .dsl import Contract, Lemma, Ty, Const, LoopUnit, NS
from .strings import SStr

QUICK_TIMEOUT_MS = 20000
THOROUGH_TIMEOUT_MS = 90000


# --------------------------------------------------------------------------- codec for replay files


def encode(v):
    if isinstance(v, bool) or v is None or isinstance(v, (int, str)):
        return v
    if isinstance(v, float):
        if math.isnan(v) or math.isinf(v):
            return {"__float__": repr(v)}
        return v
    if isinstance(v, Fraction):
        return {"__fraction__": [v.numerator, v.denominator]}
    if isinstance(v, bytes):
        return {"__bytes__": v.hex()}
    if isinstance(v, tuple):
        return {"__tuple__": [encode(x) for x in v]}
    if isinstance(v, list):
        return [encode(x) for x in v]
    if isinstance(v, dict):
        return {"__dict__": [[encode(k), encode(x)] for k, x in v.items()]}
    import dataclasses

    try:
        import pandas as pd
        from reamber.base.Series import Series as RSeries
        from reamber.base.lists.TimedList import TimedList

        if isinstance(v, RSeries):
            return {"__item__": f"{type(v).__module__}:{type(v).__qualname__}", "data": encode({k: _py(x) for k, x in v.data.to_dict().items()})}
        if isinstance(v, TimedList):
            return {"__timedlist__": f"{type(v).__module__}:{type(v).__qualname__}", "records": encode([{k: _py(x) for k, x in r.items()} for r in v.df.to_dict("records")]),
                    "index": [_py(i) for i in v.df.index.tolist()], "columns": list(v.df.columns)}
    except ImportError:
        pass
    if dataclasses.is_dataclass(v) and not isinstance(v, type):
        return {"__dataclass__": f"{type(v).__module__}:{type(v).__qualname__}", "fields": encode({f.name: getattr(v, f.name) for f in dataclasses.fields(v) if hasattr(v, f.name)})}
    if hasattr(v, "item") and hasattr(v, "dtype"):
        try:
            return encode(v.item())
        except Exception:
            pass
    return {"__repr__": repr(v)[:2000]}


def _py(x):
    if hasattr(x, "item") and hasattr(x, "dtype"):
        try:
            return x.item()
        except Exception:
            return x
    return x


def decode(v):
    if isinstance(v, list):
        return [decode(x) for x in v]
    if isinstance(v, dict):
        if "__float__" in v:
            return float(v["__float__"])
        if "__fraction__" in v:
            return Fraction(*v["__fraction__"])
        if "__bytes__" in v:
            return bytes.fromhex(v["__bytes__"])
        if "__tuple__" in v:
            return tuple(decode(x) for x in v["__tuple__"])
        if "__dict__" in v:
            return {decode(k): decode(x) for k, x in v["__dict__"]}
        if "__item__" in v:
            from .dsl import resolve

            return resolve(v["__item__"])(**decode(v["data"]))
        if "__timedlist__" in v:
            import pandas as pd
            from .dsl import resolve

            cls = resolve(v["__timedlist__"])
            recs = decode(v["records"])
            if not recs:
                return cls([])
            df = pd.DataFrame(recs, index=v["index"])
            return cls(df[v["columns"]])
        if "__dataclass__" in v:
            from .dsl import resolve

            cls = resolve(v["__dataclass__"])
            o = cls.__new__(cls)
            for k, x in decode(v["fields"]).items():
                object.__setattr__(o, k, x)
            return o
        if "__repr__" in v:
            raise ValueError("argument is not reconstructible from the replay file: " + v["__repr__"])
    return v


# --------------------------------------------------------------------------- results


class _Stop(Exception):
    pass


class Obl:
    """One proof obligation and its verdict."""

    def __init__(self, oid, kind):
        self.id = oid
        self.kind = kind
        self.status = "open"  # discharged | violated | violated-unreplayed | undecided | known
        self.backend = None
        self.time_s = 0.0
        self.detail = ""
        self.model = None
        self.replay = None
        self.smt_size = 0
        self.abstracted = False

    def to_json(self):
        return dict(
            id=self.id,
            kind=self.kind,
            status=self.status,
            backend=self.backend,
            time_s=round(self.time_s, 4),
            detail=self.detail[:400],
            smt_size=self.smt_size,
            abstracted=self.abstracted,
        )


class UnitResult:
    def __init__(self, c):
        self.contract_id = c.id
        self.pid = c.pid
        self.target = getattr(c, "target", None)
        self.obls = []
        self.paths = 0
        self.shapes = 0
        self.undecided_reasons = []
        self.reachable = False
        self.source = {}
        self.native = dict(evaluations=0, distinct=0, failures=[], exhaustive=False, crosscheck=0, crosscheck_mismatch=[])
        self.trusted_calls = set()
        self.assumes = list(getattr(c, "assumes", []))
        self.errors = []
        self.wall_s = 0.0

    def to_json(self):
        return dict(
            contract=self.contract_id,
            target=self.target,
            source=self.source,
            shapes=self.shapes,
            paths=self.paths,
            reachable=self.reachable,
            obligations=[o.to_json() for o in self.obls],
            undecided=self.undecided_reasons[:10],
            native=dict(self.native, failures=self.native["failures"][:5], crosscheck_mismatch=self.native["crosscheck_mismatch"][:5]),
            trusted_calls=sorted(self.trusted_calls),
            assumes=self.assumes,
            errors=self.errors[:5],
            wall_s=round(self.wall_s, 3),
        )


# --------------------------------------------------------------------------- helpers


def _expr_uses_uf(e, seen=None):
    seen = seen if seen is not None else set()
    stack = [e]
    while stack:
        x = stack.pop()
        if x.get_id() in seen:
            continue
        seen.add(x.get_id())
        if z3.is_app(x):
            d = x.decl()
            if d.kind() == z3.Z3_OP_UNINTERPRETED and x.num_args() > 0:
                return True
            stack.extend(x.children())
        elif z3.is_quantifier(x):
            stack.append(x.body())
    return False


def _shape_product(args):
    names = list(args)
    opts = [args[n].shapes() for n in names]
    for combo in itertools.product(*opts):
        yield dict(zip(names, combo))


def _spec_call(it_ctx, fn, values, contracts=None):
    """Evaluate a requires/ensures function symbolically (spec mode, same path context)."""
    sp = E.Interp(it_ctx, contracts=contracts or {}, spec_mode=True)
    params = list(inspect.signature(fn).parameters)
    kwargs = {p: values[p] for p in params if p in values}
    return sp.run_function(fn, [], kwargs)


def _native_spec(fn, values):
    params = list(inspect.signature(fn).parameters)
    return fn(**{p: values[p] for p in params if p in values})


def solve(pc, goal, timeout_ms):
    """Is pc => goal valid?  returns (status, model|None, backend, seconds, size).
    Portfolio: z3 5.1 (API, short budget) -> /usr/bin/z3 4.8.12 -> int-relaxed z3 -> cvc5 -> z3 5.1 (full budget).
    `unsat` from any back end discharges; `sat` is only accepted with a model the API solver confirms."""
    t0 = time.time()
    s = z3.Solver()
    for c in pc:
        s.add(c)
    neg = z3.Not(goal) if not isinstance(goal, bool) else z3.BoolVal(not goal)
    s.add(neg)
    smt_text = s.to_smt2()
    size = len(smt_text)
    from .relax import relaxed_unsat

    if "(* " in smt_text or "(/ " in smt_text:
        if relaxed_unsat(list(pc) + [neg], min(timeout_ms, 5000)):
            return "unsat", None, "z3-nlsat(int-relaxed)", time.time() - t0, size
        from .relax import linear_unsat

        if linear_unsat(list(pc) + [neg], min(timeout_ms, 5000)):
            return "unsat", None, "z3(linear-abstraction)", time.time() - t0, size
    first = min(timeout_ms, 4000)
    s.set("timeout", first)
    r = s.check()
    if r == z3.unsat:
        return "unsat", None, "z3-" + z3.get_version_string(), time.time() - t0, size
    if r == z3.sat:
        return "sat", s.model(), "z3-" + z3.get_version_string(), time.time() - t0, size
    if os.environ.get("PYVC_DUMP"):
        with open(os.path.join(os.environ["PYVC_DUMP"], f"unknown_{abs(hash(smt_text))}.smt2"), "w") as f:
            f.write(smt_text)
    st, mtxt = _z3_old(smt_text, timeout_ms)
    if st == "unsat":
        return "unsat", None, "z3-4.8.12", time.time() - t0, size
    if st == "sat" and mtxt:
        m = _confirm_model(s, mtxt)
        if m is not None:
            return "sat", m, "z3-4.8.12", time.time() - t0, size
    # relaxation: Int constants read as Reals (drops integrality only => every model of the original is a
    # model of the relaxation, so `unsat` carries over; `sat` here proves nothing and is discarded)
    from .relax import relaxed_unsat

    if relaxed_unsat(list(pc) + [neg], min(timeout_ms, 10000)):
        return "unsat", None, "z3-nlsat(int-relaxed)", time.time() - t0, size
    if _cvc5(smt_text, timeout_ms) == "unsat":
        return "unsat", None, "cvc5", time.time() - t0, size
    if timeout_ms > first:
        s.set("timeout", timeout_ms)
        r = s.check()
        if r == z3.unsat:
            return "unsat", None, "z3-" + z3.get_version_string(), time.time() - t0, size
        if r == z3.sat:
            return "sat", s.model(), "z3-" + z3.get_version_string(), time.time() - t0, size
    return "unknown", None, "z3+z3old+cvc5", time.time() - t0, size


def _z3_old(smt_text, timeout_ms):
    try:
        txt = smt_text.replace("(check-sat)", "(check-sat)\n(get-model)")
        with tempfile.NamedTemporaryFile("w", suffix=".smt2", delete=False, dir=os.environ.get("PYVC_TMP", None)) as f:
            f.write(txt)
            path = f.name
        try:
            out = subprocess.run(["/usr/bin/z3", f"-T:{max(2, timeout_ms // 1000)}", path], capture_output=True, text=True, timeout=timeout_ms / 1000 + 5)
            lines = out.stdout.strip().splitlines()
            first = (lines or [""])[0].strip()
            return first, "\n".join(lines[1:])
        finally:
            os.unlink(path)
    except Exception:
        return "error", ""


def _confirm_model(solver, model_text):
    """Feed the constants of an external model back to the API solver to obtain a checked z3 model."""
    import re

    try:
        solver.push()
        decls = {}
        for a in solver.assertions():
            stack = [a]
            seen = set()
            while stack:
                x = stack.pop()
                if x.get_id() in seen:
                    continue
                seen.add(x.get_id())
                if z3.is_const(x) and x.decl().kind() == z3.Z3_OP_UNINTERPRETED:
                    decls[x.decl().name()] = x
                if z3.is_app(x):
                    stack.extend(x.children())
        for m in re.finditer(r"\(define-fun (\S+) \(\) (\w+)\s+(.*?)\)\s*(?=\(define-fun|\)\s*$)", model_text, re.S):
            name, sort, val = m.group(1), m.group(2), m.group(3).strip()
            name = name.strip("|")
            if name not in decls:
                continue
            c = decls[name]
            try:
                if sort == "Int":
                    v = z3.IntVal(int(val.replace("(- ", "-").replace(")", "").replace(" ", "")))
                elif sort == "Real":
                    vv = val.replace("(- ", "-").replace("(/ ", "").replace(")", "").strip().split()
                    neg = vv[0].startswith("-")
                    nums = [x.lstrip("-") for x in vv]
                    from fractions import Fraction as _F
                    fr = _F(nums[0]) if len(nums) == 1 else _F(nums[0]) / _F(nums[1])
                    v = z3.RealVal(-fr if neg else fr)
                elif sort == "Bool":
                    v = z3.BoolVal(val == "true")
                else:
                    continue
                solver.add(c == v)
            except Exception:
                continue
        solver.set("timeout", 5000)
        r = solver.check()
        m = solver.model() if r == z3.sat else None
        solver.pop()
        return m
    except Exception:
        try:
            solver.pop()
        except Exception:
            pass
        return None


_RELAX_BLOCK = ("(div ", "(mod ", "(to_int ", "(is_int ", "(rem ", "String", "Array", "forall", "exists", "(declare-fun g_round")


def _relaxed(smt_text, timeout_ms):
    import re

    if any(b in smt_text for b in _RELAX_BLOCK) or "() Int)" not in smt_text:
        return "skip"
    try:
        txt = smt_text.replace("() Int)", "() Real)")
        prev = None
        while prev != txt:
            prev = txt
            txt = re.sub(r"\(to_real ([^()\s]+)\)", r"\1", txt)
        if "to_real" in txt:
            # to_real over compound integer terms: strip the wrapper textually (balanced)
            out, i = [], 0
            while i < len(txt):
                if txt.startswith("(to_real ", i):
                    depth, j = 0, i + len("(to_real ")
                    k = j
                    while True:
                        ch = txt[k]
                        if ch == "(":
                            depth += 1
                        elif ch == ")":
                            if depth == 0:
                                break
                            depth -= 1
                        k += 1
                    out.append(txt[j:k])
                    i = k + 1
                else:
                    out.append(txt[i])
                    i += 1
            txt = "".join(out)
            if "to_real" in txt:
                return "skip"
        fs = z3.parse_smt2_string(txt)
        s = z3.Solver()
        s.set("timeout", max(2000, timeout_ms // 2))
        s.add(fs)
        r = s.check()
        return str(r)
    except Exception:
        return "error"


def _cvc5(smt_text, timeout_ms):
    try:
        smt = smt_text if "(set-logic" in smt_text else "(set-logic ALL)\n" + smt_text
        with tempfile.NamedTemporaryFile("w", suffix=".smt2", delete=False, dir=os.environ.get("PYVC_TMP", None)) as f:
            f.write(smt)
            path = f.name
        try:
            out = subprocess.run(
                ["/usr/bin/cvc5", "--lang=smt2", "--strings-exp", f"--tlimit={timeout_ms}", path],
                capture_output=True,
                text=True,
                timeout=timeout_ms / 1000 + 5,
            )
            first = (out.stdout.strip().splitlines() or [""])[0].strip()
            return first
        finally:
            os.unlink(path)
    except Exception:
        return "error"


# --------------------------------------------------------------------------- loop bodies as units


def find_loop(func, anchor):
    node = E.func_ast(func)
    it = E.Interp(E.PathCtx([]))
    hits = [n for n in ast.walk(node) if isinstance(n, (ast.For, ast.While)) and it.loop_key(n).startswith(anchor)]
    if len(hits) != 1:
        raise E.Undecided(f"loop anchor {anchor!r} matches {len(hits)} loops in {func.__qualname__}")
    return hits[0]


def _run_loop_body(it, c, vals):
    """Execute the body of the anchored loop once, from the symbolic pre-iteration state `vals`."""
    from . import lib

    f = c.func
    loop = find_loop(f, c.anchor)
    pre = lib.h_deepcopy(it, vals)
    module = inspect.getmodule(f)
    genv = module.__dict__ if module else {}
    env = E.Env(dict(vals), None, genv)
    # helper functions defined inside the enclosing function (before the loop) are part of the unit's text
    for st in ast.walk(E.func_ast(f)):
        if isinstance(st, ast.FunctionDef) and st is not E.func_ast(f) and st.lineno < loop.lineno and env.vars.get(st.name) is None:
            it.s_FunctionDef(st, env)
    outcome, returned = "normal", None
    try:
        try:
            it.exec_block(loop.body, env)
        except E.PyRaise as pr:
            if issubclass(pr.exc_cls, NameError):
                # the body reads a variable the unit's state does not provide (renamed / new local): the unit no
                # longer matches the code - undecided, never a violation
                raise E.Undecided(f"the loop body reads the name {pr.exc_args!r}, which the unit's state does not provide")
            raise
    except E._Continue:
        outcome = "continue"
    except E._Break:
        outcome = "break"
    except E._Return as r:
        outcome, returned = "return", r.value
    post = {k: v for k, v in env.vars.items() if not k.startswith("__")}
    return ("return", NS(outcome=outcome, returned=returned, **post), pre)


_LOOP_NATIVE = {}


def loop_native(c, args):
    """Compile the real loop body (from the file on disk) into a function of the state and run it."""
    f = c.func
    key = (c.id, f.__code__.co_filename)
    if key not in _LOOP_NATIVE:
        loop = find_loop(f, c.anchor)
        import copy as _copy

        body = _copy.deepcopy(loop.body)
        src = ast.Module(
            body=[
                ast.FunctionDef(
                    name="__step",
                    args=ast.arguments(posonlyargs=[], args=[ast.arg(arg="__state")], kwonlyargs=[], kw_defaults=[], defaults=[]),
                    body=ast.parse(
                        "__o = None\n__ret = None\nlocals().update(__state)\n"
                    ).body,
                    decorator_list=[],
                    type_params=[],
                )
            ],
            type_ignores=[],
        )
        # locals().update does not create fast locals: bind the state names by explicit assignments instead
        names = sorted(c.args)
        fn = src.body[0]
        helpers = [_copy.deepcopy(st) for st in ast.walk(E.func_ast(f)) if isinstance(st, ast.FunctionDef) and st is not E.func_ast(f) and st.lineno < loop.lineno]
        fn.body = ast.parse("__o = None").body + [ast.parse(f"{n} = __state[{n!r}]").body[0] for n in names]
        for h in helpers:
            # a helper defined in the enclosing function: (re)defined here unless the state supplies a callable of that name
            guard = ast.parse(f"if not callable(__state.get({h.name!r})):\n    pass").body[0]
            guard.body = [h]
            fn.body.append(guard)
        once = ast.parse("for __once in (0,):\n    pass\nelse:\n    if __o is None:\n        __o = 'continue'").body[0]
        once.body = body + ast.parse("__o = 'normal'").body
        fn.body.append(once)
        fn.body += ast.parse("if __o is None:\n    __o = 'break'\nreturn __o, dict(locals())").body
        ast.fix_missing_locations(src)
        # `return` inside the body would leave __step early: rewrite Return(v) -> return ('return', {..., 'returned': v})
        class _R(ast.NodeTransformer):
            def visit_FunctionDef(self, n):
                return n if n.name != "__step" else self.generic_visit(n)
            def visit_Lambda(self, n):
                return n
            def visit_Return(self, n):
                if getattr(n, "_own", False):
                    return n
                v = n.value or ast.Constant(None)
                new = ast.parse("return 'return', dict(locals(), __returned=0)").body[0]
                new.value.elts[1].keywords[0].value = v
                return ast.copy_location(new, n)
        fn.body[-1]._own = True
        src = ast.fix_missing_locations(_R().visit(src))
        module = inspect.getmodule(f)
        g = dict(module.__dict__)
        exec(compile(src, f.__code__.co_filename, "exec"), g)
        _LOOP_NATIVE[key] = g["__step"]
    o, loc = _LOOP_NATIVE[key](dict(args))
    post = {k: v for k, v in loc.items() if not k.startswith("__")}
    return NS(outcome=o, returned=loc.get("__returned"), **post)


# --------------------------------------------------------------------------- proving one contract


class Prover:
    def __init__(self, registry_by_name, tier="quick", seed=0, replay_dir="replays"):
        self.by_name = registry_by_name
        self.tier = tier
        self.seed = seed
        self.replay_dir = replay_dir
        self.timeout = QUICK_TIMEOUT_MS if tier == "quick" else THOROUGH_TIMEOUT_MS

    # ---- modular use of callee contracts
    def callee_table(self, c):
        table = {}
        for name in c.use:
            callee = self.by_name[name]
            table[callee.func] = self._contract_applier(callee)
        return table

    def _contract_applier(self, callee):
        def apply(it, args, kwargs):
            f = callee.func
            if isinstance(f, type):
                import dataclasses

                names = [fl.name for fl in dataclasses.fields(f) if fl.init]
                loc = dict(zip(names, args))
                loc.update(kwargs)
            else:
                node = E.func_ast(f)
                loc = it.bind(node.args, args, kwargs, list(f.__defaults__ or ()), dict(f.__kwdefaults__ or {}), f.__name__)
            memo_key = None
            if getattr(callee, "pure", False):
                # a pure (deterministic, argument-preserving) function returns the same value for the same
                # argument objects / terms within one path: one abstract result per argument tuple
                def _k(v):
                    return ("t", z3.simplify(v).get_id()) if E.is_sym(v) else ("o", id(v)) if not isinstance(v, (int, float, str, bool, type(None), Fraction)) else ("c", repr(v))
                memo_key = (callee.name,) + tuple((n, _k(v)) for n, v in sorted(loc.items()))
                cache = it.ctx.__dict__.setdefault("pure_cache", {})
                if memo_key in cache:
                    return cache[memo_key][0]
            if callee.requires is not None:
                pre = _spec_call(it.ctx, callee.requires, loc)
                it.ctx.oblige(f"call:{callee.name}.requires", it.truthy(pre) if not isinstance(pre, bool) else pre, {"kind": "callee-pre"})
                it.ctx.assume(it.truthy(pre) if not isinstance(pre, bool) else pre)
            for exc_cls, cond_fn in callee.raises.items():
                cnd = _spec_call(it.ctx, cond_fn, loc)
                if it.ctx.decide(it.truthy(cnd) if not isinstance(cnd, bool) else cnd, "callee-raises"):
                    raise E.PyRaise(exc_cls, (f"per contract {callee.name}",))
            if callee.returns is None:
                raise E.Undecided(f"contract {callee.name} has no `returns` type for modular use")
            it.ctx.fresh_n += 1
            rty = callee.returns(loc) if callable(callee.returns) and not isinstance(callee.returns, Ty) else callee.returns
            res = rty.make(f"ret:{callee.name}!{it.ctx.fresh_n}", it.ctx)
            vals = dict(loc, result=res)
            for en, efn in callee.ensures.items():
                post = _spec_call(it.ctx, efn, vals)
                it.ctx.assume(it.truthy(post) if not isinstance(post, bool) else post)
            if memo_key is not None:
                it.ctx.__dict__.setdefault("pure_cache", {})[memo_key] = (res, loc)
            return res

        return apply

    # ---- symbolic side
    def n_shapes(self, c):
        if getattr(c, "bounded_only", False):
            return 0
        return sum(1 for _ in _shape_product(c.args_for(self.tier)))

    def prove(self, c, only_shape=None, native=True) -> UnitResult:
        """only_shape: index of the single shape to prove (parallel driver); None = all shapes."""
        t0 = time.time()
        ur = UnitResult(c)
        try:
            try:
                self._record_source(c, ur)
            except E.Undecided as u:
                o = Obl(f"{c.id}/extraction", "subset")
                o.status, o.detail = "undecided", str(u)
                ur.obls.append(o)
                ur.undecided_reasons.append(str(u))
                ur.wall_s = time.time() - t0
                return ur
            if not getattr(c, "bounded_only", False):
                for k, shape in enumerate(_shape_product(c.args_for(self.tier))):
                    if only_shape is not None and k != only_shape:
                        continue
                    ur.shapes += 1
                    try:
                        self._prove_shape(c, shape, ur)
                    except Exception as ex:
                        # the ENGINE failed on this code (not the code under contract: its exceptions are modelled outcomes).
                        # Nothing symbolic is claimed for the unit; the native side below and the bounded stand-ins still run.
                        tb = "".join(traceback.format_exception(type(ex), ex, ex.__traceback__))[-700:]
                        ur.native["crosscheck_mismatch"].append(f"engine crashed while executing the code symbolically: {type(ex).__name__}: {ex} :: {tb}"[:900])
                        break
                    if len([o for o in ur.obls if o.status == "violated"]) >= 3:
                        break
            if native:
                self._native_side(c, ur)
        except Exception as ex:  # checker error, never a violation
            ur.errors.append("".join(traceback.format_exception(type(ex), ex, ex.__traceback__))[-1500:])
        ur.wall_s = time.time() - t0
        return ur

    def _record_source(self, c, ur):
        if isinstance(c, Lemma):
            ur.source = dict(kind="lemma", text=inspect.getsource(c.body) if c.body else "")
            return
        f = c.func
        if isinstance(f, type):
            path = inspect.getsourcefile(f)
            tree, sha, text = E.parse_file(path)
            node = E.find_def(tree, f.__qualname__)
        else:
            node = E.func_ast(f)
            path = f.__code__.co_filename
            _, sha, text = E.parse_file(path)
            if isinstance(c, LoopUnit):
                node = find_loop(f, c.anchor)
        ur.source = dict(file=path, sha256=sha, qualname=f.__qualname__, lines=[node.lineno, node.end_lineno])
        if isinstance(c, LoopUnit):
            ur.source["loop"] = c.anchor

    def _prove_shape(self, c, shape, ur):
        is_lemma = isinstance(c, Lemma)
        contracts = self.callee_table(c)
        shape_tag = ",".join(f"{k}={(v.v.__name__ if isinstance(v.v, type) else repr(v.v))}" for k, v in shape.items() if isinstance(v, Const) and (isinstance(v.v, type) or not callable(v.v)))[:80]

        def run_path(ctx):
            it = E.Interp(ctx, contracts=contracts, loop_specs=c.loops)
            try:
                vals = {n: t.make(n, ctx) for n, t in shape.items()}
                ctx.arg_values = vals
                from . import lib as _lib

                ctx.old_values = _lib.h_deepcopy(it, vals) if getattr(c, "wants_old", False) else None
                for rq in c.all_requires():
                    try:
                        pre = _spec_call(ctx, rq, vals, contracts)
                    except E.PyRaise:
                        raise E.PathEnd()  # the precondition text is undefined here: not a state in the domain
                    ctx.assume(it.truthy(pre) if not isinstance(pre, bool) else pre)
                # obligations raised while evaluating the precondition text (callee preconditions inside
                # `requires`) are about the contract, not the code: they are re-checked natively by replay
                ctx.obligations = [o for o in ctx.obligations if not o[0].startswith("call:")] if getattr(c, "drop_requires_obligations", True) else ctx.obligations
                # proof hints ("split hard obligations into lemmas"): each hint is an OBLIGATION under the
                # precondition (proved on its own, typically a real-arithmetic identity that nlsat decides)
                # and only then added to the path as a known fact for the integer reasoning that follows
                for hn, hf in getattr(c, "hints", {}).items():
                    hg = _spec_call(ctx, hf, vals, contracts)
                    hg = it.truthy(hg) if not isinstance(hg, bool) else hg
                    ctx.oblige(f"hint:{hn}", hg, {"kind": "hint"})
                    ctx.assume(hg)
                ctx.n_pre = len(ctx.pc)
                if isinstance(c, LoopUnit):
                    return _run_loop_body(it, c, vals)
                fn = c.body if is_lemma else c.func
                params = list(inspect.signature(fn).parameters)
                kw = {p: vals[p] for p in params if p in vals}
                if not isinstance(fn, type) and not is_lemma:
                    sg = inspect.signature(fn)
                    missing = [p for p, q in sg.parameters.items() if q.default is inspect.Parameter.empty
                               and q.kind in (q.POSITIONAL_ONLY, q.POSITIONAL_OR_KEYWORD, q.KEYWORD_ONLY) and p not in vals]
                    if missing:
                        raise E.Undecided(f"the function now requires the parameter(s) {missing}, which the contract does not name (signature changed)")
                res = it.call(fn, [], kw) if isinstance(fn, type) else it.run_function(fn, [], kw)
                return ("return", res, vals)
            except E.PyRaise as pr:
                return ("raise", pr, getattr(ctx, "arg_values", {}))
            except E.PathEnd:
                return ("cut", None, None)
            except E.Undecided as u:
                return ("undecided", str(u), None)
            except RecursionError:
                return ("undecided", "recursion limit", None)

        counter = [0]

        def on_result(ctx, outcome):
            pi = counter[0]
            counter[0] += 1
            self._process_path(c, ur, shape, shape_tag, contracts, pi, ctx, outcome)
            if any(o.status == "violated" for o in ur.obls):
                # a replayed counter-example settles the unit; do not enumerate the remaining paths
                ctx.alternatives.clear()
                raise _Stop()

        try:
            E.explore(run_path, on_result=on_result, max_paths=c.max_paths, max_seconds=(getattr(c, "explore_s", None) or 60) if self.tier == "quick" else (getattr(c.spec, "explore_s_thorough", None) or 900))
        except _Stop:
            pass
        except E.Undecided as u:
            ur.undecided_reasons.append(f"{shape_tag}: {u}")
            o = Obl(f"{c.id}/exploration[{shape_tag}]", "exploration")
            o.status = "undecided"
            o.detail = str(u)
            ur.obls.append(o)

    def _process_path(self, c, ur, shape, shape_tag, contracts, pi, ctx, outcome):
        kind, val, vals = outcome
        if True:
            ur.paths += 1
            ur.trusted_calls |= ctx.trusted_calls
            tag = f"[{shape_tag}]" if shape_tag else ""
            pid = f"p{pi}"
            if kind == "cut":
                return
            if kind == "undecided":
                ur.undecided_reasons.append(f"{tag}{pid}: {val}")
                o = Obl(f"{c.id}/subset{tag}/{pid}", "subset")
                o.status = "undecided"
                o.detail = val
                ur.obls.append(o)
                return
            if not ur.reachable:
                # cover: the precondition is satisfiable and this path is reachable
                s = z3.Solver()
                s.set("timeout", 1500)
                s.add(*ctx.pc)
                if s.check() == z3.sat:
                    ur.reachable = True
            # obligations recorded while executing (callee preconditions, format ranges)
            for name, goal, pc, info in ctx.obligations:
                self._discharge(c, ur, f"{c.id}/{name}{tag}/{pid}", info.get("kind", "inline"), pc, goal, shape, ctx)
            if kind == "raise":
                pr = val
                allowed = None
                for exc_cls, cond_fn in c.raises.items():
                    if issubclass(pr.exc_cls, exc_cls):
                        allowed = cond_fn
                        break
                if allowed is None:
                    goal = False
                else:
                    try:
                        g = _spec_call(ctx, allowed, vals, contracts)
                        goal = E.Interp(ctx).truthy(g) if not isinstance(g, bool) else g
                    except (E.Undecided, E.PyRaise) as u:
                        o = Obl(f"{c.id}/raises_{pr.exc_cls.__name__}{tag}/{pid}", "exceptional")
                        o.status = "undecided"
                        o.detail = f"spec evaluation: {u}"
                        ur.obls.append(o)
                        return
                self._discharge(c, ur, f"{c.id}/no_unexpected_{pr.exc_cls.__name__}{tag}/{pid}", "exceptional", ctx.pc, goal, shape, ctx, exc=pr)
                return
            # normal return: every ensures clause
            vals2 = dict(vals, result=val)
            if getattr(ctx, "old_values", None) is not None:
                vals2["old"] = NS(**ctx.old_values)
            for en, efn in c.ensures.items():
                oid = f"{c.id}/{en}{tag}/{pid}"
                try:
                    sub = E.PathCtx([])
                    # spec evaluation shares the path condition but must not fork silently: use the same ctx
                    g = _spec_call(ctx, efn, vals2, contracts)
                    goal = E.Interp(ctx).truthy(g) if not isinstance(g, bool) else g
                except E.Undecided as u:
                    o = Obl(oid, "post")
                    o.status = "undecided"
                    o.detail = f"spec evaluation: {u}"
                    ur.undecided_reasons.append(f"{oid}: {u}")
                    ur.obls.append(o)
                    continue
                except E.PyRaise as pr:
                    # the postcondition text itself raised on this path (e.g. the result lacks a field): the
                    # clause is undefined symbolically; the native side decides it on concrete inputs
                    o = Obl(oid, "post")
                    o.status = "undecided"
                    o.detail = f"postcondition raised {pr.exc_cls.__name__}{pr.exc_args!r} during symbolic evaluation"
                    ur.undecided_reasons.append(f"{oid}: {o.detail}")
                    ur.obls.append(o)
                    continue
                except E.PathEnd:
                    continue
                self._discharge(c, ur, oid, "post", ctx.pc, goal, shape, ctx)

    def _discharge(self, c, ur, oid, kind, pc, goal, shape, ctx, exc=None):
        o = Obl(oid, kind)
        ur.obls.append(o)
        if isinstance(goal, bool) and goal:
            o.status = "discharged"
            o.backend = "trivial"
            return
        goal_t = goal if not isinstance(goal, bool) else z3.BoolVal(goal)
        o.abstracted = any(_expr_uses_uf(x) for x in list(pc) + [goal_t])
        status, model, backend, secs, size = solve(pc, goal_t, self.timeout)
        o.backend, o.time_s, o.smt_size = backend, secs, size
        if status == "unsat":
            o.status = "discharged"
            return
        if status == "unknown":
            o.status = "undecided"
            o.detail = "solver returned unknown / timeout"
            ur.undecided_reasons.append(f"{oid}: solver unknown")
            return
        # sat: counter-model -> replay on the real code
        self._refute(c, ur, o, pc, goal_t, shape, model, exc)

    def _refute(self, c, ur, o, pc, goal_t, shape, model, exc):
        tried = []
        s = z3.Solver()
        s.set("timeout", 5000)
        s.add(*pc)
        s.add(z3.Not(goal_t))
        for attempt in range(12):
            try:
                args = {n: t.concretize(n, model) for n, t in shape.items()}
            except Exception as ex:
                o.detail = f"model could not be concretised: {ex}"
                break
            verdict = self.native_check(c, args)
            tried.append((args, verdict))
            if verdict["status"] == "fail":
                o.status = "violated"
                o.model = args
                o.detail = verdict["detail"]
                o.replay = self.write_replay(c, o, args, verdict, model)
                return
            # ask for a different model
            block = []
            for d in model.decls():
                if d.arity() == 0:
                    v = model[d]
                    try:
                        block.append(d() != v)
                    except Exception:
                        pass
            if not block:
                break
            s.add(z3.Or(*block))
            if s.check() != z3.sat:
                break
            model = s.model()
        if o.abstracted:
            o.status = "undecided"
            o.detail = "counter-model exists only in the abstraction (uninterpreted string/format functions); no replayed failure"
            ur.undecided_reasons.append(f"{o.id}: abstract counter-model did not replay")
            return
        o.status = "violated-unreplayed"
        o.detail = "solver counter-model did not reproduce natively in %d attempts (real vs. float arithmetic?)" % len(tried)
        o.model = tried[0][0] if tried else None
        o.replay = self.write_replay(c, o, o.model, {"status": "unreplayed", "detail": o.detail}, model)

    # ---- native side: run-time contract checking on concrete inputs
    def call_native(self, c, args):
        if isinstance(c, Lemma):
            return _native_spec(c.body, args)
        if isinstance(c, LoopUnit):
            return loop_native(c, args)
        if c.native_call is not None:
            return _native_spec(c.native_call, args)
        f = c.func
        params = list(inspect.signature(f).parameters)
        return f(**{p: args[p] for p in params if p in args})

    def native_check(self, c, args):
        """Check the contract on concrete arguments against the REAL function.  status: ok|fail|skip."""
        try:
            for rq in c.all_requires():
                if not _native_spec(rq, args):
                    return dict(status="skip", detail="requires does not hold")
        except Exception as ex:
            return dict(status="skip", detail=f"requires raised {type(ex).__name__}: {ex}")
        import copy

        try:
            call_args = copy.deepcopy(args)
        except Exception:
            call_args = args
        try:
            res = self.call_native(c, call_args)
        except NameError as ex:
            if isinstance(c, LoopUnit):
                return dict(status="skip", detail=f"the loop body reads a name the unit's state does not provide: {ex}")
            raise
        except TypeError as ex:
            if not isinstance(c, (Lemma, LoopUnit)) and ("unexpected keyword argument" in str(ex) or "required positional argument" in str(ex)):
                return dict(status="skip", detail=f"the function's signature no longer matches the contract: {ex}")
            return self._native_exc(c, args, ex)
        except Exception as ex:
            return self._native_exc(c, args, ex)
        if isinstance(c, LoopUnit):
            # loop-body units: the named state is the PRE-iteration state (as on the symbolic side), result.<v> the post
            vals = dict(args, result=res, old=NS(**args))
        else:
            vals = dict(call_args if isinstance(call_args, dict) else args, result=res, old=NS(**args))
        for en, efn in c.ensures.items():
            try:
                ok = _native_spec(efn, vals)
            except Exception as ex:
                return dict(status="fail", clause=en, detail=f"postcondition {en} raised {type(ex).__name__}: {ex}; result={res!r}"[:600])
            if not ok:
                return dict(status="fail", clause=en, detail=f"postcondition {en} is False; result={res!r}"[:600])
        return dict(status="ok", detail="")

    def _native_exc(self, c, args, ex):
        for exc_cls, cond in c.raises.items():
            if isinstance(ex, exc_cls):
                try:
                    if _native_spec(cond, args):
                        return dict(status="ok", detail="allowed exception")
                except Exception:
                    pass
                return dict(status="fail", clause=f"raises_{exc_cls.__name__}", detail=f"{type(ex).__name__}: {ex} raised where the contract does not allow it")
        return dict(status="fail", clause="no_exception", detail=f"{type(ex).__name__}: {ex}")

    def _native_side(self, c, ur):
        if c.witnesses is None:
            return
        import random

        rng = random.Random(self.seed)
        params = list(inspect.signature(c.witnesses).parameters)
        kw = {}
        if "rng" in params:
            kw["rng"] = rng
        if "tier" in params:
            kw["tier"] = self.tier
        seen = set()
        n = 0
        budget_s = 20 if self.tier == "quick" else 240
        t0 = time.time()
        complete = True
        for w in c.witnesses(**kw):
            if time.time() - t0 > budget_s:
                complete = False
                break
            args = w if isinstance(w, dict) else dict(zip(list(c.args), w))
            n += 1
            try:
                key = repr(args)
            except Exception:
                key = str(n)
            if key not in seen:
                seen.add(key)
            v = self.native_check(c, args)
            if v["status"] != "skip":
                ur.reachable = True  # a concrete input satisfies the precondition and was executed
            if v["status"] == "fail":
                o = Obl(f"{c.id}/native:{v.get('clause', '?')}", "native")
                o.status = "violated"
                o.model = args
                o.detail = v["detail"]
                o.backend = "native"
                # one obligation entry per clause is enough
                if not any(x.id == o.id for x in ur.obls):
                    o.replay = self.write_replay(c, o, args, v, None)
                    ur.obls.append(o)
                ur.native["failures"].append(dict(args=encode(args), detail=v["detail"][:300]))
            # concolic cross-check of the engine against CPython on a sample of the witnesses
            if not isinstance(c, (Lemma, LoopUnit)) and (n <= 40 or n % 97 == 0) and not c.bounded_only:
                self._crosscheck(c, args, ur)
        ur.native["evaluations"] = n
        ur.native["distinct"] = len(seen)
        ur.native["exhaustive"] = bool(c.exhaustive and complete)

    def _crosscheck(self, c, args, ur):
        """Run the engine on concrete inputs and compare with CPython (guards the encoding of Python)."""
        import copy

        try:
            for rq in c.all_requires():
                if not _native_spec(rq, args):
                    return
        except Exception:
            return
        try:
            expect = ("return", self.call_native(c, copy.deepcopy(args)))
        except Exception as ex:
            expect = ("raise", type(ex))
        from .frames import lift, agrees

        ctx = E.PathCtx([])
        it = E.Interp(ctx, loop_specs={})
        try:
            f = c.func
            params = list(inspect.signature(f).parameters)
            kw = {p: lift(copy.deepcopy(args[p])) for p in params if p in args}
            got = ("return", it.call(f, [], kw) if isinstance(f, type) else it.run_function(f, [], kw))
        except E.PyRaise as pr:
            got = ("raise", pr.exc_cls)
        except (E.Undecided, E.PathEnd):
            return
        except Exception as ex:
            ur.native["crosscheck_mismatch"].append(f"engine crashed on {args!r}: {type(ex).__name__}: {ex}"[:300])
            return
        if ctx.taken:
            return  # the run was not fully concrete (e.g. an unstable-sort tie): not comparable
        ur.native["crosscheck"] += 1
        same = False
        if expect[0] == got[0]:
            if expect[0] == "raise":
                same = issubclass(got[1], expect[1]) or issubclass(expect[1], got[1])
            else:
                same = agrees(expect[1], got[1]) or _values_agree(expect[1], got[1])
        if not same:
            ur.native["crosscheck_mismatch"].append(f"args={args!r} cpython={expect!r} engine={got!r}"[:700])

    # ---- replay files
    def write_replay(self, c, o, args, verdict, model):
        d = os.path.join(self.replay_dir, c.pid)
        os.makedirs(d, exist_ok=True)
        safe = "".join(ch if ch.isalnum() or ch in "._-" else "_" for ch in o.id)[:150]
        path = os.path.join(d, safe + ".json")
        body = dict(
            property=c.pid,
            obligation=o.id,
            contract=c.id,
            target=getattr(c, "target", None),
            args=encode(args) if args is not None else None,
            verdict=verdict,
            solver=dict(backend=o.backend, model=str(model)[:4000] if model is not None else None),
            how_to_replay=f"./check {c.pid} --replay {path}",
        )
        with open(path, "w") as f:
            json.dump(body, f, indent=1, default=repr)
        return path


def _values_agree(a, b):
    if isinstance(b, SStr):
        b = b.literal() if b.is_literal() else b
    if isinstance(a, float) or isinstance(b, float):
        try:
            if isinstance(a, float) and math.isnan(a):
                return isinstance(b, float) and math.isnan(b)
            return abs(float(a) - float(b)) <= 1e-9 * max(1.0, abs(float(a)))
        except Exception:
            return False
    if isinstance(a, (list, tuple)) and isinstance(b, (list, tuple)):
        return len(a) == len(b) and all(_values_agree(x, y) for x, y in zip(a, b))
    if isinstance(a, dict) and isinstance(b, dict):
        return set(a) == set(b) and all(_values_agree(a[k], b[k]) for k in a)
    if isinstance(b, E.SObj):
        # compare field-wise against the native object's attributes
        try:
            flds = b.fields.get("data", b.fields) if "data" in b.fields and isinstance(b.fields["data"], dict) else b.fields
            return all(_values_agree(getattr(a, k), v) for k, v in flds.items() if not k.startswith("_"))
        except Exception:
            return False
    try:
        r = a == b
        return bool(r)
    except Exception:
        return False
