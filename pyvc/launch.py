"""Entry point of ./check.  Depends on nothing but the standard library, so that a failure to even load the checker
(a syntax error in a contract file, a missing module) is reported as what it is - a checker error, exit 3 - and never
leaves the process with the exit code of a violation."""
import sys
import traceback


def _main():
    try:
        from pyvc import cli
    except BaseException as ex:  # noqa
        if isinstance(ex, (SystemExit, KeyboardInterrupt)):
            raise
        traceback.print_exc()
        print(f"CHECKER-ERROR: the checker could not be loaded: {type(ex).__name__}: {ex}")
        return 3
    try:
        return cli.main()
    except SystemExit:
        raise
    except KeyboardInterrupt:
        raise
    except BaseException as ex:  # noqa
        traceback.print_exc()
        print(f"CHECKER-ERROR: the checker crashed: {type(ex).__name__}: {ex}")
        return 3


if __name__ == "__main__":
    sys.exit(_main())
