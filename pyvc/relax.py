"""Integer relaxation of a set of assertions: every Int constant is read as a Real, to_real disappears,
to_int(x) becomes a fresh real k with k <= x < k + 1.  Only integrality is dropped, so every model of the
original assertions yields a model of the relaxation: `unsat` of the relaxation proves `unsat` of the original.
A `sat` answer of the relaxation proves nothing and must be discarded by the caller.

The relaxed problem is pure nonlinear real arithmetic, which z3's nlsat decides where the mixed Int/Real
original is out of reach of both installed z3 versions and cvc5.
"""
from __future__ import annotations

import z3


class Unsupported(Exception):
    pass


_K = z3


def relax(assertions):
    cache = {}
    side = []
    counter = [0]

    def rx(e):
        key = e.get_id()
        if key in cache:
            return cache[key]
        r = _rx(e)
        cache[key] = r
        return r

    def _rx(e):
        if z3.is_quantifier(e) or z3.is_var(e):
            raise Unsupported("quantifier")
        if z3.is_int_value(e):
            return z3.RealVal(e.as_long())
        if z3.is_rational_value(e) or z3.is_algebraic_value(e) or z3.is_true(e) or z3.is_false(e):
            return e
        if not z3.is_app(e):
            raise Unsupported("non-app")
        d = e.decl()
        k = d.kind()
        n = e.num_args()
        if k == z3.Z3_OP_UNINTERPRETED:
            if n == 0:
                if z3.is_int(e):
                    return z3.Real(d.name() + "!relaxed")
                if z3.is_real(e) or z3.is_bool(e):
                    return e
                raise Unsupported("constant of sort " + str(e.sort()))
            raise Unsupported("uninterpreted function")
        if k == z3.Z3_OP_TO_REAL:
            return rx(e.arg(0))
        if k == z3.Z3_OP_TO_INT:
            x = rx(e.arg(0))
            counter[0] += 1
            kk = z3.Real(f"floor!relaxed!{counter[0]}")
            side.append(kk <= x)
            side.append(x < kk + 1)
            return kk
        if k in (z3.Z3_OP_IDIV, z3.Z3_OP_MOD, z3.Z3_OP_REM, z3.Z3_OP_IS_INT, z3.Z3_OP_POWER):
            raise Unsupported("integer operator")
        ch = [rx(e.arg(i)) for i in range(n)]
        if k == z3.Z3_OP_ADD:
            out = ch[0]
            for c in ch[1:]:
                out = out + c
            return out
        if k == z3.Z3_OP_SUB:
            out = ch[0]
            for c in ch[1:]:
                out = out - c
            return out
        if k == z3.Z3_OP_MUL:
            out = ch[0]
            for c in ch[1:]:
                out = out * c
            return out
        if k == z3.Z3_OP_UMINUS:
            return -ch[0]
        if k == z3.Z3_OP_DIV:
            return ch[0] / ch[1]
        if k == z3.Z3_OP_LE:
            return ch[0] <= ch[1]
        if k == z3.Z3_OP_LT:
            return ch[0] < ch[1]
        if k == z3.Z3_OP_GE:
            return ch[0] >= ch[1]
        if k == z3.Z3_OP_GT:
            return ch[0] > ch[1]
        if k == z3.Z3_OP_EQ:
            return ch[0] == ch[1]
        if k == z3.Z3_OP_DISTINCT:
            return z3.Distinct(*ch)
        if k == z3.Z3_OP_ITE:
            return z3.If(ch[0], ch[1], ch[2])
        if k == z3.Z3_OP_AND:
            return z3.And(*ch)
        if k == z3.Z3_OP_OR:
            return z3.Or(*ch)
        if k == z3.Z3_OP_NOT:
            return z3.Not(ch[0])
        if k == z3.Z3_OP_IMPLIES:
            return z3.Implies(ch[0], ch[1])
        if k == z3.Z3_OP_XOR:
            return z3.Xor(ch[0], ch[1])
        raise Unsupported(f"operator {d.name()}")

    out = [rx(a) for a in assertions]
    return out + side


_TACTIC = None


def relaxed_unsat(assertions, timeout_ms=5000):
    """True iff the integer relaxation is refuted by nlsat within the budget (=> the original is unsat)."""
    global _TACTIC
    try:
        fs = relax(list(assertions))
    except Unsupported:
        return False
    except Exception:
        return False
    try:
        s = z3.Tactic("qfnra-nlsat").solver()
        s.set("timeout", int(timeout_ms))
        s.add(fs)
        return s.check() == z3.unsat
    except Exception:
        try:
            s = z3.Solver()
            s.set("timeout", int(timeout_ms))
            s.add(fs)
            return s.check() == z3.unsat
        except Exception:
            return False


class Relaxer:
    """Incremental relaxed feasibility oracle for one path: mirrors the path condition in an nlsat solver."""

    def __init__(self, timeout_ms=1500):
        self.timeout_ms = timeout_ms
        self.ok = True
        self.n = 0
        self.fs = []

    def sync(self, pc):
        if not self.ok:
            return
        try:
            while self.n < len(pc):
                self.fs.extend(relax([pc[self.n]]))
                self.n += 1
        except Unsupported:
            self.ok = False
        except Exception:
            self.ok = False

    def status(self, pc, cond):
        """'unsat' (=> the original is unsat), 'sat' (relaxation has a model: probably feasible), or None."""
        self.sync(pc)
        if not self.ok:
            return None
        try:
            extra = relax([cond])
        except Exception:
            return None
        try:
            s = z3.Tactic("qfnra-nlsat").solver()
            s.set("timeout", int(self.timeout_ms))
            s.add(self.fs)
            s.add(extra)
            r = s.check()
        except Exception:
            return None
        if r == z3.unsat:
            return "unsat"
        if r == z3.sat:
            return "sat"
        return None


def linear_abstraction(assertions):
    """Replace every maximal nonlinear subterm (product of >= 2 non-constant factors, division by a non-constant)
    by a fresh constant of the same sort - the same term always by the same constant.  This forgets what the
    nonlinear operators mean, so every model of the original is a model of the abstraction: `unsat` carries
    over.  What remains is linear mixed integer/real arithmetic, where z3 is complete; the facts that link the
    abstracted terms come from proof hints."""
    cache = {}
    names = {}

    def is_const_num(c):
        return z3.is_int_value(c) or z3.is_rational_value(c)

    def ab(e):
        key = e.get_id()
        if key in cache:
            return cache[key]
        r = _ab(e)
        cache[key] = r
        return r

    def _ab(e):
        if z3.is_quantifier(e) or z3.is_var(e):
            raise Unsupported("quantifier")
        if not z3.is_app(e) or e.num_args() == 0:
            return e
        k = e.decl().kind()
        if k == z3.Z3_OP_MUL:
            nonconst = [c for c in e.children() if not is_const_num(c)]
            if len(nonconst) >= 2:
                return _fresh(e)
        if k == z3.Z3_OP_DIV and not is_const_num(e.arg(1)):
            return _fresh(e)
        if k in (z3.Z3_OP_IDIV, z3.Z3_OP_MOD) and not is_const_num(e.arg(1)):
            return _fresh(e)
        if k == z3.Z3_OP_POWER:
            return _fresh(e)
        ch = [ab(c) for c in e.children()]
        if all(a.eq(b) for a, b in zip(ch, e.children())):
            return e
        return e.decl()(*ch)

    def _fresh(e):
        sid = e.get_id()
        if sid not in names:
            names[sid] = z3.Const(f"nl!{len(names)}", e.sort())
        return names[sid]

    return [ab(a) for a in assertions]


def linear_unsat(assertions, timeout_ms=5000):
    try:
        fs = linear_abstraction([z3.simplify(a) for a in assertions])
        s = z3.Solver()
        s.set("timeout", int(timeout_ms))
        s.add(fs)
        return s.check() == z3.unsat
    except Exception:
        return False
