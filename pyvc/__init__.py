"""pyvc - contract-based deductive verifier for the Python subset used by reamberPy's kernels.

engine.py   forward symbolic executor over the real source's AST (replay-based DFS over decisions)
strings.py  structured symbolic strings (segments) used for the text formats
dsl.py      sidecar contract vocabulary (types, @contract, @lemma, @bounded)
prove.py    obligation generation + discharge (z3, cvc5 second opinion) + counter-example replay
report.py   evidence / known findings / exit codes
"""
