"""Structured symbolic strings.

A string is a tuple of segments:
  Lit(text)                     literal
  IntFmt(term)                  canonical decimal rendering of an Int term   (alphabet -0123456789)
  RealFmt(term, style)          rendering of a Real term; style 'repr' (float repr) or 'g'
                                (alphabet -+.0123456789einfa); A3: float(render(x)) == x
  Sym(name, forbid, trimmed)    free text over the complement of `forbid`; `trimmed` = no leading /
                                trailing whitespace.  Backed by a z3 String constant.
  Strip(sym)                    sym.strip() for a non-trimmed Sym (uninterpreted in z3)

Operations are *structural* and exact under the stated alphabets; whenever exactness cannot be
guaranteed they raise Undecided.  Equalities that are not syntactic are posed to z3 over the terms.
"""
from __future__ import annotations

import ast
from fractions import Fraction

import z3

from .engine import Undecided, PyRaise, is_sym, to_z3, as_real

WS = " \t\n\r\x0b\x0c"
INT_ALPHA = set("-0123456789")
REAL_ALPHA = set("-+.0123456789einfa")

_strip_uf = z3.Function("py_strip", z3.StringSort(), z3.StringSort())
_fmt_int_uf = z3.Function("py_fmt_int", z3.IntSort(), z3.StringSort())
_fmt_real_uf = z3.Function("py_fmt_real", z3.RealSort(), z3.StringSort())
_fmt_g_uf = z3.Function("py_fmt_g", z3.RealSort(), z3.StringSort())


class Lit:
    __slots__ = ("s",)

    def __init__(self, s):
        self.s = s

    def __repr__(self):
        return f"Lit({self.s!r})"


class IntFmt:
    __slots__ = ("t",)

    def __init__(self, t):
        self.t = t

    def __repr__(self):
        return f"IntFmt({self.t})"


class RealFmt:
    __slots__ = ("t", "style")

    def __init__(self, t, style="repr"):
        self.t = t
        self.style = style

    def __repr__(self):
        return f"RealFmt({self.t},{self.style})"


class Sym:
    __slots__ = ("name", "forbid", "trimmed", "var", "nonempty")

    def __init__(self, name, forbid="", trimmed=False, nonempty=False):
        self.name = name
        self.forbid = frozenset(forbid)
        self.trimmed = trimmed
        self.nonempty = nonempty
        self.var = z3.String(name)

    def constraints(self):
        cs = [z3.Not(z3.Contains(self.var, z3.StringVal(c))) for c in sorted(self.forbid)]
        if self.trimmed:
            for c in WS:
                cs.append(z3.Not(z3.PrefixOf(z3.StringVal(c), self.var)))
                cs.append(z3.Not(z3.SuffixOf(z3.StringVal(c), self.var)))
        if self.nonempty:
            cs.append(z3.Length(self.var) > 0)
        return cs

    def __repr__(self):
        return f"Sym({self.name})"


class Strip:
    __slots__ = ("sym",)

    def __init__(self, sym):
        self.sym = sym

    def __repr__(self):
        return f"Strip({self.sym.name})"


class StrPos:
    """Result of find()/rfind() that landed inside a literal segment: a structural position."""

    __slots__ = ("owner", "seg", "off")

    def __init__(self, owner, seg, off):
        self.owner = owner
        self.seg = seg
        self.off = off

    def _pyvc_binop(self, it, op, other, swapped):
        if isinstance(other, int) and isinstance(op, ast.Add):
            return StrPos(self.owner, self.seg, self.off + other)
        if isinstance(other, int) and isinstance(op, ast.Sub) and not swapped:
            return StrPos(self.owner, self.seg, self.off - other)
        raise Undecided("arithmetic on a string position")


def _alphabet_excludes(seg, ch):
    """True when `ch` certainly does not occur in the rendering of seg."""
    if isinstance(seg, Lit):
        return ch not in seg.s
    if isinstance(seg, IntFmt):
        return ch not in INT_ALPHA
    if isinstance(seg, RealFmt):
        return ch not in REAL_ALPHA
    if isinstance(seg, Sym):
        return ch in seg.forbid
    if isinstance(seg, Strip):
        return ch in seg.sym.forbid
    return False


class SStr:
    __slots__ = ("segs",)
    _pyvc_symbolic = True

    def __init__(self, segs):
        out = []
        for s in segs:
            if isinstance(s, Lit):
                if s.s == "":
                    continue
                if out and isinstance(out[-1], Lit):
                    out[-1] = Lit(out[-1].s + s.s)
                    continue
            out.append(s)
        self.segs = tuple(out)

    # ---- construction
    @staticmethod
    def lit(s):
        return SStr([Lit(s)])

    @staticmethod
    def of(v):
        if isinstance(v, SStr):
            return v
        if isinstance(v, str):
            return SStr.lit(v)
        raise Undecided(f"not a string: {type(v).__name__}")

    @staticmethod
    def concat(parts):
        segs = []
        for p in parts:
            segs.extend(SStr.of(p).segs)
        return SStr(segs)

    def __repr__(self):
        return "SStr" + repr(list(self.segs))

    # ---- basic queries
    def is_literal(self):
        return all(isinstance(s, Lit) for s in self.segs)

    def literal(self):
        return "".join(s.s for s in self.segs)

    def simplify(self):
        return self.literal() if self.is_literal() else self

    def term(self):
        ts = []
        for s in self.segs:
            if isinstance(s, Lit):
                ts.append(z3.StringVal(s.s))
            elif isinstance(s, IntFmt):
                ts.append(_fmt_int_uf(to_z3(s.t)))
            elif isinstance(s, RealFmt):
                ts.append((_fmt_real_uf if s.style == "repr" else _fmt_g_uf)(as_real(s.t)))
            elif isinstance(s, Sym):
                ts.append(s.var)
            elif isinstance(s, Strip):
                ts.append(_strip_uf(s.sym.var))
        if not ts:
            return z3.StringVal("")
        return z3.Concat(*ts) if len(ts) > 1 else ts[0]

    def nonempty_cond(self):
        conds = []
        for s in self.segs:
            if isinstance(s, Lit) or isinstance(s, (IntFmt, RealFmt)):
                return True
            if isinstance(s, Sym):
                if s.nonempty:
                    return True
                conds.append(z3.Length(s.var) > 0)
            elif isinstance(s, Strip):
                conds.append(z3.Length(_strip_uf(s.sym.var)) > 0)
        if not conds:
            return False
        return z3.Or(*conds) if len(conds) > 1 else conds[0]

    # ---- equality
    def eq(self, it, other):
        a, b = self.segs, other.segs
        if self.is_literal() and other.is_literal():
            return self.literal() == other.literal()
        if len(a) == len(b):
            conds = []
            ok = True
            for x, y in zip(a, b):
                if isinstance(x, Lit) and isinstance(y, Lit):
                    if x.s != y.s:
                        ok = False
                        break
                elif isinstance(x, Sym) and isinstance(y, Sym) and x is y:
                    pass
                elif isinstance(x, Strip) and isinstance(y, Strip) and x.sym is y.sym:
                    pass
                elif isinstance(x, IntFmt) and isinstance(y, IntFmt) and z3.eq(to_z3(x.t), to_z3(y.t)):
                    pass
                elif isinstance(x, RealFmt) and isinstance(y, RealFmt) and x.style == y.style and z3.eq(as_real(x.t), as_real(y.t)):
                    pass
                else:
                    ok = False
                    break
            if ok and not conds:
                return True
        if a and b and isinstance(a[0], Lit) and isinstance(b[0], Lit):
            n = min(len(a[0].s), len(b[0].s))
            if a[0].s[:n] != b[0].s[:n]:
                return False
        if a and b and isinstance(a[-1], Lit) and isinstance(b[-1], Lit):
            n = min(len(a[-1].s), len(b[-1].s))
            if a[-1].s[len(a[-1].s) - n :] != b[-1].s[len(b[-1].s) - n :]:
                return False
        # delimiter alignment: exact when both sides have the same literal skeleton whose characters are
        # outside every variable segment's alphabet
        al = self._aligned_eq(other)
        if al is not None:
            return al
        return self.term() == other.term()

    def _aligned_eq(self, other):
        a, b = self.segs, other.segs
        if len(a) != len(b):
            return None
        conds = []
        delims = set()
        for x, y in zip(a, b):
            if isinstance(x, Lit) != isinstance(y, Lit):
                return None
            if isinstance(x, Lit):
                if x.s != y.s:
                    # same skeleton required; different literals may still be unequal strings in
                    # non-obvious ways -> let z3 decide
                    return None
                delims |= set(x.s)
        for i, (x, y) in enumerate(zip(a, b)):
            if isinstance(x, Lit):
                continue
            # each variable field must be bounded by literals (or the ends) on both sides
            for side in (a, b):
                for j in (i - 1, i + 1):
                    if 0 <= j < len(side) and not isinstance(side[j], Lit):
                        return None
            for nb in (i - 1, i + 1):
                if 0 <= nb < len(a):
                    edge = a[nb].s[-1] if nb < i else a[nb].s[0]
                    if not (_alphabet_excludes(x, edge) and _alphabet_excludes(y, edge)):
                        return None
            if isinstance(x, IntFmt) and isinstance(y, IntFmt):
                conds.append(to_z3(x.t) == to_z3(y.t))
            elif isinstance(x, RealFmt) and isinstance(y, RealFmt) and x.style == y.style == "repr":
                conds.append(as_real(x.t) == as_real(y.t))
            elif isinstance(x, Sym) and isinstance(y, Sym):
                if x is not y:
                    conds.append(x.var == y.var)
            elif isinstance(x, Strip) and isinstance(y, Strip):
                if x.sym is not y.sym:
                    conds.append(_strip_uf(x.sym.var) == _strip_uf(y.sym.var))
            else:
                return None
        if not conds:
            return True
        return z3.And(*conds) if len(conds) > 1 else conds[0]

    # ---- containment
    def contains(self, it, item):
        if not item.is_literal():
            raise Undecided("symbolic needle in string containment")
        needle = item.literal()
        if self.is_literal():
            return needle in self.literal()
        if needle == "":
            return True
        if len(needle) == 1:
            conds = []
            for s in self.segs:
                if isinstance(s, Lit):
                    if needle in s.s:
                        return True
                elif _alphabet_excludes(s, needle):
                    continue
                elif isinstance(s, Sym):
                    conds.append(z3.Contains(s.var, z3.StringVal(needle)))
                else:
                    raise Undecided("containment inside a formatted number")
            if not conds:
                return False
            return z3.Or(*conds) if len(conds) > 1 else conds[0]
        return z3.Contains(self.term(), z3.StringVal(needle))

    # ---- split
    def split(self, it, sep=None, maxsplit=-1):
        if sep is None:
            raise Undecided("whitespace split of a symbolic string")
        if isinstance(sep, SStr):
            if not sep.is_literal():
                raise Undecided("symbolic separator")
            sep = sep.literal()
        if is_sym(maxsplit):
            raise Undecided("symbolic maxsplit")
        if sep == "":
            raise PyRaise(ValueError, ("empty separator",))
        if len(sep) != 1:
            if any(not _alphabet_excludes(s, c) for s in self.segs if not isinstance(s, Lit) for c in sep):
                raise Undecided("multi-character separator vs. free text")
        pieces = [[]]
        nsplit = 0
        segs = list(self.segs)
        i = 0
        while i < len(segs):
            s = segs[i]
            i += 1
            if maxsplit >= 0 and nsplit >= maxsplit:
                pieces[-1].append(s)
                continue
            if isinstance(s, Lit):
                rest = s.s
                while True:
                    if maxsplit >= 0 and nsplit >= maxsplit:
                        pieces[-1].append(Lit(rest))
                        break
                    k = rest.find(sep)
                    if k < 0:
                        pieces[-1].append(Lit(rest))
                        break
                    pieces[-1].append(Lit(rest[:k]))
                    pieces.append([])
                    nsplit += 1
                    rest = rest[k + len(sep) :]
                continue
            if all(_alphabet_excludes(s, c) for c in sep) or (len(sep) > 1 and any(_alphabet_excludes(s, c) for c in sep)):
                pieces[-1].append(s)
                continue
            if isinstance(s, Sym) and len(sep) == 1:
                # free text that may contain the separator: fork on containment
                if it.ctx.decide(z3.Contains(s.var, z3.StringVal(sep)), "split-contains"):
                    left = Sym(s.name + "~l", s.forbid | {sep}, False)
                    right = Sym(s.name + "~r", s.forbid, False)
                    it.ctx.assume(s.var == z3.Concat(left.var, z3.StringVal(sep), right.var))
                    for c in left.constraints():
                        it.ctx.assume(c)
                    it.ctx.notes.append(("split-sym", s.name, sep))
                    pieces[-1].append(left)
                    pieces.append([])
                    nsplit += 1
                    # the remainder is examined again (it may contain further separators)
                    if getattr(it.ctx, "split_depth", 0) >= 3:
                        raise Undecided("free text with more than three separators")
                    it.ctx.split_depth = getattr(it.ctx, "split_depth", 0) + 1
                    segs.insert(i, right)
                    continue
                else:
                    pieces[-1].append(Sym._refined(s, sep))
                    continue
            raise Undecided(f"split on {sep!r} inside {s!r}")
        return [SStr(p).simplify() for p in pieces]

    def count(self, it, sub):
        if isinstance(sub, SStr):
            if not sub.is_literal():
                raise Undecided("symbolic needle in count")
            sub = sub.literal()
        if len(sub) != 1:
            if self.is_literal():
                return self.literal().count(sub)
            raise Undecided("multi-character count on a symbolic string")
        n = 0
        for s in self.segs:
            if isinstance(s, Lit):
                n += s.s.count(sub)
            elif _alphabet_excludes(s, sub):
                continue
            elif isinstance(s, Sym):
                if it.ctx.decide(z3.Contains(s.var, z3.StringVal(sub)), "count-contains"):
                    raise Undecided("count of a character that free text may contain")
            else:
                raise Undecided("count inside a formatted number")
        return n

    # ---- strip
    def strip(self, it, chars=None):
        if chars is not None:
            if self.is_literal():
                c = chars.literal() if isinstance(chars, SStr) else chars
                return self.literal().strip(c)
            raise Undecided("strip(chars) on a symbolic string")
        segs = list(self.segs)
        # leading
        while segs and isinstance(segs[0], Lit):
            t = segs[0].s.lstrip(WS)
            if t:
                segs[0] = Lit(t)
                break
            segs.pop(0)
        while segs and isinstance(segs[-1], Lit):
            t = segs[-1].s.rstrip(WS)
            if t:
                segs[-1] = Lit(t)
                break
            segs.pop()
        if not segs:
            return ""

        def solid_edge(s):
            return isinstance(s, (Lit, IntFmt, RealFmt, Strip)) or (isinstance(s, Sym) and s.trimmed and s.nonempty)

        if len(segs) == 1 and isinstance(segs[0], Sym):
            s = segs[0]
            return SStr([s]) if s.trimmed else SStr([Strip(s)])
        if solid_edge(segs[0]) and solid_edge(segs[-1]):
            # note: a Strip segment at an edge may be empty, exposing inner whitespace literals; the
            # segments adjacent to it must therefore not be whitespace literals
            for k, s in enumerate(segs):
                if isinstance(s, Strip):
                    for nb in (k - 1, k + 1):
                        if 0 <= nb < len(segs) and isinstance(segs[nb], Lit):
                            edge = segs[nb].s[-1] if nb < k else segs[nb].s[0]
                            if edge in WS:
                                raise Undecided("strip next to possibly-empty text")
            return SStr(segs).simplify()
        raise Undecided("strip with free text at an edge")

    # ---- misc methods
    def startswith(self, it, prefix):
        p = SStr.of(prefix)
        if not p.is_literal():
            raise Undecided("symbolic prefix")
        p = p.literal()
        if self.segs and isinstance(self.segs[0], Lit) and len(self.segs[0].s) >= len(p):
            return self.segs[0].s.startswith(p)
        if self.is_literal():
            return self.literal().startswith(p)
        if self.segs and isinstance(self.segs[0], Lit):
            if not p.startswith(self.segs[0].s):
                return False
        first = self.segs[0] if self.segs else None
        if p and first is not None and not isinstance(first, Lit) and _alphabet_excludes(first, p[0]):
            # first char cannot come from this segment unless it is empty
            if isinstance(first, (IntFmt, RealFmt)):
                return False
        return z3.PrefixOf(z3.StringVal(p), self.term())

    def endswith(self, it, suffix):
        p = SStr.of(suffix)
        if not p.is_literal():
            raise Undecided("symbolic suffix")
        p = p.literal()
        if self.segs and isinstance(self.segs[-1], Lit) and len(self.segs[-1].s) >= len(p):
            return self.segs[-1].s.endswith(p)
        if self.is_literal():
            return self.literal().endswith(p)
        return z3.SuffixOf(z3.StringVal(p), self.term())

    def _find(self, it, sub, reverse):
        if isinstance(sub, SStr):
            if not sub.is_literal():
                raise Undecided("symbolic needle")
            sub = sub.literal()
        if self.is_literal():
            return self.literal().rfind(sub) if reverse else self.literal().find(sub)
        if len(sub) != 1:
            raise Undecided("multi-character find on a symbolic string")
        order = range(len(self.segs) - 1, -1, -1) if reverse else range(len(self.segs))
        for k in order:
            s = self.segs[k]
            if isinstance(s, Lit):
                off = s.s.rfind(sub) if reverse else s.s.find(sub)
                if off >= 0:
                    return StrPos(self, k, off)
            elif _alphabet_excludes(s, sub):
                continue
            elif isinstance(s, Sym):
                if it.ctx.decide(z3.Contains(s.var, z3.StringVal(sub)), "find-contains"):
                    raise Undecided("find inside free text")
            else:
                raise Undecided("find inside a formatted number")
        return -1

    def find(self, it, sub):
        return self._find(it, sub, False)

    def rfind(self, it, sub):
        return self._find(it, sub, True)

    def getitem(self, it, idx):
        if self.is_literal():
            s = self.literal()
            if isinstance(idx, slice):
                if all(not isinstance(x, StrPos) and not is_sym(x) for x in (idx.start, idx.stop, idx.step)):
                    return s[idx]
            elif isinstance(idx, int):
                if idx < -len(s) or idx >= len(s):
                    raise PyRaise(IndexError, ("string index out of range",))
                return s[idx]
        if isinstance(idx, slice) and idx.step is None:
            lo, hi = idx.start, idx.stop

            def cut(pos, default_start):
                if pos is None:
                    return (0, 0) if default_start else (len(self.segs), 0)
                if isinstance(pos, StrPos) and pos.owner is self:
                    return (pos.seg, pos.off)
                if isinstance(pos, int) and pos >= 0:
                    # allowed only while inside the leading literal
                    if self.segs and isinstance(self.segs[0], Lit) and pos <= len(self.segs[0].s):
                        return (0, pos)
                raise Undecided("slice bound on a symbolic string")

            (ls, lo_), (hs, ho_) = cut(lo, True), cut(hi, False)
            if (ls, lo_) > (hs, ho_):
                return ""
            out = []
            for k, s in enumerate(self.segs):
                if k < ls or k > hs:
                    continue
                if isinstance(s, Lit):
                    a = lo_ if k == ls else 0
                    b = ho_ if k == hs else len(s.s)
                    if a < 0 or b < 0 or a > len(s.s) or b > len(s.s):
                        raise Undecided("slice bound outside its literal")
                    out.append(Lit(s.s[a:b]))
                else:
                    if (k == ls and lo_ != 0) or (k == hs):
                        if k == hs and ho_ == 0:
                            continue
                        raise Undecided("slice cuts a symbolic segment")
                    out.append(s)
            return SStr(out).simplify()
        raise Undecided("index into a symbolic string")

    def join(self, it, items):
        items = it.iterate(items)
        parts = []
        for k, x in enumerate(items):
            if k:
                parts.append(self)
            if not isinstance(x, (str, SStr)):
                raise PyRaise(TypeError, ("sequence item: expected str",))
            parts.append(SStr.of(x))
        return SStr.concat(parts).simplify()

    def to_int(self, it, base=10):
        if self.is_literal():
            try:
                return int(self.literal(), base)
            except ValueError as ex:
                raise PyRaise(ValueError, ex.args)
        core = self._strip_ws_lits()
        if base == 10 and len(core) == 1 and isinstance(core[0], IntFmt):
            return core[0].t
        if len(core) == 1 and isinstance(core[0], RealFmt):
            raise Undecided("int() of a rendered real (ValueError unless it prints as an integer)")
        raise Undecided("int() of free text")

    def to_float(self, it):
        if self.is_literal():
            try:
                txt = self.literal()
                float(txt)
                t = txt.strip().lower()
                if any(c in t for c in ("inf", "nan")):
                    return float(txt)
                return float(txt)
            except ValueError as ex:
                raise PyRaise(ValueError, ex.args)
        core = self._strip_ws_lits()
        if len(core) == 1 and isinstance(core[0], IntFmt):
            return as_real(core[0].t)
        if len(core) == 1 and isinstance(core[0], RealFmt):
            if core[0].style == "g":
                from .lib import g_round

                return g_round(as_real(core[0].t))
            return as_real(core[0].t)
        raise Undecided("float() of free text")

    def _strip_ws_lits(self):
        segs = list(self.segs)
        while segs and isinstance(segs[0], Lit) and segs[0].s.strip(WS) == "":
            segs.pop(0)
        while segs and isinstance(segs[-1], Lit) and segs[-1].s.strip(WS) == "":
            segs.pop()
        return segs

    def length(self, it):
        if self.is_literal():
            return len(self.literal())
        raise Undecided("len() of a symbolic string")


def _refined(s: Sym, extra):
    r = Sym.__new__(Sym)
    r.name = s.name
    r.forbid = s.forbid | set(extra)
    r.trimmed = s.trimmed
    r.nonempty = s.nonempty
    r.var = s.var
    return r


Sym._refined = staticmethod(_refined)


def fmt_value(it, val, spec=None, conversion=-1):
    """Rendering of `val` inside an f-string / str()."""
    if isinstance(val, SStr):
        if spec:
            raise Undecided("format spec on a symbolic string")
        return val
    if isinstance(val, str):
        return SStr.lit(format(val, spec or ""))
    if is_sym(val):
        if z3.is_bool(val):
            if spec:
                raise Undecided("format spec on bool term")
            return SStr.lit("True" if it.ctx.decide(val, "fmt-bool") else "False")
        if z3.is_int(val):
            if spec in (None, "", "d", "g"):
                # ':g' prints an int like str() only below 10**6 (callers state the range in `requires`);
                # the obligation is recorded so that it cannot pass silently
                if spec == "g":
                    it.ctx.oblige("fmt_g_int_in_range", z3.And(val > -1000000, val < 1000000), {"kind": "range"})
                return SStr([IntFmt(val)])
            raise Undecided(f"format spec {spec!r} on int term")
        if z3.is_real(val):
            if spec in (None, ""):
                return SStr([RealFmt(val, "repr")])
            if spec == "g":
                return SStr([RealFmt(val, "g")])
            raise Undecided(f"format spec {spec!r} on real term")
    if hasattr(val, "_pyvc_symbolic") or not isinstance(val, (int, float, Fraction, bool, type(None), bytes)):
        from .engine import SObj, deep_concrete

        if isinstance(val, SObj) or not deep_concrete(val):
            raise Undecided(f"str() of {type(val).__name__}")
    try:
        if conversion == ord("r"):
            return SStr.lit(format(repr(val), spec or ""))
        return SStr.lit(format(val, spec or ""))
    except Exception as ex:
        raise PyRaise(type(ex), ex.args)
