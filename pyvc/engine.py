"""Forward symbolic executor for the Python subset of reamberPy's kernels.

* The program text is the REAL source: functions are located through the imported real
  objects (editable install -> /repo working tree) and their files are re-parsed with `ast`
  on every run.  Nothing is transcribed by hand.
* Exploration is replay-based DFS: a path is one deterministic re-execution driven by a
  vector of branch decisions; `decide()` asks the solver which sides are feasible.
* Concrete Python values stay concrete (the executor then behaves as an interpreter, which is
  what the CPython cross-check exploits); symbolic leaves are z3 terms (Int / Real / Bool),
  structured strings (strings.SStr), symbolic objects (SObj) and frame-model values.
* Anything outside the subset raises Undecided - never a violation.
"""
from __future__ import annotations

import ast
import builtins
import hashlib
import inspect
import math
import types
from fractions import Fraction

import z3

# --------------------------------------------------------------------------- exceptions


class Undecided(Exception):
    """The unit left the supported subset; the obligation is undecided (never a violation)."""


class PathEnd(Exception):
    """The current path is cut (assume(False), or the verified part of a loop body ended)."""


class PyRaise(Exception):
    """A Python exception raised by the analysed code."""

    def __init__(self, exc_cls, args=()):
        super().__init__(exc_cls.__name__)
        self.exc_cls = exc_cls
        self.exc_args = tuple(args)

    def __repr__(self):
        return f"PyRaise({self.exc_cls.__name__}{self.exc_args!r})"


class _Return(Exception):
    def __init__(self, value):
        self.value = value


class _Break(Exception):
    pass


class _Continue(Exception):
    pass


REPO_PREFIXES = ("reamber", "contracts", "pyvc.ghost")

# --------------------------------------------------------------------------- source access

_FILE_CACHE: dict = {}


def parse_file(path):
    """(tree, sha256, text) of a source file, cached per process run."""
    if path not in _FILE_CACHE:
        with open(path, "r", encoding="utf8") as f:
            text = f.read()
        tree = ast.parse(text, filename=path)
        for parent in ast.walk(tree):
            for child in ast.iter_child_nodes(parent):
                child._parent = parent
        _FILE_CACHE[path] = (tree, hashlib.sha256(text.encode()).hexdigest(), text)
    return _FILE_CACHE[path]


def find_def(tree, qualname):
    """FunctionDef / ClassDef by dotted qualname, e.g. 'OsuNoteMeta.x_axis_to_column'."""
    cur = tree
    for part in qualname.split("."):
        nxt = None
        for n in ast.iter_child_nodes(cur):
            if isinstance(n, (ast.FunctionDef, ast.ClassDef)) and n.name == part:
                nxt = n
        if nxt is None:
            # search nested bodies (if/try at class level)
            for n in ast.walk(cur):
                if isinstance(n, (ast.FunctionDef, ast.ClassDef)) and n.name == part and n is not cur:
                    nxt = n
                    break
        if nxt is None:
            raise Undecided(f"definition {qualname!r} not found")
        cur = nxt
    return cur


def func_ast(func):
    """AST node (FunctionDef or Lambda) of a real Python function object, from its file on disk."""
    code = func.__code__
    path = code.co_filename
    try:
        tree, _, _ = parse_file(path)
    except OSError:
        raise Undecided(f"no source for {func!r}")
    want = code.co_firstlineno
    cands = []
    for n in ast.walk(tree):
        if isinstance(n, ast.FunctionDef) and n.name == code.co_name:
            lines = [n.lineno] + [d.lineno for d in n.decorator_list]
            if want in lines:
                cands.append(n)
        elif isinstance(n, ast.Lambda) and code.co_name == "<lambda>" and n.lineno == want:
            cands.append(n)
    if not cands:
        raise Undecided(f"source of {func.__qualname__} not located")
    return cands[0]


def source_segment(path, node):
    _, _, text = parse_file(path)
    return ast.get_source_segment(text, node) or ""


# --------------------------------------------------------------------------- values


_MISSING = object()


class SymKey:
    """A numeric term used as a dictionary key.  The keys of one dict are kept pairwise distinct on the path:
    a store first decides equality against every existing key (fork), so len / iteration are those of Python."""

    __slots__ = ("term",)

    def __init__(self, term):
        self.term = term

    def __hash__(self):
        return hash(("symkey", self.term.get_id()))

    def __eq__(self, o):
        return isinstance(o, SymKey) and o.term.eq(self.term)

    def __repr__(self):
        return f"SymKey({self.term})"


def unkey(k):
    return k.term if isinstance(k, SymKey) else k


def has_symkeys(d):
    return any(isinstance(k, SymKey) for k in d)


class SObj:
    """Symbolic object: a real class + a field dictionary; identity is Python identity."""

    def __init__(self, cls, fields=None):
        self.cls = cls
        self.fields = dict(fields or {})

    def __repr__(self):
        return f"SObj<{self.cls.__name__}>({self.fields})"


class Closure:
    def __init__(self, node, env, name="<lambda>", defaults=None, kwdefaults=None, module=None):
        self.node = node
        self.env = env
        self.name = name
        self.defaults = defaults or []
        self.kwdefaults = kwdefaults or {}
        self.module = module


class BoundMethod:
    def __init__(self, selfval, func):
        self.selfval = selfval
        self.func = func


class SuperProxy:
    """zero-argument super() inside a method: attribute lookup continues after `cls` in type(self)'s MRO."""

    def __init__(self, cls, selfval):
        self.cls = cls
        self.selfval = selfval


class Handler:
    """An engine-internal symbolic transformer (library contract): fn(interp, *args, **kwargs)."""

    def __init__(self, fn, name=""):
        self.fn = fn
        self.name = name or getattr(fn, "__name__", "handler")


class Env:
    __slots__ = ("vars", "parent", "globals")

    def __init__(self, vars=None, parent=None, globals=None):
        self.vars = vars if vars is not None else {}
        self.parent = parent
        self.globals = globals if globals is not None else (parent.globals if parent else {})

    def lookup(self, name):
        e = self
        while e is not None:
            if name in e.vars:
                return e.vars[name]
            e = e.parent
        if name in self.globals:
            return self.globals[name]
        if hasattr(builtins, name):
            return getattr(builtins, name)
        raise PyRaise(NameError, (name,))

    def has_local(self, name):
        return name in self.vars


def is_sym(v):
    return isinstance(v, z3.ExprRef)


def is_concrete_scalar(v):
    return isinstance(v, (int, float, Fraction, bool, str, bytes, type(None)))


def deep_concrete(v, depth=0):
    """True when no symbolic leaf is reachable from v (so a native call is an exact evaluation)."""
    from .strings import SStr

    if is_sym(v) or isinstance(v, (SObj, SStr, Closure, BoundMethod, Handler, SuperProxy)):
        return False
    if hasattr(v, "_pyvc_symbolic"):
        return False
    if depth > 6:
        return True
    if isinstance(v, (list, tuple, set, frozenset)):
        return all(deep_concrete(x, depth + 1) for x in v)
    if isinstance(v, dict):
        return all(deep_concrete(k, depth + 1) and deep_concrete(x, depth + 1) for k, x in v.items())
    return True


def to_z3(v):
    """Coerce a numeric / bool value to a z3 term."""
    if is_sym(v):
        return v
    if isinstance(v, bool):
        return z3.BoolVal(v)
    if isinstance(v, int):
        return z3.IntVal(v)
    if isinstance(v, Fraction):
        return z3.RealVal(v)
    if isinstance(v, float):
        if math.isnan(v) or math.isinf(v):
            raise Undecided("non-finite float in symbolic arithmetic")
        return z3.RealVal(Fraction(repr(v)))
    raise Undecided(f"cannot coerce {type(v).__name__} to a term")


def is_int_term(t):
    return is_sym(t) and z3.is_int(t)


def is_real_term(t):
    return is_sym(t) and z3.is_real(t)


def is_bool_term(t):
    return is_sym(t) and z3.is_bool(t)


def as_real(t):
    t = to_z3(t)
    if z3.is_bool(t):
        t = z3.If(t, z3.IntVal(1), z3.IntVal(0))
    return z3.ToReal(t) if z3.is_int(t) else t


def as_arith(t):
    t = to_z3(t)
    if z3.is_bool(t):
        return z3.If(t, z3.IntVal(1), z3.IntVal(0))
    return t


def unify(a, b):
    a, b = as_arith(a), as_arith(b)
    if z3.is_int(a) and z3.is_real(b):
        a = z3.ToReal(a)
    elif z3.is_real(a) and z3.is_int(b):
        b = z3.ToReal(b)
    return a, b


# --------------------------------------------------------------------------- path context


class PathCtx:
    """One path = one deterministic re-execution driven by `prefix`."""

    def __init__(self, prefix, solver_timeout_ms=int(__import__('os').environ.get('PYVC_FEAS_MS', '600'))):
        self.prefix = list(prefix)
        self.taken = []
        self.alternatives = []
        self.pc = []  # path condition (list of z3 Bool)
        self.assumed = []  # assumptions coming from contracts / requires (subset of pc kept for reporting)
        self.fresh_n = 0
        self.solver = z3.Solver()
        self.solver.set("timeout", solver_timeout_ms)
        self.obligations = []  # (name, goal Bool, pc snapshot, info)
        self.trusted_calls = set()
        self.notes = []
        self.depth = 0
        self.steps = 0

    def fresh(self, base, sort):
        self.fresh_n += 1
        name = f"{base}!{self.fresh_n}"
        if sort == "int":
            return z3.Int(name)
        if sort == "real":
            return z3.Real(name)
        if sort == "bool":
            return z3.Bool(name)
        if sort == "str":
            return z3.String(name)
        raise ValueError(sort)

    def assume(self, cond):
        if isinstance(cond, bool):
            if not cond:
                raise PathEnd()
            return
        cond = z3.simplify(cond)
        if z3.is_true(cond):
            return
        if z3.is_false(cond):
            raise PathEnd()
        self.pc.append(cond)
        self.solver.add(cond)

    def _nonlinear(self, cond):
        """Does the condition (or anything assumed so far) multiply / divide two non-constant terms?"""
        if getattr(self, "_nl", False):
            return True
        stack, seen = [cond], set()
        while stack:
            x = stack.pop()
            if x.get_id() in seen or not z3.is_app(x):
                continue
            seen.add(x.get_id())
            k = x.decl().kind()
            if k in (z3.Z3_OP_MUL, z3.Z3_OP_DIV):
                nonconst = [c for c in x.children() if not (z3.is_int_value(c) or z3.is_rational_value(c))]
                if len(nonconst) >= 2 or (k == z3.Z3_OP_DIV and not (z3.is_int_value(x.arg(1)) or z3.is_rational_value(x.arg(1)))):
                    self._nl = True
                    return True
            stack.extend(x.children())
        return False

    def _feasible(self, cond):
        if self._nonlinear(cond):
            # nonlinear mixed Int/Real arithmetic: nlsat on the integer relaxation is the primary oracle.
            # unsat there => unsat here (sound pruning); sat there => treated as feasible (over-approximation:
            # an infeasible path that is explored only yields vacuous obligations)
            from .relax import Relaxer

            if not hasattr(self, "_relaxer"):
                self._relaxer = Relaxer()
            st = self._relaxer.status(self.pc, cond)
            if st == "unsat":
                return False
            if st == "sat":
                return True
        self.solver.push()
        self.solver.add(cond)
        r = self.solver.check()
        self.solver.pop()
        if r == z3.unknown:
            # nonlinear mixed Int/Real: ask nlsat about the integer relaxation (unsat there => unsat here)
            from .relax import relaxed_unsat

            if relaxed_unsat(list(self.pc) + [cond], 1500):
                return False
        return r != z3.unsat  # unknown counts as feasible

    def decide(self, cond, why=""):
        """Turn a (possibly symbolic) truth value into a Python bool, forking the exploration."""
        if isinstance(cond, bool):
            return cond
        if not is_sym(cond):
            return bool(cond)
        cond = z3.simplify(cond)
        if z3.is_true(cond):
            return True
        if z3.is_false(cond):
            return False
        i = len(self.taken)
        if i < len(self.prefix):
            choice = self.prefix[i]
        else:
            t_ok = self._feasible(cond)
            f_ok = self._feasible(z3.Not(cond))
            if t_ok and f_ok:
                choice = True
                self.alternatives.append(self.taken + [False])
            elif t_ok:
                choice = True
            elif f_ok:
                choice = False
            else:
                raise PathEnd()
        self.taken.append(choice)
        c = cond if choice else z3.Not(cond)
        self.pc.append(c)
        self.solver.add(c)
        return choice

    def oblige(self, name, goal, info=None):
        """Record a proof obligation: pc => goal."""
        self.obligations.append((name, goal, list(self.pc), info or {}))


# --------------------------------------------------------------------------- the interpreter


class Interp:
    MAX_STEPS = 400000
    MAX_DEPTH = 60
    MAX_LOOP = 600

    def __init__(self, ctx: PathCtx, contracts=None, loop_specs=None, spec_mode=False):
        self.ctx = ctx
        self.contracts = contracts or {}  # real function object -> callable(interp, args, kwargs) -> value
        self.loop_specs = loop_specs or {}
        self.spec_mode = spec_mode
        self.cur_exc = None
        from . import lib

        self.lib = lib

    # ----- truthiness
    def truthy(self, v):
        from .strings import SStr

        if isinstance(v, bool) or v is None:
            return bool(v)
        if is_sym(v):
            if z3.is_bool(v):
                return v
            if z3.is_int(v) or z3.is_real(v):
                return v != 0
            raise Undecided("truthiness of term")
        if isinstance(v, SStr):
            return v.nonempty_cond()
        if isinstance(v, SObj):
            if hasattr(v.cls, "__len__") and not hasattr(v.cls, "__bool__"):
                n = self.call_method(v, "__len__", [], {})
                return self.truthy(n)
            return True
        if hasattr(v, "_pyvc_truthy"):
            return v._pyvc_truthy(self)
        if isinstance(v, (Closure, BoundMethod)):
            return True
        try:
            return bool(v)
        except Exception:
            raise Undecided(f"truthiness of {type(v).__name__}")

    def decide(self, v, why=""):
        return self.ctx.decide(self.truthy(v), why)

    # ----- module / function plumbing
    def run_function(self, func, args, kwargs):
        """Interpret a real Python function object from its on-disk source."""
        node = func_ast(func)
        module = inspect.getmodule(func)
        genv = module.__dict__ if module else {}
        parent = None
        if func.__closure__:
            cells = {}
            for name, cell in zip(func.__code__.co_freevars, func.__closure__):
                try:
                    cells[name] = cell.cell_contents
                except ValueError:
                    pass
            parent = Env(cells, None, genv)
        defaults = list(func.__defaults__ or ())
        kwdefaults = dict(func.__kwdefaults__ or {})
        clo = Closure(node, parent or Env({}, None, genv), func.__name__, defaults, kwdefaults, module)
        return self.call_closure(clo, args, kwargs)

    def bind(self, a: ast.arguments, args, kwargs, defaults, kwdefaults, fname):
        args = list(args)
        kwargs = dict(kwargs)
        pos = [x.arg for x in a.posonlyargs + a.args]
        loc = {}
        n = len(pos)
        for i, name in enumerate(pos):
            if i < len(args):
                loc[name] = args[i]
            elif name in kwargs:
                loc[name] = kwargs.pop(name)
            else:
                di = i - (n - len(defaults))
                if di >= 0:
                    loc[name] = defaults[di]
                else:
                    raise PyRaise(TypeError, (f"{fname}() missing argument {name}",))
        if len(args) > n:
            if a.vararg:
                loc[a.vararg.arg] = tuple(args[n:])
            else:
                raise PyRaise(TypeError, (f"{fname}() takes {n} positional arguments",))
        elif a.vararg:
            loc[a.vararg.arg] = ()
        for i, ka in enumerate(a.kwonlyargs):
            if ka.arg in kwargs:
                loc[ka.arg] = kwargs.pop(ka.arg)
            elif ka.arg in kwdefaults:
                loc[ka.arg] = kwdefaults[ka.arg]
            else:
                raise PyRaise(TypeError, (f"{fname}() missing kw-only {ka.arg}",))
        if a.kwarg:
            loc[a.kwarg.arg] = kwargs
        elif kwargs:
            raise PyRaise(TypeError, (f"{fname}() got unexpected keyword {list(kwargs)}",))
        return loc

    def call_closure(self, clo: Closure, args, kwargs):
        node = clo.node
        self.ctx.depth += 1
        if self.ctx.depth > self.MAX_DEPTH:
            raise Undecided("call depth")
        try:
            loc = self.bind(node.args, args, kwargs, clo.defaults, clo.kwdefaults, clo.name)
            env = Env(loc, clo.env, clo.env.globals)
            allargs = node.args.posonlyargs + node.args.args
            if allargs:
                loc["__first_arg__"] = loc[allargs[0].arg]
            if isinstance(node, ast.Lambda):
                return self.eval(node.body, env)
            if _is_generator(node):
                out = []
                env.vars["__yield__"] = out
                try:
                    self.exec_block(node.body, env)
                except _Return:
                    pass
                return out
            try:
                self.exec_block(node.body, env)
            except _Return as r:
                return r.value
            return None
        finally:
            self.ctx.depth -= 1

    # ----- statements
    def exec_block(self, stmts, env):
        for s in stmts:
            self.exec_stmt(s, env)

    def exec_stmt(self, s, env):
        self.ctx.steps += 1
        if self.ctx.steps > self.MAX_STEPS:
            raise Undecided("step budget")
        m = getattr(self, "s_" + type(s).__name__, None)
        if m is None:
            raise Undecided(f"statement {type(s).__name__}")
        return m(s, env)

    def s_Expr(self, s, env):
        if isinstance(s.value, ast.Constant):
            return  # docstring
        if isinstance(s.value, (ast.Yield,)):
            v = self.eval(s.value.value, env) if s.value.value else None
            env.lookup("__yield__").append(v)
            return
        if _is_log_call(s.value):
            return  # dropped: logging / warnings (stated in DESIGN 3.1)
        self.eval(s.value, env)

    def s_Pass(self, s, env):
        pass

    def s_Return(self, s, env):
        raise _Return(self.eval(s.value, env) if s.value is not None else None)

    def s_Break(self, s, env):
        raise _Break()

    def s_Continue(self, s, env):
        raise _Continue()

    def s_Import(self, s, env):
        import importlib

        for a in s.names:
            mod = importlib.import_module(a.name)
            if a.asname:
                env.vars[a.asname] = mod
            else:
                env.vars[a.name.split(".")[0]] = importlib.import_module(a.name.split(".")[0])

    def s_ImportFrom(self, s, env):
        import importlib

        mod = importlib.import_module(s.module)
        for a in s.names:
            env.vars[a.asname or a.name] = getattr(mod, a.name)

    def s_Global(self, s, env):
        raise Undecided("global statement")

    def s_Nonlocal(self, s, env):
        # assignments to these names go to the nearest enclosing function scope that binds them
        env.vars.setdefault("__nonlocal__", set()).update(s.names)

    def s_FunctionDef(self, s, env):
        defaults = [self.eval(d, env) for d in s.args.defaults]
        kwdefaults = {
            a.arg: self.eval(d, env) for a, d in zip(s.args.kwonlyargs, s.args.kw_defaults) if d is not None
        }
        env.vars[s.name] = Closure(s, env, s.name, defaults, kwdefaults)

    def s_Assign(self, s, env):
        v = self.eval(s.value, env)
        for t in s.targets:
            self.assign(t, v, env)

    def s_AnnAssign(self, s, env):
        if s.value is not None:
            self.assign(s.target, self.eval(s.value, env), env)

    def s_AugAssign(self, s, env):
        t = s.target
        if isinstance(t, ast.Name):
            cur = env.lookup(t.id)
            new = self.binop_inplace(s.op, cur, self.eval(s.value, env))
            self.assign(t, new, env)
        elif isinstance(t, ast.Attribute):
            obj = self.eval(t.value, env)
            cur = self.getattr(obj, t.attr)
            new = self.binop_inplace(s.op, cur, self.eval(s.value, env))
            self.setattr(obj, t.attr, new)
        elif isinstance(t, ast.Subscript):
            obj = self.eval(t.value, env)
            idx = self.eval_index(t.slice, env)
            cur = self.getitem(obj, idx)
            new = self.binop_inplace(s.op, cur, self.eval(s.value, env))
            self.setitem(obj, idx, new)
        else:
            raise Undecided("augassign target")

    def binop_inplace(self, op, cur, val):
        if isinstance(cur, list) and isinstance(op, ast.Add):
            cur.extend(self.iterate(val))
            return cur
        if hasattr(cur, "_pyvc_iop"):
            return cur._pyvc_iop(self, op, val)
        return self.binop(op, cur, val)

    def assign(self, t, v, env):
        if isinstance(t, ast.Name):
            e = env
            # comprehension / block scopes chain to the function scope that declared `nonlocal`
            while e is not None:
                if t.id in e.vars.get("__nonlocal__", ()):
                    p = e.parent
                    while p is not None and t.id not in p.vars:
                        p = p.parent
                    if p is None:
                        raise PyRaise(SyntaxError, (f"no binding for nonlocal {t.id}",))
                    p.vars[t.id] = v
                    return
                if t.id in e.vars:
                    break
                e = e.parent
            env.vars[t.id] = v
        elif isinstance(t, (ast.Tuple, ast.List)):
            items = self.iterate(v)
            star = [i for i, e in enumerate(t.elts) if isinstance(e, ast.Starred)]
            if star:
                k = star[0]
                after = len(t.elts) - k - 1
                if len(items) < len(t.elts) - 1:
                    raise PyRaise(ValueError, ("not enough values to unpack",))
                for e, x in zip(t.elts[:k], items[:k]):
                    self.assign(e, x, env)
                self.assign(t.elts[k].value, list(items[k : len(items) - after]), env)
                for e, x in zip(t.elts[k + 1 :], items[len(items) - after :]):
                    self.assign(e, x, env)
            else:
                if len(items) != len(t.elts):
                    raise PyRaise(ValueError, ("unpack length mismatch",))
                for e, x in zip(t.elts, items):
                    self.assign(e, x, env)
        elif isinstance(t, ast.Attribute):
            self.setattr(self.eval(t.value, env), t.attr, v)
        elif isinstance(t, ast.Subscript):
            self.setitem(self.eval(t.value, env), self.eval_index(t.slice, env), v)
        elif isinstance(t, ast.Starred):
            self.assign(t.value, v, env)
        else:
            raise Undecided("assign target")

    def s_Delete(self, s, env):
        for t in s.targets:
            if isinstance(t, ast.Name):
                env.vars.pop(t.id, None)
            elif isinstance(t, ast.Subscript):
                obj = self.eval(t.value, env)
                idx = self.eval_index(t.slice, env)
                if isinstance(obj, (dict, list)) and deep_concrete(idx):
                    del obj[idx]
                else:
                    raise Undecided("del target")
            else:
                raise Undecided("del target")

    def s_If(self, s, env):
        if self.decide(self.eval(s.test, env), "if"):
            self.exec_block(s.body, env)
        else:
            self.exec_block(s.orelse, env)

    def s_Assert(self, s, env):
        if not self.decide(self.eval(s.test, env), "assert"):
            raise PyRaise(AssertionError, ())

    def s_Raise(self, s, env):
        if s.exc is None:
            if self.cur_exc is not None:
                raise self.cur_exc
            raise PyRaise(RuntimeError, ("no active exception",))
        e = self.eval(s.exc, env)
        if isinstance(e, type) and issubclass(e, BaseException):
            raise PyRaise(e, ())
        if isinstance(e, BaseException):
            raise PyRaise(type(e), e.args)
        if isinstance(e, SObj) and issubclass(e.cls, BaseException):
            raise PyRaise(e.cls, e.fields.get("args", ()))
        raise Undecided("raise of non-exception")

    def s_Try(self, s, env):
        try:
            try:
                self.exec_block(s.body, env)
            except PyRaise as pr:
                for h in s.handlers:
                    if h.type is None:
                        match = True
                    else:
                        tv = self.eval(h.type, env)
                        tvs = tv if isinstance(tv, tuple) else (tv,)
                        match = any(isinstance(c, type) and issubclass(pr.exc_cls, c) for c in tvs)
                    if match:
                        if h.name:
                            env.vars[h.name] = _make_exc(pr)
                        saved = self.cur_exc
                        self.cur_exc = pr
                        try:
                            self.exec_block(h.body, env)
                        finally:
                            self.cur_exc = saved
                        break
                else:
                    raise
            else:
                self.exec_block(s.orelse, env)
        finally:
            if s.finalbody:
                self.exec_block(s.finalbody, env)

    def s_With(self, s, env):
        raise Undecided("with statement")

    def loop_key(self, s):
        if isinstance(s, ast.For):
            t = ast.unparse(s.target)
            if isinstance(s.target, ast.Tuple) and t.startswith("(") and t.endswith(")"):
                t = t[1:-1]
            return f"for {t} in {ast.unparse(s.iter)}"
        return f"while {ast.unparse(s.test)}"

    def find_loop_spec(self, s):
        key = self.loop_key(s)
        for k, spec in self.loop_specs.items():
            if key.startswith(k):
                return spec
        return None

    def s_While(self, s, env):
        spec = self.find_loop_spec(s)
        if spec is not None:
            return spec.run_while(self, s, env)
        n = 0
        broke = False
        while self.decide(self.eval(s.test, env), "while"):
            n += 1
            if n > self.MAX_LOOP:
                raise Undecided("while unrolling bound")
            try:
                self.exec_block(s.body, env)
            except _Break:
                broke = True
                break
            except _Continue:
                continue
        if not broke:
            self.exec_block(s.orelse, env)

    def s_For(self, s, env):
        spec = self.find_loop_spec(s)
        if spec is not None:
            return spec.run_for(self, s, env)
        it = self.eval(s.iter, env)
        items = self.iterate(it)
        broke = False
        for x in items:
            self.assign(s.target, x, env)
            try:
                self.exec_block(s.body, env)
            except _Break:
                broke = True
                break
            except _Continue:
                continue
        if not broke:
            self.exec_block(s.orelse, env)

    # ----- iteration
    def iterate(self, v):
        """Materialise an iterable with statically known length as a Python list."""
        from .strings import SStr

        if isinstance(v, (list, tuple)):
            return list(v)
        if isinstance(v, (range, set, frozenset)):
            return list(v)
        if isinstance(v, dict):
            return [unkey(k) for k in v.keys()]
        if isinstance(v, (str, bytes)):
            return list(v) if isinstance(v, str) else [v[i] for i in range(len(v))]
        if isinstance(v, SStr):
            if v.is_literal():
                return list(v.literal())
            raise Undecided("iteration over symbolic string")
        if hasattr(v, "_pyvc_iter"):
            return v._pyvc_iter(self)
        if isinstance(v, SObj):
            if hasattr(v.cls, "__iter__"):
                return self.iterate(self.call_method(v, "__iter__", [], {}))
            raise PyRaise(TypeError, ("object is not iterable",))
        if isinstance(v, (types.GeneratorType, zip, enumerate, map, filter, reversed)) or hasattr(v, "__iter__"):
            if is_sym(v):
                raise Undecided("iteration over term")
            try:
                return list(v)
            except Exception as e:  # pragma: no cover
                raise Undecided(f"iteration failed: {e}")
        raise Undecided(f"iteration over {type(v).__name__}")

    # ----- expressions
    def eval(self, e, env):
        m = getattr(self, "e_" + type(e).__name__, None)
        if m is None:
            raise Undecided(f"expression {type(e).__name__}")
        return m(e, env)

    def e_Constant(self, e, env):
        return e.value

    def e_Name(self, e, env):
        return env.lookup(e.id)

    def e_NamedExpr(self, e, env):
        v = self.eval(e.value, env)
        env.vars[e.target.id] = v
        return v

    def e_Tuple(self, e, env):
        return tuple(self._elts(e.elts, env))

    def e_List(self, e, env):
        return list(self._elts(e.elts, env))

    def e_Set(self, e, env):
        items = self._elts(e.elts, env)
        if deep_concrete(items):
            return set(items)
        from .npmodel import SymSet

        return SymSet.build(self, items)

    def _elts(self, elts, env):
        out = []
        for x in elts:
            if isinstance(x, ast.Starred):
                out.extend(self.iterate(self.eval(x.value, env)))
            else:
                out.append(self.eval(x, env))
        return out

    def e_Dict(self, e, env):
        d = {}
        for k, v in zip(e.keys, e.values):
            if k is None:
                src = self.eval(v, env)
                if isinstance(src, dict):
                    d.update(src)
                else:
                    raise Undecided("dict ** of non-dict")
            else:
                kk = self.eval(k, env)
                kk = self.concrete_key(kk)
                d[kk] = self.eval(v, env)
        return d

    def dict_find(self, d, idx):
        """The key object of `d` equal to idx on this path (forking on equalities with numeric term keys), or
        _MISSING.  Without term keys on either side this is an ordinary lookup."""
        from .strings import SStr

        numeric_sym = is_sym(idx) and not isinstance(idx, SStr) and not z3.is_bool(idx)
        if not numeric_sym and not has_symkeys(d):
            k = self.concrete_key(idx)
            return k if k in d else _MISSING
        if not numeric_sym and not isinstance(idx, (int, float, Fraction)):
            k = self.concrete_key(idx)
            return k if k in d else _MISSING
        for k in list(d):
            if isinstance(k, SymKey) or (numeric_sym and isinstance(k, (int, float, Fraction)) and not isinstance(k, bool)):
                if self.ctx.decide(self.truthy(self.equals(unkey(k), idx)), "dict key"):
                    return k
            elif not numeric_sym and k == idx:
                return k
        return _MISSING

    def concrete_key(self, k):
        from .strings import SStr

        if isinstance(k, SStr):
            if k.is_literal():
                return k.literal()
            raise Undecided("symbolic string as dict key")
        if is_sym(k):
            raise Undecided("symbolic dict key")
        return k

    def e_Lambda(self, e, env):
        defaults = [self.eval(d, env) for d in e.args.defaults]
        kwdefaults = {
            a.arg: self.eval(d, env) for a, d in zip(e.args.kwonlyargs, e.args.kw_defaults) if d is not None
        }
        return Closure(e, env, "<lambda>", defaults, kwdefaults)

    def e_IfExp(self, e, env):
        c = self.truthy(self.eval(e.test, env))
        if self.spec_mode and is_sym(c):
            c = z3.simplify(c)
            if not (z3.is_true(c) or z3.is_false(c)):
                a = self.eval(e.body, env)
                b = self.eval(e.orelse, env)
                return self.ite(c, a, b)
        if self.ctx.decide(c, "ifexp"):
            return self.eval(e.body, env)
        return self.eval(e.orelse, env)

    def ite(self, c, a, b):
        if a is b:
            return a
        if isinstance(a, bool) and isinstance(b, bool):
            return z3.If(c, z3.BoolVal(a), z3.BoolVal(b)) if a != b else a
        try:
            ta, tb = to_z3(a), to_z3(b)
        except Undecided:
            raise Undecided("ite over non-scalar values")
        if z3.is_bool(ta) != z3.is_bool(tb):
            ta, tb = as_arith(ta), as_arith(tb)
        if not z3.is_bool(ta):
            ta, tb = unify(ta, tb)
        return z3.If(c, ta, tb)

    def e_BoolOp(self, e, env):
        is_and = isinstance(e.op, ast.And)
        if self.spec_mode:
            # pure specification text: build the formula without forking
            vals = []
            for x in e.values:
                v = self.eval(x, env)
                t = self.truthy(v)
                if isinstance(t, bool):
                    if is_and and not t:
                        return False if not vals else z3.And(*[to_z3(q) for q in vals], z3.BoolVal(False))
                    if not is_and and t:
                        return True if not vals else z3.BoolVal(True)
                    continue
                vals.append(t)
            if not vals:
                return True if is_and else False
            vs = [to_z3(q) for q in vals]
            return z3.And(*vs) if is_and else z3.Or(*vs)
        v = None
        for x in e.values:
            v = self.eval(x, env)
            d = self.decide(v, "boolop")
            if is_and and not d:
                return v
            if not is_and and d:
                return v
        return v

    def e_UnaryOp(self, e, env):
        v = self.eval(e.operand, env)
        if isinstance(e.op, ast.Not):
            t = self.truthy(v)
            return z3.Not(t) if is_sym(t) else (not t)
        if hasattr(v, "_pyvc_unop"):
            return v._pyvc_unop(self, e.op)
        if isinstance(e.op, ast.USub):
            if is_sym(v):
                return -as_arith(v)
            return -v
        if isinstance(e.op, ast.UAdd):
            return v
        if isinstance(e.op, ast.Invert):
            if is_sym(v):
                if z3.is_bool(v):
                    raise Undecided("~ on bool term")
                return -v - 1
            return ~v
        raise Undecided("unary op")

    def e_BinOp(self, e, env):
        return self.binop(e.op, self.eval(e.left, env), self.eval(e.right, env))

    def e_Compare(self, e, env):
        left = self.eval(e.left, env)
        conds = []
        for op, r in zip(e.ops, e.comparators):
            right = self.eval(r, env)
            c = self.compare(op, left, right)
            if len(e.ops) == 1:
                return c
            if isinstance(c, bool):
                if not c:
                    return False
            else:
                conds.append(c)
            left = right
        if not conds:
            return True
        ts = [self.truthy(c) for c in conds]
        return z3.And(*[to_z3(t) for t in ts]) if len(ts) > 1 else ts[0]

    def e_Attribute(self, e, env):
        return self.getattr(self.eval(e.value, env), e.attr)

    def e_Subscript(self, e, env):
        return self.getitem(self.eval(e.value, env), self.eval_index(e.slice, env))

    def eval_index(self, sl, env):
        if isinstance(sl, ast.Slice):
            return slice(
                self.eval(sl.lower, env) if sl.lower else None,
                self.eval(sl.upper, env) if sl.upper else None,
                self.eval(sl.step, env) if sl.step else None,
            )
        if isinstance(sl, ast.Tuple):
            return tuple(self.eval_index(x, env) for x in sl.elts)
        return self.eval(sl, env)

    def e_Starred(self, e, env):
        raise Undecided("starred expression")

    def e_JoinedStr(self, e, env):
        from .strings import SStr, fmt_value

        parts = []
        for v in e.values:
            if isinstance(v, ast.Constant):
                parts.append(SStr.lit(v.value))
            else:
                val = self.eval(v.value, env)
                spec = None
                if v.format_spec is not None:
                    sp = self.eval(v.format_spec, env)
                    spec = sp.literal() if isinstance(sp, SStr) else sp
                parts.append(fmt_value(self, val, spec, v.conversion))
        out = SStr.concat(parts)
        return out.literal() if out.is_literal() else out

    def e_FormattedValue(self, e, env):
        raise Undecided("bare formatted value")

    def _comp(self, gens, env, emit):
        def rec(i, env_):
            if i == len(gens):
                emit(env_)
                return
            g = gens[i]
            for x in self.iterate(self.eval(g.iter, env_)):
                e2 = Env({}, env_, env_.globals)
                self.assign(g.target, x, e2)
                ok = True
                for c in g.ifs:
                    if not self.decide(self.eval(c, e2), "comp-if"):
                        ok = False
                        break
                if ok:
                    rec(i + 1, e2)

        rec(0, env)

    def e_ListComp(self, e, env):
        out = []
        self._comp(e.generators, env, lambda en: out.append(self.eval(e.elt, en)))
        return out

    def e_GeneratorExp(self, e, env):
        return self.e_ListComp(e, env)

    def e_SetComp(self, e, env):
        out = self.e_ListComp(e, env)
        if deep_concrete(out):
            return set(out)
        from .npmodel import SymSet

        return SymSet.build(self, out)

    def e_DictComp(self, e, env):
        out = {}

        def emit(en):
            out[self.concrete_key(self.eval(e.key, en))] = self.eval(e.value, en)

        self._comp(e.generators, env, emit)
        return out

    def e_Call(self, e, env):
        if isinstance(e.func, ast.Name) and e.func.id == "super" and not e.args and not e.keywords:
            try:
                cls = env.lookup("__class__")
                first = env.lookup("__first_arg__")
            except PyRaise:
                raise Undecided("super() outside a method")
            return SuperProxy(cls, first)
        f = self.eval(e.func, env)
        args = []
        for a in e.args:
            if isinstance(a, ast.Starred):
                args.extend(self.iterate(self.eval(a.value, env)))
            else:
                args.append(self.eval(a, env))
        kwargs = {}
        for k in e.keywords:
            if k.arg is None:
                d = self.eval(k.value, env)
                if not isinstance(d, dict):
                    raise Undecided("** of non-dict")
                kwargs.update(d)
            else:
                kwargs[k.arg] = self.eval(k.value, env)
        return self.call(f, args, kwargs)

    # ----- calls
    def call(self, f, args, kwargs):
        if isinstance(f, Closure):
            return self.call_closure(f, args, kwargs)
        if isinstance(f, BoundMethod):
            return self.call(f.func, [f.selfval] + list(args), kwargs)
        if isinstance(f, Handler):
            return f.fn(self, *args, **kwargs)
        h = self.lib.lookup(f)
        if h is not None:
            return h(self, *args, **kwargs)
        if f in self.contracts:
            return self.contracts[f](self, args, kwargs)
        if isinstance(f, types.MethodType):
            return self.call(f.__func__, [f.__self__] + list(args), kwargs)
        if isinstance(f, types.FunctionType):
            mod = f.__module__ or ""
            if mod.startswith(REPO_PREFIXES):
                return self.run_function(f, args, kwargs)
            return self.native(f, args, kwargs)
        if isinstance(f, type):
            return self.construct(f, args, kwargs)
        if isinstance(f, SObj):
            return self.call_method(f, "__call__", args, kwargs)
        if callable(f):
            return self.native(f, args, kwargs)
        raise PyRaise(TypeError, (f"{type(f).__name__} is not callable",))

    def native(self, f, args, kwargs):
        """Exact evaluation of a library call on fully concrete arguments (recorded as trusted)."""
        selfobj = getattr(f, "__self__", None)
        if deep_concrete(args) and deep_concrete(kwargs) and (selfobj is None or deep_concrete(selfobj)):
            name = getattr(f, "__qualname__", None) or getattr(f, "__name__", repr(f))
            self.ctx.trusted_calls.add(f"{getattr(f, '__module__', '') or ''}.{name}")
            try:
                return f(*args, **kwargs)
            except Exception as ex:  # the library's own exception is the Python semantics
                raise PyRaise(type(ex), ex.args)
        name = getattr(f, "__qualname__", None) or getattr(f, "__name__", repr(f))
        raise Undecided(f"library call {name} on symbolic arguments has no contract")

    def construct(self, cls, args, kwargs):
        import dataclasses

        if issubclass(cls, BaseException):
            if deep_concrete(args):
                return cls(*args)
            return SObj(cls, {"args": tuple(args)})
        mod = cls.__module__ or ""
        if issubclass(cls, tuple) and hasattr(cls, "_fields") and not (deep_concrete(args) and deep_concrete(kwargs)):
            # collections.namedtuple holding model values: a tuple with named fields
            from .frames import _NamedRow

            names = list(cls._fields)
            vals = list(args) + [None] * (len(names) - len(args))
            for k, v in kwargs.items():
                if k not in names:
                    raise PyRaise(TypeError, (f"unexpected keyword {k}",))
                vals[names.index(k)] = v
            if len(args) > len(names):
                raise PyRaise(TypeError, ("too many positional arguments",))
            return _NamedRow(vals, names)
        if not mod.startswith(REPO_PREFIXES):
            return self.native(cls, args, kwargs)
        obj = SObj(cls, {})
        init = inspect.getattr_static(cls, "__init__", None)
        gen_init = isinstance(init, types.FunctionType) and init.__code__.co_filename.startswith("<")
        if dataclasses.is_dataclass(cls) and gen_init:
            flds = [f for f in dataclasses.fields(cls) if f.init]
            names = [f.name for f in flds]
            vals = {}
            for i, a in enumerate(args):
                if i >= len(names):
                    raise PyRaise(TypeError, ("too many positional arguments",))
                vals[names[i]] = a
            for k, v in kwargs.items():
                if k not in names:
                    raise PyRaise(TypeError, (f"unexpected keyword {k}",))
                vals[k] = v
            for f in dataclasses.fields(cls):
                if f.name in vals:
                    continue
                if f.default is not dataclasses.MISSING:
                    vals[f.name] = f.default
                elif f.default_factory is not dataclasses.MISSING:
                    vals[f.name] = self.call(f.default_factory, [], {})
                elif f.init:
                    raise PyRaise(TypeError, (f"missing field {f.name}",))
            obj.fields.update(vals)
            if hasattr(cls, "__post_init__"):
                self.call_method(obj, "__post_init__", [], {})
            return obj
        if isinstance(init, types.FunctionType):
            self.call(init, [obj] + list(args), kwargs)
            return obj
        if init is object.__init__ or init is None:
            return obj
        raise Undecided(f"constructor of {cls.__name__}")

    def call_method(self, obj, name, args, kwargs):
        return self.call(self.getattr(obj, name), args, kwargs)

    # ----- attributes
    def getattr(self, obj, name):
        from .strings import SStr

        if isinstance(obj, SObj):
            if name in obj.fields:
                return obj.fields[name]
            if name == "__class__":
                return obj.cls
            if name == "__getattribute__" or name == "__getattr__":
                return Handler(lambda it, n: it.getattr(obj, it.concrete_key(n)), "object.__getattribute__")
            if name == "__setattr__":
                return Handler(lambda it, n, v: it.setattr(obj, it.concrete_key(n), v), "object.__setattr__")
            try:
                static = inspect.getattr_static(obj.cls, name)
            except AttributeError:
                raise PyRaise(AttributeError, (name,))
            if isinstance(static, property):
                return self.call(static.fget, [obj], {})
            if isinstance(static, staticmethod):
                return static.__func__
            if isinstance(static, classmethod):
                return BoundMethod(obj.cls, static.__func__)
            if isinstance(static, types.FunctionType):
                return BoundMethod(obj, static)
            return static
        if isinstance(obj, SStr):
            return BoundMethod(obj, self.lib.str_method(name))
        if isinstance(obj, SuperProxy):
            sv = obj.selfval
            start = sv.cls if isinstance(sv, SObj) else (sv if isinstance(sv, type) else type(sv))
            mro = list(start.__mro__)
            for k in mro[mro.index(obj.cls) + 1 :]:
                if name in k.__dict__:
                    raw = k.__dict__[name]
                    if isinstance(raw, staticmethod):
                        return raw.__func__
                    if isinstance(raw, classmethod):
                        return BoundMethod(start, raw.__func__)
                    if isinstance(raw, property):
                        return self.call(raw.fget, [sv], {})
                    if isinstance(raw, types.FunctionType):
                        return BoundMethod(sv, raw)
                    if k is object and name == "__init__":
                        return Handler(lambda it, *a, **kw: None, "object.__init__")
                    return raw
            raise PyRaise(AttributeError, (name,))
        if hasattr(obj, "_pyvc_getattr"):
            return obj._pyvc_getattr(self, name)
        if is_sym(obj):
            h = self.lib.term_attr(self, obj, name)
            if h is not None:
                return h
            raise PyRaise(AttributeError, (name,))  # terms stand for plain int / float / bool values
        if isinstance(obj, str) and self.lib.str_method(name, probe=True) is not None and not self.lib.native_str_ok(name):
            return BoundMethod(SStr.lit(obj), self.lib.str_method(name))
        if isinstance(obj, set) and name in ("add", "discard", "update"):
            def _set_op(it, st, *a):
                # Python set semantics on model objects: membership by identity / hash of the model object
                getattr(st, name)(*[x if not isinstance(x, list) else tuple(x) for x in a])
                return None
            return BoundMethod(obj, Handler(_set_op, "set." + name))
        if isinstance(obj, (list, dict)):
            try:
                return BoundMethod(obj, self.lib.container_method(type(obj), name))
            except Undecided:
                if not deep_concrete(obj):
                    raise
        if isinstance(obj, super):
            raise Undecided("super() proxy")
        try:
            return getattr(obj, name)
        except AttributeError:
            raise PyRaise(AttributeError, (name,))

    def setattr(self, obj, name, v):
        if isinstance(obj, SObj):
            try:
                static = inspect.getattr_static(obj.cls, name)
            except AttributeError:
                static = None
            if isinstance(static, property):
                if static.fset is None:
                    raise PyRaise(AttributeError, (name,))
                self.call(static.fset, [obj, v], {})
                return
            obj.fields[name] = v
            return
        if hasattr(obj, "_pyvc_setattr"):
            return obj._pyvc_setattr(self, name, v)
        raise Undecided(f"attribute store on {type(obj).__name__}")

    # ----- subscripts
    def norm_index(self, i, n):
        """Python index normalisation with IndexError; i may be symbolic, n concrete."""
        if is_sym(i):
            raise Undecided("symbolic index into a static sequence")
        if not isinstance(i, int):
            if isinstance(i, Fraction) and i.denominator == 1:
                raise PyRaise(TypeError, ("list indices must be integers",))
            raise PyRaise(TypeError, ("indices must be integers",))
        if i < -n or i >= n:
            raise PyRaise(IndexError, ("index out of range",))
        return i % n if n else 0

    def getitem(self, obj, idx):
        from .strings import SStr

        if hasattr(obj, "_pyvc_getitem"):
            return obj._pyvc_getitem(self, idx)
        if isinstance(obj, (list, tuple)):
            if isinstance(idx, slice):
                if any(is_sym(x) for x in (idx.start, idx.stop, idx.step)):
                    raise Undecided("symbolic slice bound on a static sequence")
                return obj[idx]
            if is_sym(idx):
                return self.select_static(obj, idx)
            if isinstance(idx, bool):
                idx = int(idx)
            return obj[self.norm_index(idx, len(obj))]
        if isinstance(obj, dict):
            k = self.dict_find(obj, idx)
            if k is _MISSING:
                raise PyRaise(KeyError, (idx,))
            return obj[k]
        if isinstance(obj, SStr):
            return obj.getitem(self, idx)
        if isinstance(obj, (str, bytes)):
            if isinstance(idx, slice):
                if any(is_sym(x) for x in (idx.start, idx.stop, idx.step)):
                    raise Undecided("symbolic slice of a literal string")
                return obj[idx]
            if is_sym(idx):
                raise Undecided("symbolic index into a literal string")
            return obj[self.norm_index(idx, len(obj))] if isinstance(obj, str) else obj[idx]
        if isinstance(obj, SObj):
            return self.call_method(obj, "__getitem__", [idx], {})
        if is_sym(obj):
            raise Undecided("subscript of term")
        if deep_concrete(idx):
            try:
                return obj[idx]
            except Exception as ex:
                raise PyRaise(type(ex), ex.args)
        raise Undecided(f"subscript of {type(obj).__name__}")

    def select_static(self, seq, idx):
        """seq[idx] for a static list and a symbolic Int index: fork on the value of idx."""
        n = len(seq)
        for k in range(-n, n):
            if self.ctx.decide(idx == k, "index"):
                return seq[k]
        raise PyRaise(IndexError, ("index out of range",))

    def setitem(self, obj, idx, v):
        if hasattr(obj, "_pyvc_setitem"):
            return obj._pyvc_setitem(self, idx, v)
        if isinstance(obj, list):
            if isinstance(idx, slice):
                obj[idx] = self.iterate(v)
                return
            if is_sym(idx):
                n = len(obj)
                for k in range(-n, n):
                    if self.ctx.decide(idx == k, "index"):
                        obj[k] = v
                        return
                raise PyRaise(IndexError, ("assignment index out of range",))
            obj[self.norm_index(idx, len(obj))] = v
            return
        if isinstance(obj, dict):
            k = self.dict_find(obj, idx)
            if k is _MISSING:
                k = SymKey(idx) if (is_sym(idx) and not z3.is_bool(idx)) else self.concrete_key(idx)
            obj[k] = v
            return
        if isinstance(obj, SObj):
            return self.call_method(obj, "__setitem__", [idx, v], {})
        raise Undecided(f"subscript store on {type(obj).__name__}")

    # ----- arithmetic
    def binop(self, op, a, b):
        from .strings import SStr

        if type(a).__name__ == "_NaN" or type(b).__name__ == "_NaN":
            # IEEE: arithmetic with a missing value is a missing value
            if isinstance(op, (ast.Add, ast.Sub, ast.Mult, ast.Div, ast.FloorDiv, ast.Mod, ast.Pow)) and not hasattr(a, "_pyvc_binop") and not hasattr(b, "_pyvc_binop"):
                return a if type(a).__name__ == "_NaN" else b
        if hasattr(a, "_pyvc_binop"):
            r = a._pyvc_binop(self, op, b, False)
            if r is not NotImplemented:
                return r
        if hasattr(b, "_pyvc_binop"):
            r = b._pyvc_binop(self, op, a, True)
            if r is not NotImplemented:
                return r
        if isinstance(a, SObj) or isinstance(b, SObj):
            return self.obj_binop(op, a, b)
        if isinstance(a, (SStr, str)) and isinstance(b, (SStr, str)) and (isinstance(a, SStr) or isinstance(b, SStr)):
            if isinstance(op, ast.Add):
                return SStr.concat([SStr.of(a), SStr.of(b)])
            raise Undecided("string operator")
        if isinstance(a, SStr) or isinstance(b, SStr):
            if isinstance(op, ast.Mult):
                s, k = (a, b) if isinstance(a, SStr) else (b, a)
                if isinstance(k, int) and s.is_literal():
                    return s.literal() * k
            if isinstance(op, ast.Mod):
                raise Undecided("% formatting")
            raise Undecided("string operator")
        if not is_sym(a) and not is_sym(b):
            return self.concrete_binop(op, a, b)
        if isinstance(a, (list, tuple, str, dict)) or isinstance(b, (list, tuple, str, dict)):
            if isinstance(op, ast.Mult):
                seq, k = (a, b) if isinstance(a, (list, tuple)) else (b, a)
                raise Undecided("sequence repetition by a symbolic count")
            raise Undecided("operator on container and term")
        if a is None or b is None:
            raise PyRaise(TypeError, ("unsupported operand None",))
        return self.sym_binop(op, a, b)

    def concrete_binop(self, op, a, b):
        import operator as O

        table = {
            ast.Add: O.add,
            ast.Sub: O.sub,
            ast.Mult: O.mul,
            ast.Div: O.truediv,
            ast.FloorDiv: O.floordiv,
            ast.Mod: O.mod,
            ast.Pow: O.pow,
            ast.BitAnd: O.and_,
            ast.BitOr: O.or_,
            ast.BitXor: O.xor,
            ast.LShift: O.lshift,
            ast.RShift: O.rshift,
            ast.MatMult: O.matmul,
        }
        fn = table[type(op)]
        try:
            return fn(a, b)
        except Exception as ex:
            raise PyRaise(type(ex), ex.args)

    def sym_binop(self, op, a, b):
        ctx = self.ctx
        if isinstance(op, (ast.BitAnd, ast.BitOr, ast.BitXor)):
            ta, tb = to_z3(a), to_z3(b)
            if z3.is_bool(ta) and z3.is_bool(tb):
                return {ast.BitAnd: z3.And, ast.BitOr: z3.Or, ast.BitXor: z3.Xor}[type(op)](ta, tb)
            return self.lib.bit_op(self, op, a, b)
        if isinstance(op, (ast.LShift, ast.RShift)):
            if isinstance(b, int) and b >= 0:
                if isinstance(op, ast.LShift):
                    return as_arith(a) * (2**b)
                return self.sym_binop(ast.FloorDiv(), a, 2**b)
            raise Undecided("shift by a symbolic amount")
        x, y = unify(a, b)
        if isinstance(op, ast.Add):
            return x + y
        if isinstance(op, ast.Sub):
            return x - y
        if isinstance(op, ast.Mult):
            return x * y
        if isinstance(op, ast.Div):
            if ctx.decide(y == 0, "div0"):
                raise PyRaise(ZeroDivisionError, ("division by zero",))
            return as_real(x) / as_real(y)
        if isinstance(op, (ast.FloorDiv, ast.Mod)):
            if ctx.decide(y == 0, "div0"):
                raise PyRaise(ZeroDivisionError, ("division or modulo by zero",))
            both_int = z3.is_int(x) and z3.is_int(y)
            # floor division is a function of its operands: one (q, r) pair per operand pair and path
            key = (z3.simplify(x).get_id(), z3.simplify(y).get_id())
            cache = ctx.__dict__.setdefault("divmod_cache", {})
            fcache = ctx.__dict__.setdefault("floor_cache", {})
            fkey = None
            y = z3.simplify(y)
            if not both_int and (z3.is_rational_value(y) or z3.is_int_value(y)) and z3.is_true(z3.simplify(y > 0)):
                # division by a positive constant: x // c == floor(x / c), shared with every floor() of that term
                ft = z3.simplify(as_real(x) / as_real(y))
                fkey = ft.get_id()
            if key in cache:
                q, r, _keep = cache[key]
            elif fkey is not None and fkey in fcache:
                q = fcache[fkey][0]
                r = z3.simplify(as_real(x) - z3.ToReal(q) * as_real(y))
                cache[key] = (q, r, (x, y))
            else:
                q = ctx.fresh("q", "int")
                r = ctx.fresh("r", "int" if both_int else "real")
                cache[key] = (q, r, (x, y))
                if fkey is not None:
                    fcache[fkey] = (q, ft)
                qq = q if both_int else z3.ToReal(q)
                ctx.assume(x == qq * y + r)
                ctx.assume(z3.If(y > 0, z3.And(r >= 0, r < y), z3.And(r <= 0, r > y)))
            if isinstance(op, ast.FloorDiv):
                return q if both_int else z3.ToReal(q)
            return r
        if isinstance(op, ast.Pow):
            if isinstance(b, int) and 0 <= b <= 4:
                out = to_z3(1)
                for _ in range(b):
                    out, xx = unify(out, x)
                    out = out * xx
                return out
            raise Undecided("power with symbolic operands")
        raise Undecided(f"operator {type(op).__name__}")

    def obj_binop(self, op, a, b):
        names = {
            ast.Add: ("__add__", "__radd__"),
            ast.Sub: ("__sub__", "__rsub__"),
            ast.Mult: ("__mul__", "__rmul__"),
            ast.Div: ("__truediv__", "__rtruediv__"),
        }.get(type(op))
        if names is None:
            raise Undecided("object operator")
        if isinstance(a, SObj) and hasattr(a.cls, names[0]):
            return self.call_method(a, names[0], [b], {})
        if isinstance(b, SObj) and hasattr(b.cls, names[1]):
            return self.call_method(b, names[1], [a], {})
        raise PyRaise(TypeError, ("unsupported operand types",))

    # ----- comparisons
    def compare(self, op, a, b):
        from .strings import SStr

        if isinstance(op, ast.Is):
            return self.identical(a, b)
        if isinstance(op, ast.IsNot):
            r = self.identical(a, b)
            return z3.Not(r) if is_sym(r) else (not r)
        if isinstance(op, ast.In):
            return self.contains(b, a)
        if isinstance(op, ast.NotIn):
            r = self.contains(b, a)
            return z3.Not(r) if is_sym(r) else (not r)
        if isinstance(op, ast.Eq):
            return self.equals(a, b)
        if isinstance(op, ast.NotEq):
            r = self.equals(a, b)
            return z3.Not(r) if is_sym(r) else (not r)
        if hasattr(a, "_pyvc_compare"):
            r = a._pyvc_compare(self, op, b, False)
            if r is not NotImplemented:
                return r
        if hasattr(b, "_pyvc_compare"):
            r = b._pyvc_compare(self, op, a, True)
            if r is not NotImplemented:
                return r
        if type(a).__name__ == "_NaN" or type(b).__name__ == "_NaN":
            return False  # IEEE: every ordering comparison with NaN is false
        if isinstance(a, SObj) or isinstance(b, SObj):
            return self.obj_compare(op, a, b)
        if a is None or b is None:
            raise PyRaise(TypeError, ("ordering comparison with None",))
        if isinstance(a, (SStr, str)) or isinstance(b, (SStr, str)):
            if isinstance(a, str) and isinstance(b, str):
                pass
            else:
                raise Undecided("ordering of symbolic strings")
        if isinstance(a, (list, tuple)) and isinstance(b, (list, tuple)) and not (deep_concrete(a) and deep_concrete(b)):
            return self.lex_compare(op, list(a), list(b))
        if not is_sym(a) and not is_sym(b):
            if not (deep_concrete(a) and deep_concrete(b)):
                raise Undecided(f"ordering of {type(a).__name__} and {type(b).__name__} holding symbolic values")
            import operator as O

            fn = {ast.Lt: O.lt, ast.LtE: O.le, ast.Gt: O.gt, ast.GtE: O.ge}[type(op)]
            try:
                return fn(a, b)
            except Exception as ex:
                raise PyRaise(type(ex), ex.args)
        x, y = unify(a, b)
        if isinstance(op, ast.Lt):
            return x < y
        if isinstance(op, ast.LtE):
            return x <= y
        if isinstance(op, ast.Gt):
            return x > y
        if isinstance(op, ast.GtE):
            return x >= y
        raise Undecided("comparison operator")

    def lex_compare(self, op, a, b):
        """Lexicographic ordering of two static sequences with symbolic elements (tuple / list semantics)."""
        strict = isinstance(op, (ast.Lt, ast.Gt))
        base = ast.Lt() if isinstance(op, (ast.Lt, ast.LtE)) else ast.Gt()
        n = min(len(a), len(b))
        # result = OR_k (prefix equal up to k and a[k] < b[k])  OR  (all n equal and length rule)
        alts = []
        eq_prefix = []
        for k in range(n):
            lt = self.truthy(self.compare(base, a[k], b[k]))
            alts.append(_conj(eq_prefix + [lt]))
            eq_prefix = eq_prefix + [self.truthy(self.equals(a[k], b[k]))]
        if isinstance(base, ast.Lt):
            tail = (len(a) < len(b)) if strict else (len(a) <= len(b))
        else:
            tail = (len(a) > len(b)) if strict else (len(a) >= len(b))
        alts.append(_conj(eq_prefix + [tail]))
        return _disj(alts)

    def obj_compare(self, op, a, b):
        tbl = {ast.Lt: ("__lt__", "__gt__"), ast.LtE: ("__le__", "__ge__"), ast.Gt: ("__gt__", "__lt__"), ast.GtE: ("__ge__", "__le__")}
        n, rn = tbl[type(op)]
        if isinstance(a, SObj):
            m = _own_method(a.cls, n)
            if m is not None:
                return self.call(m, [a, b], {})
            # functools.total_ordering: derive from the one defined comparison + __eq__
            return self.total_ordering(op, a, b)
        if isinstance(b, SObj):
            m = _own_method(b.cls, rn)
            if m is not None:
                return self.call(m, [b, a], {})
            return self.total_ordering(_swap(op), b, a)
        raise Undecided("object comparison")

    def total_ordering(self, op, a, b):
        """Semantics of functools.total_ordering for a class defining __lt__ (or __gt__) and __eq__."""
        lt = _own_method(a.cls, "__lt__")
        gt = _own_method(a.cls, "__gt__")

        def neg(v):
            t = self.truthy(v)
            return z3.Not(t) if is_sym(t) else (not t)

        def disj(u, v):
            tu, tv = self.truthy(u), self.truthy(v)
            if isinstance(tu, bool) and isinstance(tv, bool):
                return tu or tv
            return z3.Or(to_z3(tu), to_z3(tv))

        def conj(u, v):
            tu, tv = self.truthy(u), self.truthy(v)
            if isinstance(tu, bool) and isinstance(tv, bool):
                return tu and tv
            return z3.And(to_z3(tu), to_z3(tv))

        eq = lambda: self.equals(a, b)
        if lt is not None:
            l = lambda: self.call(lt, [a, b], {})
            if isinstance(op, ast.Lt):
                return l()
            if isinstance(op, ast.LtE):
                return disj(l(), eq())
            if isinstance(op, ast.Gt):
                return conj(neg(l()), neg(eq()))
            if isinstance(op, ast.GtE):
                return neg(l())
        if gt is not None:
            g = lambda: self.call(gt, [a, b], {})
            if isinstance(op, ast.Gt):
                return g()
            if isinstance(op, ast.GtE):
                return disj(g(), eq())
            if isinstance(op, ast.Lt):
                return conj(neg(g()), neg(eq()))
            if isinstance(op, ast.LtE):
                return neg(g())
        raise Undecided("ordering without __lt__/__gt__")

    def identical(self, a, b):
        if a is None or b is None:
            if is_sym(a) or is_sym(b):
                return False
            return a is b
        if is_sym(a) or is_sym(b):
            raise Undecided("identity of terms")
        if isinstance(a, (bool, int)) and isinstance(b, (bool, int)):
            return type(a) is type(b) and a == b
        return a is b

    def equals(self, a, b):
        from .strings import SStr

        if hasattr(a, "_pyvc_compare"):
            r = a._pyvc_compare(self, ast.Eq(), b, False)
            if r is not NotImplemented:
                return r
        if hasattr(b, "_pyvc_compare"):
            r = b._pyvc_compare(self, ast.Eq(), a, True)
            if r is not NotImplemented:
                return r
        if isinstance(a, SObj) or isinstance(b, SObj):
            o, other = (a, b) if isinstance(a, SObj) else (b, a)
            m = _own_method(o.cls, "__eq__")
            if m is not None:
                return self.call(m, [o, other], {})
            return a is b
        if isinstance(a, (SStr, str)) and isinstance(b, (SStr, str)):
            return SStr.of(a).eq(self, SStr.of(b))
        if isinstance(a, (SStr, str)) or isinstance(b, (SStr, str)):
            return False
        if a is None or b is None:
            return a is b
        if isinstance(a, (list, tuple)) and isinstance(b, (list, tuple)):
            if type(a) is not type(b) and not (isinstance(a, (list,)) == isinstance(b, (list,))):
                return False
            if len(a) != len(b):
                return False
            cs = [self.equals(x, y) for x, y in zip(a, b)]
            return _conj(cs)
        if isinstance(a, dict) and isinstance(b, dict):
            if set(a.keys()) != set(b.keys()):
                return False
            return _conj([self.equals(a[k], b[k]) for k in a])
        if not is_sym(a) and not is_sym(b):
            if not (deep_concrete(a) and deep_concrete(b)):
                if a is b:
                    return True
                raise Undecided(f"equality of {type(a).__name__} and {type(b).__name__} holding symbolic values")
            try:
                return a == b
            except Exception as ex:
                raise PyRaise(type(ex), ex.args)
        if isinstance(a, (list, tuple, dict, set)) or isinstance(b, (list, tuple, dict, set)):
            return False
        try:
            ta, tb = to_z3(a), to_z3(b)
        except Undecided:
            return False
        if z3.is_bool(ta) and z3.is_bool(tb):
            return ta == tb
        x, y = unify(ta, tb)
        return x == y

    def contains(self, container, item):
        from .strings import SStr

        if hasattr(container, "_pyvc_contains"):
            return container._pyvc_contains(self, item)
        if isinstance(container, dict):
            if isinstance(item, SStr) and not item.is_literal():
                return _disj([item.eq(self, SStr.lit(k)) for k in container if isinstance(k, str)])
            return self.dict_find(container, item) is not _MISSING
        if isinstance(container, (list, tuple, set, frozenset)):
            if deep_concrete(container) and deep_concrete(item):
                return item in container
            return _disj([self.equals(x, item) for x in container])
        if isinstance(container, (SStr, str)):
            return SStr.of(container).contains(self, SStr.of(item))
        if isinstance(container, SObj):
            return self.call_method(container, "__contains__", [item], {})
        if deep_concrete(container) and deep_concrete(item):
            return item in container
        raise Undecided("membership test")


# --------------------------------------------------------------------------- helpers


def _conj(cs):
    out = []
    for c in cs:
        if isinstance(c, bool):
            if not c:
                return False
        else:
            out.append(to_z3(c))
    if not out:
        return True
    return z3.And(*out) if len(out) > 1 else out[0]


def _disj(cs):
    out = []
    for c in cs:
        if isinstance(c, bool):
            if c:
                return True
        else:
            out.append(to_z3(c))
    if not out:
        return False
    return z3.Or(*out) if len(out) > 1 else out[0]


def _swap(op):
    return {ast.Lt: ast.Gt, ast.Gt: ast.Lt, ast.LtE: ast.GtE, ast.GtE: ast.LtE}[type(op)]()


def _own_method(cls, name):
    """The method `name` as written in the class hierarchy's source (ignoring object's defaults and
    the ones synthesised by functools.total_ordering / dataclass)."""
    for k in cls.__mro__:
        if k is object:
            break
        if name in k.__dict__:
            f = k.__dict__[name]
            if isinstance(f, types.FunctionType):
                fn = f.__code__.co_filename
                if fn.startswith("<") or fn.endswith("functools.py"):
                    return None
                return f
            return None
    return None


def _make_exc(pr: PyRaise):
    try:
        if deep_concrete(pr.exc_args):
            return pr.exc_cls(*pr.exc_args)
    except Exception:
        pass
    return SObj(pr.exc_cls, {"args": pr.exc_args})


def _is_generator(node):
    for n in ast.walk(node):
        if isinstance(n, (ast.Yield, ast.YieldFrom)):
            # make sure it belongs to this function, not a nested one
            p = n
            while p is not node and not isinstance(p, (ast.FunctionDef, ast.Lambda)):
                p = getattr(p, "_parent", node)
                if p is None:
                    break
            if p is node:
                return True
    return False


def _is_log_call(e):
    if not isinstance(e, ast.Call):
        return False
    f = e.func
    if isinstance(f, ast.Attribute) and isinstance(f.value, ast.Name):
        if f.value.id in ("log", "logging", "logger", "warnings") and f.attr in (
            "debug",
            "info",
            "warning",
            "warn",
            "error",
            "critical",
        ):
            return True
    return False


# --------------------------------------------------------------------------- DFS driver


def explore(run_path, max_paths=1500, on_result=None, max_seconds=None):
    """run_path(ctx) -> outcome.  Calls on_result(ctx, outcome) per feasible path (or returns the list).
    When the budget runs out the paths explored so far have been reported and Undecided is raised."""
    import time as _t

    t0 = _t.time()
    stack = [[]]
    results = []
    n = 0
    while stack:
        prefix = stack.pop()
        ctx = PathCtx(prefix)
        outcome = run_path(ctx)
        n += 1
        if on_result is not None:
            on_result(ctx, outcome)
        else:
            results.append((ctx, outcome))
        stack.extend(ctx.alternatives)
        if n >= max_paths and stack:
            raise Undecided(f"path budget exceeded ({n} paths explored, more pending)")
        if max_seconds is not None and _t.time() - t0 > max_seconds and stack:
            raise Undecided(f"exploration time budget exceeded ({n} paths explored, more pending)")
    return results
